package main

// Rules added after the first round of independently seeded changes (DESIGN.md section 7): each states a general
// structural necessary condition, not the particular change that prompted it.

import (
	"fmt"
	"go/token"
	"go/types"
	"strings"

	"golang.org/x/tools/go/ssa"
)

// ---- GR8: the dependency loop -------------------------------------------------------------------------------------------

func ruleGR8(c *Ctx) *rule {
	r := &rule{ID: "GR8", Engine: "E2", Floor: 2,
		Statement: "the loop in which a task's dependencies are added to the graph is left only by exhaustion or by returning a non-nil error, and every way round it calls AddEdge for the dependency at hand; SpokFile.Run is called once, outside any loop, with the whole request list",
		Necessity: "a `return nil` / `break` inside that loop, or a way round without AddEdge, silently drops the remaining dependencies (or their ordering constraint); calling Run once per requested name runs shared dependencies once per name and lets earlier names run before a later name is found to be undefined"}
	for i, site := range c.dagCalls("AddEdge") {
		f := site.Parent()
		fi := c.info(f)
		l := fi.innermostLoop(site.Block())
		key := fmt.Sprintf("%s AddEdge#%d loop", fname(f), i+1)
		if l == nil {
			// a helper handling one dependency: the loop is at its single call site, and inside the helper every path that
			// returns without error passes AddEdge
			sites := c.callersOf(f)
			if len(sites) == 1 && c.info(sites[0].Parent()).innermostLoop(sites[0].Block()) != nil {
				missing := ""
				seenB := map[string]bool{}
				var walk func(b *ssa.BasicBlock, done bool, ps *pathState)
				walk = func(b *ssa.BasicBlock, done bool, ps *pathState) {
					k := fmt.Sprintf("%d|%v|%s", b.Index, done, ps.key())
					if missing != "" || seenB[k] {
						return
					}
					seenB[k] = true
					for _, in := range b.Instrs {
						if in == ssa.Instruction(site) {
							done = true
						}
						if ret, ok := in.(*ssa.Return); ok {
							if ev := returnedErr(ret); (ev == nil || ps.mayBeNil(ev)) && !done {
								missing = "the helper can return without error at " + c.ipos(ret) + " without having called AddEdge"
							}
							return
						}
					}
					for j, nx := range b.Succs {
						if _, _, next, ok := ps.branch(b, j); ok {
							walk(nx, done, next.enter(nx, b))
						}
					}
				}
				walk(f.Blocks[0], false, newPathStateFor(f))
				if missing != "" {
					r.bad(key, c.ipos(site), missing)
					continue
				}
				site = sites[0]
				f = site.Parent()
				fi = c.info(f)
				l = fi.innermostLoop(site.Block())
			}
		}
		if l == nil {
			r.bad(key, c.ipos(site), "AddEdge is not called in a loop over the task's dependencies")
			continue
		}
		// (a) exits
		bad := ""
		for _, b := range f.Blocks {
			if !l.body[b] {
				continue
			}
			for j, s := range b.Succs {
				if l.body[s] {
					continue
				}
				if b == l.header {
					continue // exhaustion
				}
				_ = j
				// everything reachable from s must end in non-nil error returns
				if ok, why := c.edgeEndsInError(edge{b, j}); !ok {
					bad = "the loop is left at " + c.bpos(b) + " other than by exhaustion or an error: " + why
				}
			}
		}
		// (b) every way round passes AddEdge
		type st struct {
			b *ssa.BasicBlock
			n bool
		}
		seen := map[st]bool{}
		var dfs func(b *ssa.BasicBlock, n bool)
		dfs = func(b *ssa.BasicBlock, n bool) {
			if bad != "" || seen[st{b, n}] {
				return
			}
			seen[st{b, n}] = true
			for _, in := range b.Instrs {
				if in == ssa.Instruction(site) {
					n = true
				}
			}
			for _, s := range b.Succs {
				if s == l.header && l.body[b] {
					if !n {
						bad = "a way round the loop ending at " + c.bpos(b) + " does not call AddEdge: that dependency does not constrain the order"
					}
					continue
				}
				if l.body[s] {
					dfs(s, n)
				}
			}
		}
		for _, s := range l.header.Succs {
			if l.body[s] {
				dfs(s, false)
			}
		}
		if bad == "" {
			r.ok(key, c.ipos(site), "left only by exhaustion or error; AddEdge on every way round")
		} else {
			r.bad(key, c.ipos(site), bad)
		}
	}
	// SpokFile.Run called once with the whole list
	runM := c.method("file", "SpokFile", "Run")
	for i, site := range c.callersOf(runM) {
		f := site.Parent()
		key := fmt.Sprintf("%s SpokFile.Run#%d whole-request", fname(f), i+1)
		if c.info(f).innermostLoop(site.Block()) != nil {
			r.bad(key, c.ipos(site), "SpokFile.Run is called inside a loop: the request is run name by name instead of as one graph")
			continue
		}
		args := site.Common().Args
		last := args[len(args)-1]
		okArg := false
		why := ""
		for _, o := range origins(last) {
			switch x := o.(type) {
			case *ssa.Parameter:
				// the function's own variadic / slice parameter, itself bound to the whole list at every call site
				if why2 := c.wholeRequest(x, 4); why2 == "" {
					okArg = true
				} else {
					why = why2
				}
			case *ssa.Slice:
				if constList(x) {
					okArg = true
				} else {
					why = "the request list is built from single names or re-sliced"
				}
			default:
				why = "the request list is " + valText(o)
			}
		}
		if okArg {
			r.ok(key, c.ipos(site), "called once with the request list unchanged")
		} else {
			r.bad(key, c.ipos(site), "SpokFile.Run does not receive the whole request list: "+why)
		}
	}
	return r
}

// ---- RT4: results pass through unchanged -----------------------------------------------------------------------------------

func ruleRT4(c *Ctx) *rule {
	r := &rule{ID: "RT4", Engine: "E3", Floor: 1,
		Statement: "every function between the run loop and the CLI returns the results it received from its callee unchanged (same slice, no filtering, sorting or element stores)",
		Necessity: "results that are dropped on the way up can hide a failed command (of a task that ran as a dependency) from the exit-status check and from the report"}
	rl := c.runLoop()
	cur := rl.fn
	for depth := 0; depth < 4; depth++ {
		sites := c.callersOf(cur)
		if len(sites) == 0 {
			break
		}
		var next *ssa.Function
		for _, site := range sites {
			f := site.Parent()
			call, ok := site.(*ssa.Call)
			if !ok || f.Signature.Results().Len() == 0 || !isNamed(firstResult(f), pkgPath("task"), "Results") {
				continue
			}
			next = f
			key := fmt.Sprintf("%s returns results of %s", fname(f), fname(cur))
			bad := ""
			n := 0
			for _, ret := range returnsOf(f) {
				ev := returnedErr(ret)
				if ev == nil || !isNilConst(ev) {
					continue
				}
				n++
				if !isResultOf(ret.Results[0], call, 0) {
					bad = "the results returned at " + c.ipos(ret) + " are not the slice received from " + fname(cur)
				}
			}
			for _, ref := range valueReferrers(call) {
				if ex, ok := ref.(*ssa.Extract); ok && ex.Index == 0 {
					if why := resultsUntouched(c, ex); why != "" {
						bad = why
					}
				}
			}
			switch {
			case n == 0:
				r.bad(key, c.ipos(site), "no successful return")
			case bad != "":
				r.bad(key, c.ipos(site), bad)
			default:
				r.ok(key, c.ipos(site), "passed up unchanged")
			}
		}
		if next == nil {
			break
		}
		cur = next
	}
	if len(r.Instances) == 0 {
		r.ok(fname(rl.fn)+" results consumed in place", c.ipos(rl.X), "no function lies between the run loop and its consumer (GR6 checks the value returned by the loop's function)")
	}
	return r
}

// ---- CL6: the containment predicate -------------------------------------------------------------------------------------------

func ruleCL6(c *Ctx) *rule {
	r := &rule{ID: "CL6", Engine: "E3", Floor: 1,
		Statement: "the test that relates a path to the project root is computed with filepath.Rel / filepath.IsLocal on the two paths, or with a prefix test whose prefix ends in a path separator — never a bare strings.HasPrefix(path, root)",
		Necessity: "a textual prefix without separator accepts siblings of the project directory whose name merely starts with the project's name (proj vs proj-old): --clean would delete outside the project"}
	n := 0
	for _, s := range c.removalSinks() {
		if !s.cond["opt:Clean=true"] {
			continue
		}
		for _, f := range closuresOf(s.fn) {
			for _, b := range f.Blocks {
				iff, ok := lastInstr(b).(*ssa.If)
				if !ok {
					continue
				}
				cond, _ := normCond(iff.Cond, true)
				sl := c.newSlicer()
				sl.depth = 2
				res := sl.run(cond)
				if !res.hasField("file.SpokFile.Dir") {
					continue
				}
				// only conditions computed from a containment primitive applied to the root: Rel(root, p), IsLocal, HasPrefix(p, <root...>)
				relevant := false
				for _, rc := range append(append([]*ssa.Call{}, res.calls["path/filepath.Rel"]...), res.calls["path/filepath.IsLocal"]...) {
					as := c.newSlicer()
					as.depth = 1
					if as.run(rc.Common().Args...).hasField("file.SpokFile.Dir") || calleeName(rc.Common()) == "path/filepath.IsLocal" {
						relevant = true
					}
				}
				for _, hp := range res.calls["strings.HasPrefix"] {
					as := c.newSlicer()
					as.depth = 1
					if as.run(hp.Common().Args[1]).hasField("file.SpokFile.Dir") {
						relevant = true
					}
				}
				if !relevant {
					continue
				}
				n++
				key := fmt.Sprintf("%s containment-predicate#%d", fname(f), n)
				hasRel := res.hasCall("path/filepath.Rel") || res.hasCall("path/filepath.IsLocal")
				badPrefix := ""
				for _, hp := range res.calls["strings.HasPrefix"] {
					ps := c.newSlicer()
					ps.depth = 1
					pres := ps.run(hp.Common().Args[1])
					if !pres.hasField("file.SpokFile.Dir") {
						continue // a prefix test on something else (e.g. on the relative path computed by Rel)
					}
					sep := false
					for _, cst := range pres.consts {
						if s, ok := constString(cst); ok && (strings.HasSuffix(s, "/") || strings.HasSuffix(s, "\\")) {
							sep = true
						}
						if n2, ok := constInt(cst); ok && (n2 == '/' || n2 == '\\') {
							sep = true
						}
					}
					if !sep && !hasRel {
						badPrefix = c.ipos(hp)
					}
				}
				switch {
				case badPrefix != "":
					r.bad(key, badPrefix, "containment is decided by a bare textual prefix (no path separator, no filepath.Rel): a sibling directory sharing the project's name as prefix passes the test")
				case hasRel:
					r.ok(key, c.bpos(b), "based on filepath.Rel / filepath.IsLocal")
				case len(res.calls["strings.HasPrefix"]) > 0:
					r.ok(key, c.bpos(b), "prefix test with a trailing separator")
				default:
					r.undecided(key, c.bpos(b), "the containment test is of a form the checker does not model")
				}
			}
		}
	}
	if n == 0 {
		r.bad("module containment-predicate", "-", "no condition in the clean function relates a path to SpokFile.Dir")
	}
	return r
}

// ---- EN5: builtins ---------------------------------------------------------------------------------------------------------------

// builtinFuncs reads the name -> function table of package builtins from its initialiser.
func (c *Ctx) builtinFuncs() map[string]*ssa.Function {
	out := map[string]*ssa.Function{}
	initF := c.pkg("builtins").Func("init")
	if initF == nil {
		lost("builtins.init")
	}
	for _, b := range initF.Blocks {
		for _, in := range b.Instrs {
			mu, ok := in.(*ssa.MapUpdate)
			if !ok {
				continue
			}
			k, ok := constString(mu.Key)
			if !ok {
				continue
			}
			for _, o := range origins(mu.Value) {
				if fn, ok := o.(*ssa.Function); ok {
					out[k] = fn
				}
			}
			if ct, ok := mu.Value.(*ssa.ChangeType); ok {
				if fn, ok := ct.X.(*ssa.Function); ok {
					out[k] = fn
				}
			}
		}
	}
	if len(out) > 0 {
		return out
	}
	// a slice or array of {name, function} rows filled by the package initialiser
	if pkg := c.pkg("builtins"); pkg != nil {
		if ini, _ := pkg.Members["init"].(*ssa.Function); ini != nil {
			names := map[ssa.Value]string{}
			fns := map[ssa.Value]*ssa.Function{}
			for _, b := range ini.Blocks {
				for _, in := range b.Instrs {
					st, ok := in.(*ssa.Store)
					if !ok {
						continue
					}
					fa, ok := st.Addr.(*ssa.FieldAddr)
					if !ok {
						continue
					}
					row := fa.X
					if k, isC := constString(st.Val); isC {
						names[row] = k
						continue
					}
					for _, o := range append([]ssa.Value{st.Val}, origins(st.Val)...) {
						switch x := o.(type) {
						case *ssa.Function:
							fns[row] = x
						case *ssa.ChangeType:
							if f2, ok := x.X.(*ssa.Function); ok {
								fns[row] = f2
							}
						}
					}
				}
			}
			for row, k := range names {
				if fn := fns[row]; fn != nil {
					out[k] = fn
				}
			}
		}
	}
	if len(out) > 0 {
		return out
	}
	// no table: builtins.Get selects the function with comparisons of its name parameter against constants
	get := c.fnOpt("builtins", "Get")
	if get == nil || len(get.Params) != 1 {
		return out
	}
	fi := c.info(get)
	for _, ret := range returnsOf(get) {
		var fn *ssa.Function
		for _, o := range origins(ret.Results[0]) {
			switch x := o.(type) {
			case *ssa.Function:
				fn = x
			case *ssa.ChangeType:
				if f2, ok := x.X.(*ssa.Function); ok {
					fn = f2
				}
			}
		}
		if fn == nil {
			continue
		}
		for _, g := range fi.necessaryGuards(ret.Block()) {
			bo, ok := g.cond.(*ssa.BinOp)
			if !ok || !((bo.Op == token.EQL && g.pol) || (bo.Op == token.NEQ && !g.pol)) {
				continue
			}
			for _, pair := range [][2]ssa.Value{{bo.X, bo.Y}, {bo.Y, bo.X}} {
				if k, isC := constString(pair[1]); isC && pair[0] == ssa.Value(get.Params[0]) {
					out[k] = fn
				}
			}
		}
	}
	// a phi of function values selected by the same comparisons
	if len(out) == 0 {
		for _, ret := range returnsOf(get) {
			if phi, ok := ret.Results[0].(*ssa.Phi); ok {
				for i, e := range phi.Edges {
					var fn *ssa.Function
					for _, o := range origins(e) {
						if f2, ok := o.(*ssa.Function); ok {
							fn = f2
						}
						if ct, ok := o.(*ssa.ChangeType); ok {
							if f2, ok := ct.X.(*ssa.Function); ok {
								fn = f2
							}
						}
					}
					if fn == nil {
						continue
					}
					pred := phi.Block().Preds[i]
					for _, g := range fi.guardsOfEdge(edge{pred, succIndex(pred, phi.Block())}) {
						if bo, ok := g.cond.(*ssa.BinOp); ok && ((bo.Op == token.EQL && g.pol) || (bo.Op == token.NEQ && !g.pol)) {
							for _, pair := range [][2]ssa.Value{{bo.X, bo.Y}, {bo.Y, bo.X}} {
								if k, isC := constString(pair[1]); isC && pair[0] == ssa.Value(get.Params[0]) {
									out[k] = fn
								}
							}
						}
					}
				}
			}
		}
	}
	return out
}

func ruleEN5(c *Ctx) *rule {
	r := &rule{ID: "EN5", Engine: "E3", Floor: 3,
		Statement: "the builtin registered as \"exec\" returns strings.TrimSpace of the Stdout of running its single argument and returns an error when the command is not Ok; the builtin registered as \"join\" returns filepath.Abs(filepath.Join(parts...))",
		Necessity: "these are the definitions of the two value-producing builtins in the property; any other trimming (TrimRight, TrimSuffix) or a relative join gives variables a different value than the spokfile denotes"}
	bf := c.builtinFuncs()
	r.note("registered builtins: %d", len(bf))
	ex, jo := bf["exec"], bf["join"]
	if ex == nil || jo == nil {
		r.bad("builtins table", "-", "the builtins table does not register both \"exec\" and \"join\"")
		return r
	}
	// exec
	{
		key := fname(ex) + " value"
		bad, okV := "", false
		for _, sv := range successValues(ex) {
			for _, o := range origins(sv) {
				if s, isC := constString(o); isC && s == "" {
					continue // the error path of an inlined helper
				}
				call, ok := o.(*ssa.Call)
				if !ok {
					bad = "the value returned is not the result of a trimming call"
					continue
				}
				n := calleeName(call.Common())
				switch {
				case n == "strings.TrimSpace":
					if loadedField(call.Common().Args[0]) == "shell.Result.Stdout" || fieldKey(call.Common().Args[0]) == "shell.Result.Stdout" {
						okV = true
					} else {
						bad = "TrimSpace is not applied to the command's Stdout"
					}
				case strings.HasPrefix(n, "strings.Trim"):
					bad = "the output is trimmed with " + n + " instead of strings.TrimSpace: leading or other surrounding whitespace survives"
				default:
					bad = "the value returned comes from " + n
				}
			}
		}
		switch {
		case bad != "":
			r.bad(key, c.pos(ex.Pos()), bad)
		case okV:
			r.ok(key, c.pos(ex.Pos()), "strings.TrimSpace(result.Stdout)")
		default:
			r.bad(key, c.pos(ex.Pos()), "exec never returns a value")
		}
		// failing command is an error
		key = fname(ex) + " failure-is-error"
		fi := c.info(ex)
		okErr := false
		for _, b := range ex.Blocks {
			iff, isIf := lastInstr(b).(*ssa.If)
			if !isIf {
				continue
			}
			cond, pol := normCond(iff.Cond, true)
			if call, ok := cond.(*ssa.Call); ok {
				if cf := call.Common().StaticCallee(); cf != nil && cf.Name() == "Ok" && inModule(cf) {
					idx := 1
					if !pol {
						idx = 0
					}
					if good, _ := c.edgeEndsInError(edge{b, idx}); good {
						okErr = true
					}
				}
			}
		}
		_ = fi
		// and the runner's own error
		for _, site := range callSites(ex) {
			if site.Common().IsInvoke() || calleeName(site.Common()) == "(github.com/FollowTheProcess/spok/shell.IntegratedRunner).Run" {
				if ev := errOfCall(site); ev != nil {
					if good, _ := c.errEdgeDischarged(ev); !good {
						okErr = false
					}
				}
			}
		}
		if okErr {
			r.ok(key, c.pos(ex.Pos()), "a command that is not Ok (or cannot run) is an error")
		} else {
			r.bad(key, c.pos(ex.Pos()), "a failing exec command does not produce an error")
		}
	}
	// join
	{
		key := fname(jo) + " value"
		okV := false
		for _, sv := range successValues(jo) {
			for _, o := range origins(sv) {
				if e2, ok := o.(*ssa.Extract); ok && e2.Index == 0 {
					if call, ok := e2.Tuple.(*ssa.Call); ok && calleeName(call.Common()) == "path/filepath.Abs" {
						for _, oo := range origins(call.Common().Args[0]) {
							if jc, ok := oo.(*ssa.Call); ok && calleeName(jc.Common()) == "path/filepath.Join" {
								if len(origins(jc.Common().Args[0])) == 1 && origins(jc.Common().Args[0])[0] == ssa.Value(jo.Params[0]) {
									okV = true
								}
							}
						}
					}
				}
			}
		}
		if okV {
			r.ok(key, c.pos(jo.Pos()), "filepath.Abs(filepath.Join(parts...))")
		} else {
			r.bad(key, c.pos(jo.Pos()), "join does not return filepath.Abs(filepath.Join(<all its arguments>))")
		}
	}
	return r
}

// ---- EN6: every variable becomes an environment entry ------------------------------------------------------------------------------

func ruleEN6(c *Ctx) *rule {
	r := &rule{ID: "EN6", Engine: "E2", Floor: 1,
		Statement: "in the loop that turns SpokFile.Vars into KEY=VALUE strings every way round appends exactly one element (no variable is skipped, whatever its value)",
		Necessity: "a variable that is left out (for instance because its value is empty) is absent from the command's environment, so an ambient variable of the same name shows through"}
	n := 0
	for _, f := range c.ModFuncs {
		fi := c.info(f)
		for _, l := range fi.loops {
			// a loop that ranges over SpokFile.Vars
			isVars := false
			for _, b := range f.Blocks {
				if !l.body[b] {
					continue
				}
				for _, in := range b.Instrs {
					if nx, ok := in.(*ssa.Next); ok {
						if rg, ok := nx.Iter.(*ssa.Range); ok && isFieldLoad(rg.X, "file.SpokFile.Vars") {
							isVars = true
						}
					}
				}
			}
			if !isVars {
				continue
			}
			for _, p := range l.headerPhis() {
				sl, ok := p.Type().Underlying().(*types.Slice)
				if !ok {
					continue
				}
				if b, ok := sl.Elem().Underlying().(*types.Basic); !ok || b.Kind() != types.String {
					continue
				}
				// only accumulators of KEY=VALUE strings (the element contains "=")
				isEnv := false
				es := c.newSlicer()
				es.depth = 0
				var edges []ssa.Value
				for i, pred := range l.header.Preds {
					if l.body[pred] {
						edges = append(edges, p.Edges[i])
					}
				}
				for _, cst := range es.run(edges...).consts {
					if s, ok := constString(cst); ok && s == "=" {
						isEnv = true
					}
				}
				if !isEnv {
					continue
				}
				n++
				key := fmt.Sprintf("%s env-accumulator#%d", fname(f), n)
				bad := ""
				for i, pred := range l.header.Preds {
					if !l.body[pred] {
						continue
					}
					if !isOneAppend(p.Edges[i], p) {
						bad = "the way round the loop ending at " + c.bpos(pred) + " does not append exactly one KEY=VALUE element"
					}
				}
				if bad == "" {
					r.ok(key, c.ipos(p), "one element per variable, unconditionally")
				} else {
					r.bad(key, c.ipos(p), bad)
				}
			}
		}
	}
	if n == 0 {
		r.undecided("module env-accumulator", "-", "no loop over SpokFile.Vars that accumulates KEY=VALUE strings was found")
	}
	return r
}

// isOneAppend: v == append(acc, <exactly one element>).
func isOneAppend(v ssa.Value, acc ssa.Value) bool {
	cl, ok := v.(*ssa.Call)
	if !ok {
		return false
	}
	bi, ok := cl.Call.Value.(*ssa.Builtin)
	if !ok || bi.Name() != "append" || cl.Call.Args[0] != acc {
		return false
	}
	sl, ok := cl.Call.Args[1].(*ssa.Slice)
	if !ok {
		return false
	}
	a, ok := sl.X.(*ssa.Alloc)
	if !ok {
		return false
	}
	arr, ok := a.Type().(*types.Pointer).Elem().(*types.Array)
	return ok && arr.Len() == 1
}

// ---- FD6: the loop over the entries is exhausted --------------------------------------------------------------------------------------

func ruleFD6(c *Ctx) *rule {
	r := &rule{ID: "FD6", Engine: "E2", Floor: 1,
		Statement: "inside the upward walk, a loop over a directory's entries is left only by exhaustion or on a path that returns; no `break` cuts the listing short",
		Necessity: "entries that are not examined may include the spokfile: the directory is then skipped and a farther spokfile (or none) is reported"}
	fw := c.findWalk()
	n := 0
	for _, l := range fw.fi.loops {
		if l == fw.loop || !fw.loop.body[l.header] {
			continue
		}
		n++
		key := fmt.Sprintf("%s entries-loop#%d exits", fname(fw.fn), n)
		bad := ""
		for _, b := range fw.fn.Blocks {
			if !l.body[b] {
				continue
			}
			for i, s := range b.Succs {
				if l.body[s] || b == l.header {
					continue
				}
				// leaving from the body: must not come back to the walk (only returns), on any feasible path
				if rs := reach(s, nil, nil); rs[fw.loop.header] && feasiblyReaches(fw.fi, edge{b, i}, fw.loop.header) {
					bad = "the loop over the entries is left at " + c.bpos(b) + " without returning: the remaining entries of the directory are never examined"
				}
			}
		}
		if bad == "" {
			r.ok(key, c.bpos(l.header), "left only by exhaustion or by returning")
		} else {
			r.bad(key, c.bpos(l.header), bad)
		}
	}
	if n == 0 {
		// no loop over the entries: a direct stat of <dir>/NAME; FD4 judges its guards
		r.ok(fname(fw.fn)+" no-entries-loop", c.bpos(fw.loop.header), "the directory is not scanned with a loop")
	}
	return r
}

// ---- CC9: nobody blocks on jobs while results are not being drained -------------------------------------------------------------------

func ruleCC9(c *Ctx) *rule {
	r := &rule{ID: "CC9", Engine: "E5", Floor: 1,
		Statement: "the goroutine that drains the results channel never sends on the jobs channel (the feeding is done by its own goroutine), unless the jobs channel's capacity is the length of the input list",
		Necessity: "workers block on the unbuffered results send until the collector receives; if the collector is still busy sending jobs, a list longer than buffer + workers deadlocks"}
	t := c.hashTopology()
	t.describe(r)
	if !t.requireTopology(r) {
		return r
	}
	collector := map[*ssa.Function]bool{}
	for _, s := range t.results.recv {
		collector[s.fn] = true
	}
	capOK := false
	if sz := t.jobs.mk.Size; sz != nil {
		sl := c.newSlicer()
		sl.depth = 0
		res := sl.run(sz)
		for _, call := range res.calls["builtin.len"] {
			ls := c.newSlicer()
			ls.depth = 0
			for _, p := range ls.run(call.Call.Args[0]).params {
				if p.Parent() == t.fn {
					capOK = true
				}
			}
		}
	}
	n := 0
	for _, s := range t.jobs.send {
		n++
		key := fmt.Sprintf("%s send(jobs)#%d", fname(s.fn), n)
		switch {
		case !collector[s.fn]:
			r.ok(key, c.ipos(s.instr), "sent from a goroutine of its own")
		case capOK:
			r.ok(key, c.ipos(s.instr), "sent by the collector, but the channel holds the whole list")
		default:
			r.bad(key, c.ipos(s.instr), "jobs are sent by the goroutine that has to drain results: once the buffer and the workers are full nobody receives and Hash never returns")
		}
	}
	return r
}

// ---- ST7: the reported result is built afresh in each iteration ---------------------------------------------------------------------------

func ruleST7(c *Ctx) *rule {
	r := &rule{ID: "ST7", Engine: "E2+E3", Floor: 1,
		Statement: "the task.Result appended for an iteration of the run loop is a value built in that iteration: its storage is allocated inside the loop (or every field is stored on every way round before the append)",
		Necessity: "a result struct that lives across iterations carries Skipped / CommandResults of the previous task into the next task's entry of the report"}
	rl := c.runLoop()
	rl.describe(r)
	if rl.loop == nil {
		r.undecided(fname(rl.fn)+" task-loop", c.ipos(rl.X), "no task loop in this function")
		return r
	}
	n := 0
	for _, p := range rl.loop.headerPhis() {
		sl, ok := p.Type().Underlying().(*types.Slice)
		if !ok || !isNamed(sl.Elem(), pkgPath("task"), "Result") {
			continue
		}
		for i, pred := range rl.loop.header.Preds {
			if !rl.loop.body[pred] {
				continue
			}
			for _, cl := range appendLeaves(p.Edges[i], rl.loop) {
				n++
				key := fmt.Sprintf("%s appended-result#%d", fname(rl.fn), n)
				// element = load of an Alloc (composite literal / variable)
				ss := c.newSlicer()
				ss.depth = 0
				res := ss.run(cl.Call.Args[1:]...)
				bad := ""
				for _, v := range res.order {
					a, ok := v.(*ssa.Alloc)
					if !ok || !isNamed(a.Type(), pkgPath("task"), "Result") {
						continue
					}
					if rl.loop.body[a.Block()] {
						continue
					}
					// allocated outside: every field must be stored in the loop on every way round — not attempted
					bad = "the result struct " + a.Comment + " is allocated outside the loop and reused: fields not re-assigned in an iteration keep the previous task's values"
				}
				if bad == "" {
					r.ok(key, c.ipos(cl), "a fresh value per iteration")
				} else {
					r.bad(key, c.ipos(cl), bad)
				}
			}
		}
	}
	return r
}

// appendLeaves: the append calls a loop-carried value is made of (looking through merges inside the loop).
func appendLeaves(v ssa.Value, l *loopInfo) []*ssa.Call {
	var out []*ssa.Call
	seen := map[ssa.Value]bool{}
	var walk func(v ssa.Value)
	walk = func(v ssa.Value) {
		if seen[v] {
			return
		}
		seen[v] = true
		switch x := v.(type) {
		case *ssa.Phi:
			if l.body[x.Block()] && x.Block() != l.header {
				for _, e := range x.Edges {
					walk(e)
				}
			}
		case *ssa.Call:
			if bi, ok := x.Call.Value.(*ssa.Builtin); ok && bi.Name() == "append" {
				out = append(out, x)
			}
		}
	}
	walk(v)
	return out
}

// ---- FM4 / FM5 / docstring guard -----------------------------------------------------------------------------------------------------------

// textPredicate classifies a guard on a comment's text: 0 none, 1 raw (`Text != ""`), 2 trimmed (`TrimSpace(Text) != ""`).
func (c *Ctx) textPredicate(gs []guard, fields ...string) int {
	best := 0
	for _, g := range gs {
		bo, ok := g.cond.(*ssa.BinOp)
		if !ok || (bo.Op != token.EQL && bo.Op != token.NEQ) {
			continue
		}
		var other ssa.Value
		if s, ok := constString(bo.Y); ok && s == "" {
			other = bo.X
		} else if s, ok := constString(bo.X); ok && s == "" {
			other = bo.Y
		} else {
			continue
		}
		// the guard must require the text to be non-empty on this edge
		nonEmpty := (bo.Op == token.NEQ) == g.pol
		if !nonEmpty {
			continue
		}
		sl := c.newSlicer()
		sl.depth = 0
		res := sl.run(other)
		hit := false
		for _, f := range fields {
			if res.hasField(f) {
				hit = true
			}
		}
		if !hit {
			continue
		}
		k := 1
		if res.hasCall("strings.TrimSpace") {
			k = 2
		}
		if k > best {
			best = k
		}
	}
	return best
}

func ruleFM4(c *Ctx) *rule {
	r := &rule{ID: "FM4", Engine: "E2+E3", Floor: 2,
		Statement: "the parser attaches a comment as a docstring under a text condition at least as strong as the one under which Task.String prints a docstring (none < Text != \"\" < TrimSpace(Text) != \"\"), the docstring line is printed under no condition other than on the docstring itself, and Comment.String derives the printed text from Text through strings.TrimSpace only",
		Necessity: "reader and writer must agree: a comment the parser attaches but the printer omits (whitespace-only text) disappears, and the comment above it becomes the docstring on the next parse; a docstring printed only for tasks with commands is lost for the others; any other rewriting of the text does not keep it intact"}
	kinds := []string{"none", "Text != \"\"", "TrimSpace(Text) != \"\""}
	parseTask := c.method("parser", "Parser", "parseTask")
	parseComment := c.methodOpt("parser", "Parser", "parseComment")
	attach := -1
	var attachPos string
	for _, site := range c.callersOf(parseTask) {
		fromComment := false
		for _, o := range origins(site.Common().Args[1]) {
			if call, ok := o.(*ssa.Call); ok && parseComment != nil && call.Common().StaticCallee() == parseComment {
				fromComment = true
			}
		}
		if !fromComment {
			continue
		}
		attach = c.textPredicate(c.info(site.Parent()).necessaryGuards(site.Block()), "ast.Comment.Text")
		attachPos = c.ipos(site)
	}
	ts := c.method("ast", "Task", "String")
	print := -1
	var printPos string
	var docWrite ssa.CallInstruction
	for _, site := range callSites(ts) {
		if calleeName(site.Common()) != "(*strings.Builder).WriteString" {
			continue
		}
		sl := c.newSlicer()
		sl.depth = 0
		if sl.run(site.Common().Args[1]).hasField("ast.Task.Docstring") {
			docWrite = site
			print = c.textPredicate(c.info(ts).necessaryGuards(site.Block()), "ast.Task.Docstring", "ast.Comment.Text")
			printPos = c.ipos(site)
		}
	}
	key := "parser.Parse attach vs ast.Task.String print"
	switch {
	case attach < 0 || print < 0:
		r.undecided(key, "-", "cannot locate the docstring attach site or the docstring write")
	case attach >= print:
		r.ok(key, attachPos, fmt.Sprintf("attached under %q, printed under %q", kinds[attach], kinds[print]))
	default:
		r.bad(key, attachPos, fmt.Sprintf("the parser attaches a docstring under %q but Task.String (%s) prints it only under %q: a comment that satisfies the first and not the second vanishes when formatting", kinds[attach], printPos, kinds[print]))
	}
	// the docstring write is guarded by nothing but the docstring
	if docWrite != nil {
		key = "ast.Task.String docstring-write guards"
		bad := ""
		tfi := c.info(ts)
		for _, g := range tfi.necessaryGuards(docWrite.Block()) {
			if il := tfi.innermostLoop(g.e.from); il != nil && g.e.from == il.header && !il.body[g.e.to()] {
				continue // the exhaustion edge of a loop that runs before the write is not a condition on the write
			}
			sl := c.newSlicer()
			sl.depth = 0
			res := sl.run(g.cond)
			for _, f := range res.fieldKeys() {
				if f != "ast.Task.Docstring" && f != "ast.Comment.Text" {
					bad = "printing the docstring depends on " + f + " (" + condText(g.cond) + ")"
				}
			}
			if len(res.fieldKeys()) == 0 {
				bad = "printing the docstring depends on " + condText(g.cond)
			}
		}
		if bad == "" {
			r.ok(key, c.ipos(docWrite), "depends on the docstring only")
		} else {
			r.bad(key, c.ipos(docWrite), bad+": the docstring of a task for which that condition fails is dropped by the formatter")
		}
	}
	// Comment.String: text through TrimSpace only
	cs := c.method("ast", "Comment", "String")
	key = "ast.Comment.String text derivation"
	var rets []ssa.Value
	for _, ret := range returnsOf(cs) {
		rets = append(rets, ret.Results[0])
	}
	sl := c.newSlicer()
	sl.depth = 1
	res := sl.run(rets...)
	bad := ""
	for _, n := range res.callNames() {
		if n != "strings.TrimSpace" {
			bad = n
		}
	}
	cut := ""
	for _, v := range res.order {
		if s, ok := v.(*ssa.Slice); ok {
			if b, ok := s.X.Type().Underlying().(*types.Basic); ok && b.Info()&types.IsString != 0 {
				cut = c.ipos(s)
			}
		}
	}
	switch {
	case bad == "" && cut != "" && res.hasField("ast.Comment.Text"):
		r.undecided(key, c.pos(cs.Pos()), "the comment text is cut by index arithmetic at "+cut+" (a hand-written trim): whether it keeps the text intact is a property of run-time values this rule cannot decide")
	case !res.hasField("ast.Comment.Text"):
		r.bad(key, c.pos(cs.Pos()), "the printed comment does not contain the comment's Text")
	case bad != "":
		r.bad(key, c.pos(cs.Pos()), "the comment text is rewritten by "+bad+" before it is printed: its text is not kept intact")
	default:
		r.ok(key, c.pos(cs.Pos()), "\"# \" + TrimSpace(Text)")
	}
	// and the condition under which Comment.String prints the text agrees with the parser's notion
	return r
}

// constList: a slice literal all of whose elements are constant strings (`"clean"`, `"default"`).
func constList(sl *ssa.Slice) bool {
	a, ok := sl.X.(*ssa.Alloc)
	if !ok {
		return false
	}
	n := 0
	for _, addr := range derivedAddrs(a) {
		for _, ref := range valueReferrers(addr) {
			if st, ok := ref.(*ssa.Store); ok && st.Addr == addr {
				n++
				if _, isC := constString(st.Val); !isC {
					return false
				}
			}
		}
	}
	return n > 0
}

// wholeRequest: at every call site (outside any loop) the parameter is bound to the caller's own request-list
// parameter (recursively, up to App.Run's tasks) or to a constant list.
func (c *Ctx) wholeRequest(p *ssa.Parameter, depth int) string {
	if p.Parent().Name() == "Run" && fnPkgPath(p.Parent()) == pkgPath("cli/app") {
		return ""
	}
	if depth == 0 {
		return "call chain too deep"
	}
	idx := -1
	for i, q := range p.Parent().Params {
		if q == p {
			idx = i
		}
	}
	sites := c.callersOf(p.Parent())
	if len(sites) == 0 {
		return ""
	}
	for _, s := range sites {
		if c.info(s.Parent()).innermostLoop(s.Block()) != nil {
			return fname(p.Parent()) + " is called inside a loop at " + c.ipos(s) + ": the request is run name by name"
		}
		if idx >= len(s.Common().Args) {
			return "cannot bind at " + c.ipos(s)
		}
		for _, o := range origins(s.Common().Args[idx]) {
			switch x := o.(type) {
			case *ssa.Parameter:
				if why := c.wholeRequest(x, depth-1); why != "" {
					return why
				}
			case *ssa.Slice:
				if !constList(x) {
					return "at " + c.ipos(s) + " the request list is built from single names or re-sliced"
				}
			default:
				return "at " + c.ipos(s) + " the request list is " + valText(o)
			}
		}
	}
	return ""
}

// ---- HS5: every element of the input list becomes a job ------------------------------------------------------------------------------

// sameCellLoad: a and b are two loads of the same captured or local cell (`for i := range files { ... files[i] }` inside a
// closure loads the cell once for the length and once per element).
func sameCellLoad(a, b ssa.Value) bool {
	ua, ok1 := a.(*ssa.UnOp)
	ub, ok2 := b.(*ssa.UnOp)
	if !ok1 || !ok2 || ua.Op != token.MUL || ub.Op != token.MUL || ua.X != ub.X {
		return false
	}
	switch ua.X.(type) {
	case *ssa.FreeVar, *ssa.Alloc:
		return true
	}
	return false
}

func ruleHS5(c *Ctx) *rule {
	r := &rule{ID: "HS5", Engine: "E2+E5", Floor: 1,
		Statement: "the producer sends every element of the input list on the jobs channel: the send sits in a loop that ranges over the whole list parameter front to back and every way round sends the element at hand exactly once",
		Necessity: "an element that is never sent is never hashed: editing, adding or removing that file leaves the digest unchanged"}
	t := c.hashTopology()
	t.describe(r)
	if !t.requireTopology(r) {
		return r
	}
	var listParam *ssa.Parameter
	for _, p := range t.fn.Params {
		if sl, ok := p.Type().Underlying().(*types.Slice); ok {
			if b, ok := sl.Elem().Underlying().(*types.Basic); ok && b.Kind() == types.String {
				listParam = p
			}
		}
	}
	if listParam == nil {
		r.undecided(fname(t.fn)+" list parameter", c.pos(t.fn.Pos()), "Hash has no []string parameter")
		return r
	}
	for i, s := range t.jobs.send {
		sd, ok := s.instr.(*ssa.Send)
		if !ok {
			continue
		}
		key := fmt.Sprintf("%s send(jobs)#%d covers-list", fname(s.fn), i+1)
		fi := c.info(s.fn)
		l := fi.innermostLoop(sd.Block())
		if l == nil {
			r.bad(key, c.ipos(sd), "the send is not in a loop over the input list")
			continue
		}
		// the sent value is list[idx]
		var ia *ssa.IndexAddr
		for _, o := range origins(sd.X) {
			if u, ok := o.(*ssa.UnOp); ok && u.Op == token.MUL {
				if x, ok := u.X.(*ssa.IndexAddr); ok {
					ia = x
				}
			}
		}
		if ia == nil {
			r.bad(key, c.ipos(sd), "what is sent is not an element of the input list")
			continue
		}
		// the indexed slice is the list parameter itself (possibly through the closure cell), not a re-slice
		isList := false
		sl := c.newSlicer()
		sl.depth = 1
		res := sl.run(ia.X)
		for _, p := range res.params {
			if p == listParam {
				isList = true
			}
		}
		for v := range res.vals {
			if _, ok := v.(*ssa.Slice); ok {
				isList = false
			}
		}
		// full forward range
		full := false
		for _, p := range l.headerPhis() {
			if !l.isInduction(p) {
				continue
			}
			idxOK := ia.Index == ssa.Value(p)
			if b, ok := ia.Index.(*ssa.BinOp); ok && b.Op == token.ADD && b.X == ssa.Value(p) {
				if n, ok := constInt(b.Y); ok && n == 1 {
					idxOK = true
				}
			}
			if !idxOK {
				continue
			}
			for _, b := range s.fn.Blocks {
				if !l.body[b] {
					continue
				}
				if iff, ok := lastInstr(b).(*ssa.If); ok {
					if bo, ok := iff.Cond.(*ssa.BinOp); ok && bo.Op == token.LSS {
						if cl, ok := bo.Y.(*ssa.Call); ok {
							if bi, ok := cl.Call.Value.(*ssa.Builtin); ok && bi.Name() == "len" && (cl.Call.Args[0] == ia.X || sameCellLoad(cl.Call.Args[0], ia.X)) {
								full = true
							}
						}
					}
				}
			}
		}
		// every way round sends once
		once := true
		type st struct {
			b *ssa.BasicBlock
			n int
		}
		seen := map[st]bool{}
		var dfs func(b *ssa.BasicBlock, n int)
		dfs = func(b *ssa.BasicBlock, n int) {
			if seen[st{b, n}] {
				return
			}
			seen[st{b, n}] = true
			for _, in := range b.Instrs {
				if x, ok := in.(*ssa.Send); ok && t.jobs.alias[x.Chan] {
					n++
				}
			}
			for _, nx := range b.Succs {
				if nx == l.header && l.body[b] {
					if n != 1 {
						once = false
					}
					continue
				}
				if l.body[nx] {
					dfs(nx, n)
				}
			}
		}
		for _, nx := range l.header.Succs {
			if l.body[nx] {
				dfs(nx, 0)
			}
		}
		switch {
		case !isList:
			r.bad(key, c.ipos(sd), "the loop does not range over the input list parameter itself (a re-slice or another list)")
		case !full:
			r.bad(key, c.ipos(sd), "the loop does not visit every index of the input list")
		case !once:
			r.bad(key, c.ipos(sd), "some way round the loop does not send the element exactly once")
		default:
			r.ok(key, c.ipos(sd), "every element of the list is sent exactly once")
		}
	}
	return r
}

// ---- ST8: listing rows ---------------------------------------------------------------------------------------------------------------------

func ruleST8(c *Ctx) *rule {
	r := &rule{ID: "ST8", Engine: "E3", Floor: 2,
		Statement: "each row of the task listing is built from a task's name and the Doc of the task looked up under that very name; each row of the variable listing from a variable's name and the value looked up under that very name",
		Necessity: "a row that pairs a name with another entry's docstring / value is not a faithful account of the spokfile"}
	for _, want := range []struct{ atom, mapField, valField, what string }{
		{"opt:Show=true", "file.SpokFile.Tasks", "task.Task.Doc", "task"},
		{"opt:Variables=true", "file.SpokFile.Vars", "", "variable"},
	} {
		found := false
		for _, f := range c.ModFuncs {
			for _, site := range callSites(f) {
				if !streamWriters[calleeName(site.Common())] && calleeName(site.Common()) != "fmt.Sprintf" {
					continue
				}
				if !c.underAtom(site, want.atom) {
					continue
				}
				sl := c.newSlicer()
				sl.depth = 0
				res := sl.run(site.Common().Args...)
				var lk *ssa.Lookup
				for _, v := range res.order {
					if x, ok := v.(*ssa.Lookup); ok && isFieldLoad(x.X, want.mapField) {
						lk = x
					}
				}
				if lk == nil {
					continue
				}
				found = true
				key := fmt.Sprintf("%s %s-row", fname(f), want.what)
				// the name printed is the lookup key
				nameOK := false
				for _, a := range site.Common().Args {
					as := c.newSlicer()
					as.depth = 0
					ar := as.run(a)
					for _, o := range origins(lk.Index) {
						if ar.has(o) && !ar.has(lk) {
							nameOK = true
						}
					}
					if ar.has(lk.Index) && !ar.has(lk) {
						nameOK = true
					}
				}
				// directly: some argument's slice contains the key value without the lookup; simpler: the key itself is an argument origin
				for _, v := range res.order {
					if v == lk.Index {
						nameOK = true
					}
				}
				valOK := want.valField == "" || res.hasField(want.valField)
				switch {
				case !valOK:
					r.bad(key, c.ipos(site), "the row does not show "+want.valField+" of the task looked up by name")
				case !nameOK:
					r.bad(key, c.ipos(site), "the name shown is not the key under which the entry was looked up")
				default:
					r.ok(key, c.ipos(site), "name and the entry looked up under that name")
				}
			}
		}
		if !found {
			r.bad("listing "+want.what+" rows", "-", "no output row on the "+want.atom+" branch is built from a lookup in "+want.mapField)
		}
	}
	return r
}

// successValues lists what f returns as its first result together with a nil error: the operand of a Return whose error is
// the constant nil, or — when an inlined helper's results are merged by phis — the value operands paired with nil errors.
func successValues(f *ssa.Function) []ssa.Value {
	var out []ssa.Value
	for _, ret := range returnsOf(f) {
		ev := returnedErr(ret)
		if ev == nil || len(ret.Results) == 0 {
			continue
		}
		v := ret.Results[0]
		if isNilConst(ev) {
			out = append(out, v)
			continue
		}
		ep, ok1 := ev.(*ssa.Phi)
		vp, ok2 := v.(*ssa.Phi)
		if ok1 && ok2 && ep.Block() == vp.Block() {
			for i := range ep.Edges {
				if isNilConst(ep.Edges[i]) {
					out = append(out, vp.Edges[i])
				}
			}
		}
	}
	return out
}

package main

// Canonicalisation by inlining.
//
// Most of the rules reason about one function at a time (guards, paths, loops). An honest refactoring that extracts part
// of such a function into a helper (or inlines a helper) must not change any verdict. Instead of making every rule
// inter-procedural, the loaded SSA program is canonicalised once: in every module function, every static call of an
// "inlinable" module-local callee is replaced by a copy of the callee's body (depth-bounded, recursion and anchors
// excluded). The rules then see the same control and data flow whether or not the code is split into helpers.
//
// go/ssa offers no cloning or inlining. The clone of an instruction is made with reflection (a shallow struct copy, then
// the operand slices are copied and the operands remapped); the few unexported fields that must differ in the clone
// (its block, its referrers, its register number; a block's parent) are written through unsafe pointers. The layout is
// that of golang.org/x/tools v0.29.0, which go.mod pins. The new blocks are installed in place (Function.Blocks is
// exported), so every reference to a function — static callees, closures, the VTA call graph, package lookups — sees
// the canonical body. Dominance is recomputed by cfg.go (ssa's own dominator fields are never read after this).

import (
	"fmt"
	"go/token"
	"go/types"
	"reflect"
	"sort"
	"strings"
	"unsafe"

	"golang.org/x/tools/go/ssa"
)

func setField(ptr any, name string, val any) {
	v := reflect.ValueOf(ptr).Elem()
	f := v.FieldByName(name)
	if !f.IsValid() {
		panic(fmt.Sprintf("canon: %T has no field %s (x/tools layout changed?)", ptr, name))
	}
	w := reflect.NewAt(f.Type(), unsafe.Pointer(f.UnsafeAddr())).Elem()
	if val == nil {
		w.Set(reflect.Zero(f.Type()))
		return
	}
	w.Set(reflect.ValueOf(val))
}

func cloneInstr(in ssa.Instruction) ssa.Instruction {
	rv := reflect.ValueOf(in).Elem()
	nv := reflect.New(rv.Type())
	nv.Elem().Set(rv)
	out := nv.Interface().(ssa.Instruction)
	// operand slices must not be shared with the original
	switch x := out.(type) {
	case *ssa.Phi:
		x.Edges = append([]ssa.Value(nil), x.Edges...)
	case *ssa.Call:
		x.Call.Args = append([]ssa.Value(nil), x.Call.Args...)
	case *ssa.Go:
		x.Call.Args = append([]ssa.Value(nil), x.Call.Args...)
	case *ssa.Defer:
		x.Call.Args = append([]ssa.Value(nil), x.Call.Args...)
	case *ssa.MakeClosure:
		x.Bindings = append([]ssa.Value(nil), x.Bindings...)
	case *ssa.Return:
		x.Results = append([]ssa.Value(nil), x.Results...)
	case *ssa.Select:
		st := make([]*ssa.SelectState, len(x.States))
		for i, s := range x.States {
			c := *s
			st[i] = &c
		}
		x.States = st
	}
	if _, ok := out.(ssa.Value); ok {
		setField(out, "referrers", nil)
	}
	return out
}

type canonStats struct {
	functions, inlinedCalls, absorbed int
	deadClosures, promoted            int
	absorbedNames                     []string
}

type inliner struct {
	c          *Ctx
	orig       map[*ssa.Function][]*ssa.BasicBlock
	recover    map[*ssa.Function]*ssa.BasicBlock
	inlinable  map[*ssa.Function]bool
	origOf     map[ssa.Instruction]ssa.Instruction // clone -> original instruction
	nInlined   int
	maxDepth   int
	usedAsCall map[*ssa.Function]int // static call sites that were NOT inlined (barrier / depth)
	wasInlined map[*ssa.Function]bool
	synthOf    map[ssa.Instruction]*ssa.Defer // call synthesised for a deferred call of an inlined function -> its defer
}

// barrier: anchor functions the rules are written against (exported API pinned by the existing tests, see DESIGN.md 3.3),
// small predicates the rules recognise by their body, and whole packages whose rules are per function or syntactic.
func (il *inliner) barrier(f *ssa.Function) bool {
	pkg := shortPkg(fnPkgPath(f))
	switch pkg {
	case "lexer", "parser", "token", "ast":
		return true
	}
	recv := recvNamed(f)
	name := f.Name()
	type key struct{ pkg, recv, name string }
	anchors := map[key]bool{
		{"file", "SpokFile", "Run"}: true, {"file", "", "Find"}: true, {"file", "", "New"}: true,
		{"task", "Task", "Run"}: true, {"task", "", "New"}: true, {"task", "Results", "JSON"}: true,
		{"cache", "", "Load"}: true, {"cache", "", "Init"}: true, {"cache", "", "Exists"}: true, {"cache", "", "New"}: true,
		{"cache", "Cache", "Get"}: true, {"cache", "Cache", "Set"}: true, {"cache", "Cache", "Dump"}: true,
		{"hash", "", "New"}: true,
		{"cli/app", "App", "Run"}: true, {"cli/app", "", "New"}: true,
		{"iostream", "", "OS"}: true, {"iostream", "", "Null"}: true, {"iostream", "", "Test"}: true,
		{"logger", "", "NewZapLogger"}: true, {"builtins", "", "Get"}: true,
		{"cmd/spok", "", "main"}: true, {"cli/cmd", "", "BuildRootCmd"}: true,
	}
	if anchors[key{pkg, recv, name}] {
		return true
	}
	if name == "Ok" || name == "Hash" || name == "String" || name == "Error" {
		return true
	}
	if il.c.isTaskHitTest(f) || il.c.isExistsTest(f) || il.isGlobHit(f) {
		return true
	}
	// implementations of shell.Runner
	if name == "Run" && pkg == "shell" {
		return true
	}
	return false
}

func (il *inliner) computeInlinable() {
	il.inlinable = map[*ssa.Function]bool{}
	// self / mutual recursion through static module calls
	calls := map[*ssa.Function][]*ssa.Function{}
	for _, f := range il.c.ModFuncs {
		for _, b := range il.orig[f] {
			for _, in := range b.Instrs {
				if call, ok := in.(*ssa.Call); ok {
					if g := call.Common().StaticCallee(); g != nil && il.orig[g] != nil {
						calls[f] = append(calls[f], g)
					}
				}
			}
		}
	}
	reaches := func(from, to *ssa.Function) bool {
		seen := map[*ssa.Function]bool{}
		var walk func(x *ssa.Function) bool
		walk = func(x *ssa.Function) bool {
			for _, g := range calls[x] {
				if g == to {
					return true
				}
				if !seen[g] {
					seen[g] = true
					if walk(g) {
						return true
					}
				}
			}
			return false
		}
		return walk(from)
	}
	callsRecover := func(f *ssa.Function) bool {
		for _, b := range il.orig[f] {
			for _, in := range b.Instrs {
				if x, ok := in.(*ssa.Call); ok {
					if bi, isB := x.Call.Value.(*ssa.Builtin); isB && bi.Name() == "recover" {
						return true
					}
				}
			}
		}
		return false
	}
	for _, f := range il.c.ModFuncs {
		blocks := il.orig[f]
		if len(blocks) == 0 {
			continue
		}
		if il.barrier(f) {
			continue
		}
		// (an anonymous function is inlined only where it is called through the MakeClosure that binds its free variables)
		ok := !callsRecover(f) && !reaches(f, f)
		// deferred calls: every defer is registered outside loops, and for every exit it is known statically whether it
		// has been registered (it dominates the exit) or not (it cannot reach it). Then "run the deferred calls" at that
		// exit is an ordinary sequence of calls, and a recover block (never entered without a panic) can be left out.
		var defers []*ssa.Defer
		var exits []*ssa.RunDefers
		for _, b := range blocks {
			for _, in := range b.Instrs {
				switch x := in.(type) {
				case *ssa.Defer:
					defers = append(defers, x)
				case *ssa.RunDefers:
					exits = append(exits, x)
				}
			}
		}
		for _, d := range defers {
			if blockReaches(d.Block(), d.Block()) {
				ok = false
			}
			if g := d.Call.StaticCallee(); g != nil && il.orig[g] != nil && callsRecover(g) {
				ok = false
			}
			if d.Call.IsInvoke() || d.Call.StaticCallee() == nil {
				if _, isB := d.Call.Value.(*ssa.Builtin); !isB && !d.Call.IsInvoke() {
					ok = false // a deferred function value: cannot see whether it recovers
				}
			}
			for _, r := range exits {
				if !deferRegisteredAt(d, r) && (d.Block() == r.Block() || blockReaches(d.Block(), r.Block())) {
					ok = false
				}
			}
		}
		il.inlinable[f] = ok
	}
}

// blockReaches: there is a non-empty path from a to b.
func blockReaches(a, b *ssa.BasicBlock) bool {
	seen := map[*ssa.BasicBlock]bool{}
	work := append([]*ssa.BasicBlock{}, a.Succs...)
	for len(work) > 0 {
		x := work[len(work)-1]
		work = work[:len(work)-1]
		if x == b {
			return true
		}
		if seen[x] {
			continue
		}
		seen[x] = true
		work = append(work, x.Succs...)
	}
	return false
}

// deferRegisteredAt: on every path to the exit r the defer d has been executed (original blocks: ssa's dominator tree is valid).
func deferRegisteredAt(d *ssa.Defer, r *ssa.RunDefers) bool {
	if d.Block() == r.Block() {
		for _, in := range d.Block().Instrs {
			if in == ssa.Instruction(d) {
				return true
			}
			if in == ssa.Instruction(r) {
				return false
			}
		}
	}
	return d.Block().Dominates(r.Block())
}

type retSite struct {
	from    *ssa.BasicBlock
	results []ssa.Value
}

type emitCtx struct {
	il     *inliner
	host   *ssa.Function // function whose body is being rebuilt
	out    *[]*ssa.BasicBlock
	nextID *int
}

func (e *emitCtx) newBlock(comment string) *ssa.BasicBlock {
	b := &ssa.BasicBlock{Comment: comment}
	setField(b, "parent", e.host)
	*e.out = append(*e.out, b)
	return b
}

func (e *emitCtx) add(b *ssa.BasicBlock, in ssa.Instruction) {
	setField(in, "block", b)
	b.Instrs = append(b.Instrs, in)
}

func rpo(blocks []*ssa.BasicBlock) []*ssa.BasicBlock {
	if len(blocks) == 0 {
		return nil
	}
	seen := map[*ssa.BasicBlock]bool{}
	var post []*ssa.BasicBlock
	var dfs func(b *ssa.BasicBlock)
	dfs = func(b *ssa.BasicBlock) {
		seen[b] = true
		for _, s := range b.Succs {
			if !seen[s] {
				dfs(s)
			}
		}
		post = append(post, b)
	}
	dfs(blocks[0])
	for i, j := 0, len(post)-1; i < j; i, j = i+1, j-1 {
		post[i], post[j] = post[j], post[i]
	}
	return post
}

// emit copies the (original) body of f into the host, with params bound to args, inlining inlinable callees up to depth.
// It returns the entry block of the copy, the return sites (block that ends where the Return was, and the returned values)
// and, for the host itself, the map from original blocks to their first copy (used for Function.Recover).
func (e *emitCtx) emit(f *ssa.Function, inlined bool, args, binds []ssa.Value, depth int, stack []*ssa.Function) (*ssa.BasicBlock, []retSite, map[*ssa.BasicBlock]*ssa.BasicBlock) {
	il := e.il
	vmap := map[ssa.Value]ssa.Value{}
	if inlined {
		for i, p := range f.Params {
			if i < len(args) {
				vmap[p] = args[i]
			}
		}
		for i, fv := range f.FreeVars {
			if i < len(binds) {
				vmap[fv] = binds[i]
			}
		}
	}
	var registered []*ssa.Defer // in registration order (reverse post-order, then position)
	first := map[*ssa.BasicBlock]*ssa.BasicBlock{}
	last := map[*ssa.BasicBlock]*ssa.BasicBlock{}
	var clones []ssa.Instruction
	var rets []retSite
	type pendingRet struct {
		blk *ssa.BasicBlock
		ret *ssa.Return
	}
	var pend []pendingRet
	order := rpo(il.orig[f])
	for _, ob := range order {
		first[ob] = e.newBlock(ob.Comment)
	}
	look := func(v ssa.Value) ssa.Value {
		for i := 0; i < 8; i++ {
			n, ok := vmap[v]
			if !ok {
				return v
			}
			v = n
		}
		return v
	}
	for _, ob := range order {
		cur := first[ob]
		var handle func(in ssa.Instruction)
		handle = func(in ssa.Instruction) {
			if inlined {
				// deferred calls of an inlined function run where it returns: as ordinary calls, last registered first
				if d, ok := in.(*ssa.Defer); ok {
					registered = append(registered, d)
					return
				}
				if r, ok := in.(*ssa.RunDefers); ok {
					for i := len(registered) - 1; i >= 0; i-- {
						d := registered[i]
						if !deferRegisteredAt(d, r) {
							continue
						}
						syn := &ssa.Call{Call: d.Call}
						syn.Call.Args = append([]ssa.Value(nil), d.Call.Args...)
						var rt types.Type = types.NewTuple()
						if sig, ok := d.Call.Value.Type().Underlying().(*types.Signature); ok && !d.Call.IsInvoke() {
							rt = sig.Results()
							if sig.Results().Len() == 1 {
								rt = sig.Results().At(0).Type()
							}
						} else if d.Call.IsInvoke() {
							sig := d.Call.Method.Type().(*types.Signature)
							rt = sig.Results()
							if sig.Results().Len() == 1 {
								rt = sig.Results().At(0).Type()
							}
						}
						setField(syn, "typ", rt)
						setField(syn, "pos", d.Pos())
						il.synthOf[syn] = d
						handle(syn)
					}
					return
				}
			}
			// inlinable static call?
			if call, ok := in.(*ssa.Call); ok && depth > 0 {
				g := call.Common().StaticCallee()
				onStack := false
				for _, s := range stack {
					if s == g {
						onStack = true
					}
				}
				var binds []ssa.Value
				bindable := g != nil && len(g.FreeVars) == 0 && g.Parent() == nil
				if g != nil && !bindable {
					// an anonymous function called through the MakeClosure that binds its free variables
					if mc, isMC := call.Common().Value.(*ssa.MakeClosure); isMC && len(mc.Bindings) == len(g.FreeVars) {
						bindable = true
						for _, b := range mc.Bindings {
							binds = append(binds, look(b))
						}
					}
				}
				if g != nil && il.inlinable[g] && bindable && !onStack && g != f {
					var cargs []ssa.Value
					for _, a := range call.Common().Args {
						cargs = append(cargs, look(a))
					}
					entry, rs, _ := e.emit(g, true, cargs, binds, depth-1, append(stack, f))
					il.nInlined++
					il.wasInlined[g] = true
					j := &ssa.Jump{}
					e.add(cur, j)
					cur.Succs = []*ssa.BasicBlock{entry}
					entry.Preds = append(entry.Preds, cur)
					cont := e.newBlock("after " + g.Name())
					nres := g.Signature.Results().Len()
					results := make([]ssa.Value, nres)
					for _, r := range rs {
						jj := &ssa.Jump{}
						e.add(r.from, jj)
						r.from.Succs = []*ssa.BasicBlock{cont}
						cont.Preds = append(cont.Preds, r.from)
					}
					for k := 0; k < nres; k++ {
						switch len(rs) {
						case 0:
							results[k] = nil
						case 1:
							results[k] = rs[0].results[k]
						default:
							phi := &ssa.Phi{Comment: g.Name() + " result"}
							for _, r := range rs {
								phi.Edges = append(phi.Edges, r.results[k])
							}
							setField(phi, "typ", g.Signature.Results().At(k).Type())
							setField(phi, "pos", call.Pos())
							e.add(cont, phi)
							results[k] = phi
						}
					}
					if nres == 1 {
						if results[0] != nil {
							vmap[call] = results[0]
						}
					} else if nres > 1 {
						// users are Extracts of the tuple
						for _, ref := range valueReferrers(call) {
							if ex, ok := ref.(*ssa.Extract); ok && results[ex.Index] != nil {
								vmap[ex] = results[ex.Index]
							}
						}
						vmap[call] = tupleMarker
					}
					cur = cont
					return
				}
			}
			if ex, ok := in.(*ssa.Extract); ok {
				if vmap[ex.Tuple] == tupleMarker {
					return // replaced by the inlined callee's result
				}
			}
			if ret, ok := in.(*ssa.Return); ok && inlined {
				pend = append(pend, pendingRet{cur, ret})
				return
			}
			cl := cloneInstr(in)
			if d, isSyn := il.synthOf[in]; isSyn {
				il.origOf[cl] = d
			} else {
				il.origOf[cl] = in
			}
			if ov, ok := in.(ssa.Value); ok {
				vmap[ov] = cl.(ssa.Value)
			}
			e.add(cur, cl)
			clones = append(clones, cl)
		}
		for _, in := range ob.Instrs {
			handle(in)
		}
		last[ob] = cur
	}
	// wire the copied terminators and remap operands
	for _, ob := range order {
		lb := last[ob]
		if len(lb.Succs) == 0 {
			for _, s := range ob.Succs {
				lb.Succs = append(lb.Succs, first[s])
			}
		}
	}
	for _, ob := range order {
		nb := first[ob]
		for _, p := range ob.Preds {
			if lp, ok := last[p]; ok {
				nb.Preds = append(nb.Preds, lp)
			}
		}
	}
	for _, cl := range clones {
		if cl == nil {
			continue
		}
		for _, op := range cl.Operands(nil) {
			if *op != nil {
				*op = look(*op)
			}
		}
	}
	for _, pr := range pend {
		var res []ssa.Value
		for _, v := range pr.ret.Results {
			res = append(res, look(v))
		}
		rets = append(rets, retSite{pr.blk, res})
	}
	// phis created for inlined results may have operands that were remapped later (rare: values of this context)
	return first[order[0]], rets, first
}

var tupleMarker ssa.Value = &ssa.Const{}

// canonicalise rewrites every module function in place; see the comment at the top of this file.
func (c *Ctx) canonicalise(depth int) *canonStats {
	il := &inliner{c: c, orig: map[*ssa.Function][]*ssa.BasicBlock{}, recover: map[*ssa.Function]*ssa.BasicBlock{},
		origOf: map[ssa.Instruction]ssa.Instruction{}, maxDepth: depth, usedAsCall: map[*ssa.Function]int{}, wasInlined: map[*ssa.Function]bool{}, synthOf: map[ssa.Instruction]*ssa.Defer{}}
	for _, f := range c.ModFuncs {
		il.orig[f] = f.Blocks
		il.recover[f] = f.Recover
	}
	il.computeInlinable()
	st := &canonStats{}
	newBlocks := map[*ssa.Function][]*ssa.BasicBlock{}
	newRecover := map[*ssa.Function]*ssa.BasicBlock{}
	for _, f := range c.ModFuncs {
		if len(il.orig[f]) == 0 {
			continue
		}
		var out []*ssa.BasicBlock
		e := &emitCtx{il: il, host: f, out: &out}
		_, _, first := e.emit(f, false, nil, nil, depth, nil)
		newBlocks[f] = out
		if r := il.recover[f]; r != nil {
			newRecover[f] = first[r]
		}
		st.functions++
	}
	// install
	for f, blocks := range newBlocks {
		// drop unreachable blocks (a continuation after a callee that never returns)
		reach := map[*ssa.BasicBlock]bool{}
		var walk func(b *ssa.BasicBlock)
		walk = func(b *ssa.BasicBlock) {
			if reach[b] {
				return
			}
			reach[b] = true
			for _, s := range b.Succs {
				walk(s)
			}
		}
		walk(blocks[0])
		if r := newRecover[f]; r != nil {
			walk(r)
		}
		var kept []*ssa.BasicBlock
		for _, b := range blocks {
			if reach[b] {
				kept = append(kept, b)
			}
		}
		for _, b := range kept {
			// remove predecessors that were dropped, keeping phi operands aligned
			var preds []*ssa.BasicBlock
			var keepIdx []int
			for i, p := range b.Preds {
				if reach[p] {
					preds = append(preds, p)
					keepIdx = append(keepIdx, i)
				}
			}
			if len(preds) != len(b.Preds) {
				for _, in := range b.Instrs {
					if phi, ok := in.(*ssa.Phi); ok {
						var ed []ssa.Value
						for _, i := range keepIdx {
							if i < len(phi.Edges) {
								ed = append(ed, phi.Edges[i])
							}
						}
						phi.Edges = ed
					}
				}
				b.Preds = preds
			}
		}
		for i, b := range kept {
			b.Index = i
		}
		f.Blocks = kept
		f.Recover = newRecover[f]
	}
	// closures that were inlined where they are called leave a MakeClosure nobody uses; the cells they captured are then
	// plain locals again and are promoted to registers, as ssa's own lifting pass would have done
	for _, f := range c.ModFuncs {
		if len(f.Blocks) == 0 {
			continue
		}
		st.deadClosures += dropDeadClosures(f)
		st.promoted += promoteLocals(f)
	}
	// referrers and register numbers
	for _, f := range c.ModFuncs {
		for _, p := range f.Params {
			setField(p, "referrers", nil)
		}
		for _, fv := range f.FreeVars {
			setField(fv, "referrers", nil)
		}
	}
	for _, f := range c.ModFuncs {
		num := 0
		for _, b := range f.Blocks {
			for _, in := range b.Instrs {
				if _, ok := in.(ssa.Value); ok {
					setField(in, "num", num)
					num++
				}
			}
		}
		for _, b := range f.Blocks {
			for _, in := range b.Instrs {
				for _, op := range in.Operands(nil) {
					if *op == nil {
						continue
					}
					if refs := (*op).Referrers(); refs != nil {
						*refs = append(*refs, in)
					}
				}
			}
		}
	}
	st.inlinedCalls = il.nInlined
	c.origOf = il.origOf
	// absorbed helpers: inlinable, unexported, and no remaining reference (call, go, defer or value use) in any canonical body
	used := map[*ssa.Function]bool{}
	for _, f := range c.ModFuncs {
		for _, b := range f.Blocks {
			for _, in := range b.Instrs {
				for _, op := range in.Operands(nil) {
					if *op == nil {
						continue
					}
					if g, ok := (*op).(*ssa.Function); ok {
						used[g] = true
					}
				}
			}
		}
	}
	var kept []*ssa.Function
	for _, f := range c.ModFuncs {
		if il.inlinable[f] && !used[f] && il.wasInlined[f] && f.Name() != "init" && f.Name() != "main" && !isMethodOfInterfaceImpl(c, f) {
			st.absorbed++
			st.absorbedNames = append(st.absorbedNames, fname(f))
			continue
		}
		kept = append(kept, f)
	}
	// anonymous functions of absorbed helpers live on inside their hosts' copies (MakeClosure refers to them): keep them
	c.ModFuncs = kept
	sort.Strings(st.absorbedNames)
	return st
}

// isMethodOfInterfaceImpl: f may be called through an interface (then a static-call census says nothing).
func isMethodOfInterfaceImpl(c *Ctx, f *ssa.Function) bool {
	if f.Signature.Recv() == nil {
		return false
	}
	n := c.CG.Nodes[f]
	if n == nil {
		return false
	}
	for _, e := range n.In {
		if e.Site != nil && e.Site.Common().IsInvoke() {
			return true
		}
	}
	return false
}

func describeCanon(st *canonStats) string {
	return fmt.Sprintf("canonicalised %d functions: %d static calls of module helpers inlined, %d helpers absorbed (%s), %d unused closures dropped, %d local cells promoted to registers", st.functions, st.inlinedCalls, st.absorbed, strings.Join(st.absorbedNames, ", "), st.deadClosures, st.promoted)
}

var _ = types.Typ

// isGlobHit: a boolean predicate that looks its argument up in SpokFile.Globs (the "already expanded" test).
func (il *inliner) isGlobHit(f *ssa.Function) bool {
	if f.Signature.Results().Len() != 1 {
		return false
	}
	if b, ok := f.Signature.Results().At(0).Type().Underlying().(*types.Basic); !ok || b.Kind() != types.Bool {
		return false
	}
	for _, blk := range il.orig[f] {
		for _, in := range blk.Instrs {
			if lk, ok := in.(*ssa.Lookup); ok && isFieldLoad(lk.X, "file.SpokFile.Globs") {
				return true
			}
		}
	}
	return false
}

// ---- clean-up after inlining ------------------------------------------------------------------------------------------------------

func useCounts(f *ssa.Function) map[ssa.Value]int {
	uses := map[ssa.Value]int{}
	for _, b := range f.Blocks {
		for _, in := range b.Instrs {
			for _, op := range in.Operands(nil) {
				if *op != nil {
					uses[*op]++
				}
			}
		}
	}
	return uses
}

func removeInstrs(f *ssa.Function, dead map[ssa.Instruction]bool) {
	if len(dead) == 0 {
		return
	}
	for _, b := range f.Blocks {
		kept := b.Instrs[:0:0]
		for _, in := range b.Instrs {
			if !dead[in] {
				kept = append(kept, in)
			}
		}
		b.Instrs = kept
	}
}

// dropDeadClosures removes MakeClosure instructions whose value is not used (the closure was inlined at its only call).
func dropDeadClosures(f *ssa.Function) int {
	n := 0
	for {
		uses := useCounts(f)
		dead := map[ssa.Instruction]bool{}
		for _, b := range f.Blocks {
			for _, in := range b.Instrs {
				if mc, ok := in.(*ssa.MakeClosure); ok && uses[mc] == 0 {
					dead[in] = true
				}
			}
		}
		if len(dead) == 0 {
			return n
		}
		n += len(dead)
		removeInstrs(f, dead)
	}
}

// promoteLocals turns every local cell that is only loaded and stored directly (in blocks reachable from the entry) into
// SSA registers: a phi at every join, then trivial and unused phis are removed until nothing changes.
func promoteLocals(f *ssa.Function) int {
	reach := map[*ssa.BasicBlock]bool{}
	order := rpo(f.Blocks)
	for _, b := range order {
		reach[b] = true
	}
	// candidates
	bad := map[*ssa.Alloc]bool{}
	var allocs []*ssa.Alloc
	for _, b := range f.Blocks {
		for _, in := range b.Instrs {
			if a, ok := in.(*ssa.Alloc); ok && reach[b] {
				allocs = append(allocs, a)
			}
			for _, op := range in.Operands(nil) {
				a, ok := (*op).(*ssa.Alloc)
				if !ok {
					continue
				}
				switch x := in.(type) {
				case *ssa.Store:
					if x.Addr != ssa.Value(a) || x.Val == ssa.Value(a) || !reach[b] {
						bad[a] = true
					}
				case *ssa.UnOp:
					if x.Op != token.MUL || !reach[b] {
						bad[a] = true
					}
				case *ssa.DebugRef:
				default:
					bad[a] = true
				}
			}
		}
	}
	n := 0
	repl := map[ssa.Value]ssa.Value{}
	resolve := func(v ssa.Value) ssa.Value {
		for i := 0; i < 64; i++ {
			r, ok := repl[v]
			if !ok {
				return v
			}
			v = r
		}
		return v
	}
	dead := map[ssa.Instruction]bool{}
	var phis []*ssa.Phi
	for _, a := range allocs {
		if bad[a] {
			continue
		}
		n++
		elem := a.Type().Underlying().(*types.Pointer).Elem()
		zero := ssa.NewConst(nil, elem)
		out := map[*ssa.BasicBlock]ssa.Value{}
		phiOf := map[*ssa.BasicBlock]*ssa.Phi{}
		for _, b := range order {
			var cur ssa.Value
			switch {
			case b == f.Blocks[0]:
				cur = zero
			case len(b.Preds) == 1 && out[b.Preds[0]] != nil:
				cur = out[b.Preds[0]]
			default:
				phi := &ssa.Phi{Comment: a.Comment}
				setField(phi, "typ", elem)
				setField(phi, "pos", a.Pos())
				setField(phi, "block", b)
				phiOf[b] = phi
				cur = phi
			}
			for _, ins := range b.Instrs {
				switch x := ins.(type) {
				case *ssa.Store:
					if x.Addr == ssa.Value(a) {
						cur = x.Val
						dead[ins] = true
					}
				case *ssa.UnOp:
					if x.X == ssa.Value(a) {
						repl[x] = cur
						dead[ins] = true
					}
				case *ssa.DebugRef:
					if x.X == ssa.Value(a) {
						dead[ins] = true
					}
				}
			}
			out[b] = cur
		}
		for b, phi := range phiOf {
			for _, p := range b.Preds {
				v := out[p]
				if v == nil {
					v = zero // predecessor not reachable from the entry
				}
				phi.Edges = append(phi.Edges, v)
			}
			b.Instrs = append([]ssa.Instruction{phi}, b.Instrs...)
			phis = append(phis, phi)
		}
		dead[a] = true
	}
	if n == 0 {
		return 0
	}
	removeInstrs(f, dead)
	rewrite := func() {
		for _, b := range f.Blocks {
			for _, in := range b.Instrs {
				for _, op := range in.Operands(nil) {
					if *op != nil {
						*op = resolve(*op)
					}
				}
			}
		}
	}
	rewrite()
	// trivial phis (all operands the same value or the phi itself), then phis no ordinary instruction depends on
	isNew := map[*ssa.Phi]bool{}
	for _, phi := range phis {
		isNew[phi] = true
	}
	for changed := true; changed; {
		changed = false
		gone := map[ssa.Instruction]bool{}
		for _, phi := range phis {
			if !isNew[phi] {
				continue
			}
			var same ssa.Value
			trivial := true
			for _, e := range phi.Edges {
				if e == ssa.Value(phi) || e == same {
					continue
				}
				if same != nil {
					trivial = false
					break
				}
				same = e
			}
			if trivial && same != nil {
				gone[phi] = true
				repl[phi] = same
				isNew[phi] = false
			}
		}
		if len(gone) > 0 {
			changed = true
			removeInstrs(f, gone)
			rewrite()
		}
	}
	live := map[*ssa.Phi]bool{}
	var work []*ssa.Phi
	for _, b := range f.Blocks {
		for _, in := range b.Instrs {
			if _, isPhi := in.(*ssa.Phi); isPhi && isNew[in.(*ssa.Phi)] {
				continue
			}
			for _, op := range in.Operands(nil) {
				if phi, ok := (*op).(*ssa.Phi); ok && isNew[phi] && !live[phi] {
					live[phi] = true
					work = append(work, phi)
				}
			}
		}
	}
	for len(work) > 0 {
		phi := work[len(work)-1]
		work = work[:len(work)-1]
		for _, e := range phi.Edges {
			if q, ok := e.(*ssa.Phi); ok && isNew[q] && !live[q] {
				live[q] = true
				work = append(work, q)
			}
		}
	}
	unread := map[ssa.Instruction]bool{}
	for _, phi := range phis {
		if isNew[phi] && !live[phi] {
			unread[phi] = true
		}
	}
	removeInstrs(f, unread)
	var locals []*ssa.Alloc
	for _, l := range f.Locals {
		if !dead[l] {
			locals = append(locals, l)
		}
	}
	f.Locals = locals
	return n
}

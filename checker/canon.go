package main

// Canonicalisation by inlining.
//
// Most of the rules reason about one function at a time (guards, paths, loops). An honest refactoring that extracts part
// of such a function into a helper (or inlines a helper) must not change any verdict. Instead of making every rule
// inter-procedural, the loaded SSA program is canonicalised once: in every module function, every static call of an
// "inlinable" module-local callee is replaced by a copy of the callee's body (depth-bounded, recursion and anchors
// excluded). The rules then see the same control and data flow whether or not the code is split into helpers.
//
// go/ssa offers no cloning or inlining. The clone of an instruction is made with reflection (a shallow struct copy, then
// the operand slices are copied and the operands remapped); the few unexported fields that must differ in the clone
// (its block, its referrers, its register number; a block's parent) are written through unsafe pointers. The layout is
// that of golang.org/x/tools v0.29.0, which go.mod pins. The new blocks are installed in place (Function.Blocks is
// exported), so every reference to a function — static callees, closures, the VTA call graph, package lookups — sees
// the canonical body. Dominance is recomputed by cfg.go (ssa's own dominator fields are never read after this).

import (
	"fmt"
	"os"
	"go/constant"
	"go/token"
	"go/types"
	"reflect"
	"sort"
	"strings"
	"unsafe"

	"golang.org/x/tools/go/ssa"
)

func setField(ptr any, name string, val any) {
	v := reflect.ValueOf(ptr).Elem()
	f := v.FieldByName(name)
	if !f.IsValid() {
		panic(fmt.Sprintf("canon: %T has no field %s (x/tools layout changed?)", ptr, name))
	}
	w := reflect.NewAt(f.Type(), unsafe.Pointer(f.UnsafeAddr())).Elem()
	if val == nil {
		w.Set(reflect.Zero(f.Type()))
		return
	}
	w.Set(reflect.ValueOf(val))
}

func cloneInstr(in ssa.Instruction) ssa.Instruction {
	rv := reflect.ValueOf(in).Elem()
	nv := reflect.New(rv.Type())
	nv.Elem().Set(rv)
	out := nv.Interface().(ssa.Instruction)
	// operand slices must not be shared with the original
	switch x := out.(type) {
	case *ssa.Phi:
		x.Edges = append([]ssa.Value(nil), x.Edges...)
	case *ssa.Call:
		x.Call.Args = append([]ssa.Value(nil), x.Call.Args...)
	case *ssa.Go:
		x.Call.Args = append([]ssa.Value(nil), x.Call.Args...)
	case *ssa.Defer:
		x.Call.Args = append([]ssa.Value(nil), x.Call.Args...)
	case *ssa.MakeClosure:
		x.Bindings = append([]ssa.Value(nil), x.Bindings...)
	case *ssa.Return:
		x.Results = append([]ssa.Value(nil), x.Results...)
	case *ssa.Select:
		st := make([]*ssa.SelectState, len(x.States))
		for i, s := range x.States {
			c := *s
			st[i] = &c
		}
		x.States = st
	}
	if _, ok := out.(ssa.Value); ok {
		setField(out, "referrers", nil)
	}
	return out
}

type canonStats struct {
	functions, inlinedCalls, absorbed int
	deadClosures, promoted, split     int
	threaded, unrolled                int
	absorbedNames                     []string
}

type inliner struct {
	c           *Ctx
	orig        map[*ssa.Function][]*ssa.BasicBlock
	recover     map[*ssa.Function]*ssa.BasicBlock
	inlinable   map[*ssa.Function]bool
	origOf      map[ssa.Instruction]ssa.Instruction // clone -> original instruction
	nInlined    int
	maxDepth    int
	usedAsCall  map[*ssa.Function]int // static call sites that were NOT inlined (barrier / depth)
	wasInlined  map[*ssa.Function]bool
	synthOf     map[ssa.Instruction]*ssa.Defer // call synthesised for a deferred call of an inlined function -> its defer
	samePkgOnly map[*ssa.Function]bool         // helpers of the parser / printer: inlined into callers of their own package only
}

// returnsFunc: the function's single result is itself a function (a lexer state).
func returnsFunc(f *ssa.Function) bool {
	res := f.Signature.Results()
	if res.Len() != 1 {
		return false
	}
	_, ok := res.At(0).Type().Underlying().(*types.Signature)
	return ok
}

func token_IsExported(name string) bool { return len(name) > 0 && name[0] >= 'A' && name[0] <= 'Z' }

// barrier: anchor functions the rules are written against (exported API pinned by the existing tests, see DESIGN.md 3.3),
// small predicates the rules recognise by their body, and whole packages whose rules are per function or syntactic.
func (il *inliner) barrier(f *ssa.Function) bool {
	pkg := shortPkg(fnPkgPath(f))
	switch pkg {
	case "token":
		return true
	case "lexer":
		// the lexer's rules work on the graph of state functions (functions that return the next state) and on the calls of
		// emit / error / run inside them: those stay; other unexported helpers are inlined into callers of the package
		if token_IsExported(f.Name()) || f.Name() == "emit" || f.Name() == "error" || f.Name() == "run" || returnsFunc(f) {
			return true
		}
		il.samePkgOnly[f] = true
	case "parser", "ast":
		// the rules for these packages are written per function against the parser's and the printer's entry points; helpers
		// below those (unexported, not one of the named entry points) are inlined into callers of the same package only
		if (token_IsExported(f.Name()) && (recvNamed(f) == "" || token_IsExported(recvNamed(f)))) || f.Name() == "next" || f.Name() == "parseTask" || f.Name() == "parseComment" {
			return true
		}
		il.samePkgOnly[f] = true
	}
	recv := recvNamed(f)
	name := f.Name()
	type key struct{ pkg, recv, name string }
	anchors := map[key]bool{
		{"file", "SpokFile", "Run"}: true, {"file", "", "Find"}: true, {"file", "", "New"}: true,
		{"task", "Task", "Run"}: true, {"task", "", "New"}: true, {"task", "Results", "JSON"}: true,
		{"cache", "", "Load"}: true, {"cache", "", "Init"}: true, {"cache", "", "Exists"}: true, {"cache", "", "New"}: true,
		{"cache", "Cache", "Get"}: true, {"cache", "Cache", "Set"}: true, {"cache", "Cache", "Dump"}: true,
		{"hash", "", "New"}:       true,
		{"cli/app", "App", "Run"}: true, {"cli/app", "", "New"}: true,
		{"iostream", "", "OS"}: true, {"iostream", "", "Null"}: true, {"iostream", "", "Test"}: true,
		{"logger", "", "NewZapLogger"}: true, {"builtins", "", "Get"}: true,
		{"cmd/spok", "", "main"}: true, {"cli/cmd", "", "BuildRootCmd"}: true,
	}
	if anchors[key{pkg, recv, name}] {
		return true
	}
	// methods the rules recognise by name (ast/token/lexer/parser String and Error methods are behind the package barrier)
	if (name == "Ok" && (pkg == "shell" || pkg == "task")) || (name == "Hash" && pkg == "hash") {
		return true
	}
	if il.c.isTaskHitTest(f) || il.c.isExistsTest(f) || il.isGlobHit(f) {
		return true
	}
	// implementations of shell.Runner
	if name == "Run" && pkg == "shell" {
		return true
	}
	return false
}

func (il *inliner) computeInlinable() {
	il.inlinable = map[*ssa.Function]bool{}
	// self / mutual recursion through static module calls
	calls := map[*ssa.Function][]*ssa.Function{}
	for _, f := range il.c.ModFuncs {
		for _, b := range il.orig[f] {
			for _, in := range b.Instrs {
				if call, ok := in.(*ssa.Call); ok {
					if g := call.Common().StaticCallee(); g != nil && il.orig[g] != nil {
						calls[f] = append(calls[f], g)
					}
				}
			}
		}
	}
	reaches := func(from, to *ssa.Function) bool {
		seen := map[*ssa.Function]bool{}
		var walk func(x *ssa.Function) bool
		walk = func(x *ssa.Function) bool {
			for _, g := range calls[x] {
				if g == to {
					return true
				}
				if !seen[g] {
					seen[g] = true
					if walk(g) {
						return true
					}
				}
			}
			return false
		}
		return walk(from)
	}
	callsRecover := func(f *ssa.Function) bool {
		for _, b := range il.orig[f] {
			for _, in := range b.Instrs {
				if x, ok := in.(*ssa.Call); ok {
					if bi, isB := x.Call.Value.(*ssa.Builtin); isB && bi.Name() == "recover" {
						return true
					}
				}
			}
		}
		return false
	}
	for _, f := range il.c.ModFuncs {
		blocks := il.orig[f]
		if len(blocks) == 0 {
			continue
		}
		if il.barrier(f) {
			continue
		}
		// (an anonymous function is inlined only where it is called through the MakeClosure that binds its free variables)
		ok := !callsRecover(f) && !reaches(f, f)
		// deferred calls: every defer is registered outside loops, and for every exit it is known statically whether it
		// has been registered (it dominates the exit) or not (it cannot reach it). Then "run the deferred calls" at that
		// exit is an ordinary sequence of calls, and a recover block (never entered without a panic) can be left out.
		var defers []*ssa.Defer
		var exits []*ssa.RunDefers
		for _, b := range blocks {
			for _, in := range b.Instrs {
				switch x := in.(type) {
				case *ssa.Defer:
					defers = append(defers, x)
				case *ssa.RunDefers:
					exits = append(exits, x)
				}
			}
		}
		for _, d := range defers {
			if blockReaches(d.Block(), d.Block()) {
				ok = false
			}
			if g := d.Call.StaticCallee(); g != nil && il.orig[g] != nil && callsRecover(g) {
				ok = false
			}
			if d.Call.IsInvoke() || d.Call.StaticCallee() == nil {
				if _, isB := d.Call.Value.(*ssa.Builtin); !isB && !d.Call.IsInvoke() {
					ok = false // a deferred function value: cannot see whether it recovers
				}
			}
			for _, r := range exits {
				if !deferRegisteredAt(d, r) && (d.Block() == r.Block() || blockReaches(d.Block(), r.Block())) {
					ok = false
				}
			}
		}
		il.inlinable[f] = ok
	}
}

// blockReaches: there is a non-empty path from a to b.
func blockReaches(a, b *ssa.BasicBlock) bool {
	seen := map[*ssa.BasicBlock]bool{}
	work := append([]*ssa.BasicBlock{}, a.Succs...)
	for len(work) > 0 {
		x := work[len(work)-1]
		work = work[:len(work)-1]
		if x == b {
			return true
		}
		if seen[x] {
			continue
		}
		seen[x] = true
		work = append(work, x.Succs...)
	}
	return false
}

// deferRegisteredAt: on every path to the exit r the defer d has been executed (original blocks: ssa's dominator tree is valid).
func deferRegisteredAt(d *ssa.Defer, r *ssa.RunDefers) bool {
	if d.Block() == r.Block() {
		for _, in := range d.Block().Instrs {
			if in == ssa.Instruction(d) {
				return true
			}
			if in == ssa.Instruction(r) {
				return false
			}
		}
	}
	if secondPass {
		delete(domCache, d.Parent())
		return domSets(d.Parent())[r.Block()][d.Block()]
	}
	return d.Block().Dominates(r.Block())
}

type retSite struct {
	from    *ssa.BasicBlock
	results []ssa.Value
}

type emitCtx struct {
	il     *inliner
	host   *ssa.Function // function whose body is being rebuilt
	out    *[]*ssa.BasicBlock
	nextID *int
	vmaps  []map[ssa.Value]ssa.Value // value maps of the enclosing emit levels (outermost first)
}

// devirtualiseInvoke: a method call through an interface whose dynamic type inlining has made known (a parameter of interface
// type bound to `T(x)` converted at the call site) becomes the static call of T's method.
func (e *emitCtx) devirtualiseInvoke(call *ssa.Call, look func(ssa.Value) ssa.Value) ssa.Instruction {
	switch call.Call.Value.(type) {
	case *ssa.Parameter, *ssa.FreeVar:
	default:
		return call
	}
	mi, ok := look(call.Call.Value).(*ssa.MakeInterface)
	if !ok {
		return call
	}
	prog := e.il.c.Prog
	fn := prog.LookupMethod(mi.X.Type(), call.Call.Method.Pkg(), call.Call.Method.Name())
	if fn == nil || len(fn.Blocks) == 0 || !inModule(fn) {
		return call
	}
	nc := *call
	nc.Call.Method = nil
	nc.Call.Value = fn
	nc.Call.Args = append([]ssa.Value{mi.X}, call.Call.Args...)
	setField(&nc, "referrers", nil)
	return &nc
}

// devirtualise returns a call equivalent to call whose callee is known statically where inlining has made it so: a
// parameter or captured variable that is bound to a function, a closure or a method value at this inlined call site, and a
// bound method value (`x.m` used as a function) called directly, which becomes the method call x.m(...).
func (e *emitCtx) devirtualise(call *ssa.Call, look func(ssa.Value) ssa.Value) ssa.Instruction {
	cur := call
	rewrite := func(value ssa.Value, args []ssa.Value) {
		nc := *cur
		nc.Call.Value = value
		nc.Call.Args = args
		setField(&nc, "referrers", nil)
		cur = &nc
	}
	switch cur.Call.Value.(type) {
	case *ssa.Parameter, *ssa.FreeVar:
		switch cv := look(cur.Call.Value).(type) {
		case *ssa.Function, *ssa.MakeClosure:
			rewrite(cv, append([]ssa.Value(nil), cur.Call.Args...))
		}
	default:
		// a function value that only changed its type name on the way (`iter.Seq[T]` <- the closure an iterator constructor
		// returned, once that constructor has been inlined): call the closure itself
		// (not in the syntax packages: their rules are written against the loops of the parser and the printer as loops; an
		// iterator there is answered with "cannot decide")
		hostPkg := shortPkg(fnPkgPath(e.host))
		if ct, isCT := look(cur.Call.Value).(*ssa.ChangeType); isCT && hostPkg != "lexer" && hostPkg != "parser" && hostPkg != "ast" {
			switch cv := ct.X.(type) {
			case *ssa.Function, *ssa.MakeClosure:
				rewrite(cv, append([]ssa.Value(nil), cur.Call.Args...))
			}
		}
	}
	if mc, isMC := cur.Call.Value.(*ssa.MakeClosure); isMC && len(mc.Bindings) == 1 {
		if w, _ := mc.Fn.(*ssa.Function); w != nil && strings.HasPrefix(w.Synthetic, "bound method wrapper") && len(w.Blocks) == 1 {
			var m *ssa.Function
			for _, wi := range w.Blocks[0].Instrs {
				if wc, isCall := wi.(*ssa.Call); isCall {
					m = wc.Call.StaticCallee()
				}
			}
			if m != nil && m.Signature.Recv() != nil {
				rewrite(m, append([]ssa.Value{look(mc.Bindings[0])}, cur.Call.Args...))
			}
		}
	}
	return cur
}

func (e *emitCtx) newBlock(comment string) *ssa.BasicBlock {
	b := &ssa.BasicBlock{Comment: comment}
	setField(b, "parent", e.host)
	*e.out = append(*e.out, b)
	return b
}

func (e *emitCtx) add(b *ssa.BasicBlock, in ssa.Instruction) {
	setField(in, "block", b)
	b.Instrs = append(b.Instrs, in)
}

func rpo(blocks []*ssa.BasicBlock) []*ssa.BasicBlock {
	if len(blocks) == 0 {
		return nil
	}
	seen := map[*ssa.BasicBlock]bool{}
	var post []*ssa.BasicBlock
	var dfs func(b *ssa.BasicBlock)
	dfs = func(b *ssa.BasicBlock) {
		seen[b] = true
		for _, s := range b.Succs {
			if !seen[s] {
				dfs(s)
			}
		}
		post = append(post, b)
	}
	dfs(blocks[0])
	for i, j := 0, len(post)-1; i < j; i, j = i+1, j-1 {
		post[i], post[j] = post[j], post[i]
	}
	return post
}

// emit copies the (original) body of f into the host, with params bound to args, inlining inlinable callees up to depth.
// It returns the entry block of the copy, the return sites (block that ends where the Return was, and the returned values)
// and, for the host itself, the map from original blocks to their first copy (used for Function.Recover).
func (e *emitCtx) emit(f *ssa.Function, inlined bool, args, binds []ssa.Value, depth int, stack []*ssa.Function) (*ssa.BasicBlock, []retSite, map[*ssa.BasicBlock]*ssa.BasicBlock) {
	il := e.il
	vmap := map[ssa.Value]ssa.Value{}
	if inlined {
		for i, p := range f.Params {
			if i < len(args) {
				vmap[p] = args[i]
			}
		}
		for i, fv := range f.FreeVars {
			if i < len(binds) {
				vmap[fv] = binds[i]
			}
		}
	}
	var registered []*ssa.Defer // in registration order (reverse post-order, then position)
	first := map[*ssa.BasicBlock]*ssa.BasicBlock{}
	last := map[*ssa.BasicBlock]*ssa.BasicBlock{}
	var clones []ssa.Instruction
	var rets []retSite
	type pendingRet struct {
		blk *ssa.BasicBlock
		ret *ssa.Return
	}
	var pend []pendingRet
	order := rpo(il.orig[f])
	for _, ob := range order {
		first[ob] = e.newBlock(ob.Comment)
	}
	chain := append(append([]map[ssa.Value]ssa.Value(nil), e.vmaps...), vmap)
	look := func(v ssa.Value) ssa.Value {
	next:
		for i := 0; i < 16; i++ {
			for k := len(chain) - 1; k >= 0; k-- {
				if n, ok := chain[k][v]; ok {
					v = n
					continue next
				}
			}
			return v
		}
		return v
	}
	for _, ob := range order {
		cur := first[ob]
		var handle func(in ssa.Instruction)
		handle = func(in ssa.Instruction) {
			if inlined {
				// deferred calls of an inlined function run where it returns: as ordinary calls, last registered first
				if d, ok := in.(*ssa.Defer); ok {
					registered = append(registered, d)
					return
				}
				if r, ok := in.(*ssa.RunDefers); ok {
					for i := len(registered) - 1; i >= 0; i-- {
						d := registered[i]
						if !deferRegisteredAt(d, r) {
							continue
						}
						syn := &ssa.Call{Call: d.Call}
						syn.Call.Args = append([]ssa.Value(nil), d.Call.Args...)
						var rt types.Type = types.NewTuple()
						if sig, ok := d.Call.Value.Type().Underlying().(*types.Signature); ok && !d.Call.IsInvoke() {
							rt = sig.Results()
							if sig.Results().Len() == 1 {
								rt = sig.Results().At(0).Type()
							}
						} else if d.Call.IsInvoke() {
							sig := d.Call.Method.Type().(*types.Signature)
							rt = sig.Results()
							if sig.Results().Len() == 1 {
								rt = sig.Results().At(0).Type()
							}
						}
						setField(syn, "typ", rt)
						setField(syn, "pos", d.Pos())
						il.synthOf[syn] = d
						handle(syn)
					}
					return
				}
			}
			// src is the instruction the value map and the referrers are keyed on; in may be replaced by an equivalent call
			// whose callee has become known
			src := in
			if call, ok := in.(*ssa.Call); ok && !call.Call.IsInvoke() {
				in = e.devirtualise(call, look)
			} else if ok && call.Call.IsInvoke() {
				in = e.devirtualiseInvoke(call, look)
			}
			// inlinable static call?
			if call, ok := in.(*ssa.Call); ok && depth > 0 {
				g := call.Common().StaticCallee()
				onStack := false
				for _, s := range stack {
					if s == g {
						onStack = true
					}
				}
				var binds []ssa.Value
				bindable := g != nil && len(g.FreeVars) == 0
				if g != nil && !bindable {
					// an anonymous function called through the MakeClosure that binds its free variables
					if mc, isMC := call.Common().Value.(*ssa.MakeClosure); isMC && len(mc.Bindings) == len(g.FreeVars) {
						bindable = true
						for _, b := range mc.Bindings {
							binds = append(binds, look(b))
						}
					}
				}
				if g != nil && il.samePkgOnly[g] && fnPkgPath(g) != fnPkgPath(e.host) {
					bindable = false
				}
				if g != nil && il.inlinable[g] && bindable && !onStack && g != f {
					var cargs []ssa.Value
					for _, a := range call.Common().Args {
						cargs = append(cargs, look(a))
					}
					saved := e.vmaps
					e.vmaps = chain
					entry, rs, _ := e.emit(g, true, cargs, binds, depth-1, append(stack, f))
					e.vmaps = saved
					il.nInlined++
					il.wasInlined[g] = true
					j := &ssa.Jump{}
					e.add(cur, j)
					cur.Succs = []*ssa.BasicBlock{entry}
					entry.Preds = append(entry.Preds, cur)
					cont := e.newBlock("after " + g.Name())
					nres := g.Signature.Results().Len()
					results := make([]ssa.Value, nres)
					for _, r := range rs {
						jj := &ssa.Jump{}
						e.add(r.from, jj)
						r.from.Succs = []*ssa.BasicBlock{cont}
						cont.Preds = append(cont.Preds, r.from)
					}
					for k := 0; k < nres; k++ {
						switch len(rs) {
						case 0:
							results[k] = nil
						case 1:
							results[k] = rs[0].results[k]
						default:
							phi := &ssa.Phi{Comment: g.Name() + " result"}
							for _, r := range rs {
								phi.Edges = append(phi.Edges, r.results[k])
							}
							setField(phi, "typ", g.Signature.Results().At(k).Type())
							setField(phi, "pos", call.Pos())
							e.add(cont, phi)
							results[k] = phi
						}
					}
					srcVal, _ := src.(ssa.Value)
					if nres == 1 {
						if results[0] != nil && srcVal != nil {
							vmap[srcVal] = results[0]
						}
					} else if nres > 1 && srcVal != nil {
						// users are Extracts of the tuple
						for _, ref := range valueReferrers(srcVal) {
							if ex, ok := ref.(*ssa.Extract); ok && results[ex.Index] != nil {
								vmap[ex] = results[ex.Index]
							}
						}
						vmap[srcVal] = tupleMarker
					}
					cur = cont
					return
				}
			}
			if ex, ok := in.(*ssa.Extract); ok {
				if vmap[ex.Tuple] == tupleMarker {
					return // replaced by the inlined callee's result
				}
			}
			if ret, ok := in.(*ssa.Return); ok && inlined {
				pend = append(pend, pendingRet{cur, ret})
				return
			}
			cl := cloneInstr(in)
			if d, isSyn := il.synthOf[src]; isSyn {
				il.origOf[cl] = d
			} else {
				il.origOf[cl] = src
			}
			if ov, ok := src.(ssa.Value); ok {
				vmap[ov] = cl.(ssa.Value)
			}
			e.add(cur, cl)
			clones = append(clones, cl)
		}
		for _, in := range ob.Instrs {
			handle(in)
		}
		last[ob] = cur
	}
	// wire the copied terminators and remap operands
	for _, ob := range order {
		lb := last[ob]
		if len(lb.Succs) == 0 {
			for _, s := range ob.Succs {
				lb.Succs = append(lb.Succs, first[s])
			}
		}
	}
	for _, ob := range order {
		nb := first[ob]
		for _, p := range ob.Preds {
			if lp, ok := last[p]; ok {
				nb.Preds = append(nb.Preds, lp)
			}
		}
	}
	for _, cl := range clones {
		if cl == nil {
			continue
		}
		for _, op := range cl.Operands(nil) {
			if *op != nil {
				*op = look(*op)
			}
		}
	}
	for _, pr := range pend {
		var res []ssa.Value
		for _, v := range pr.ret.Results {
			res = append(res, look(v))
		}
		rets = append(rets, retSite{pr.blk, res})
	}
	// phis created for inlined results may have operands that were remapped later (rare: values of this context)
	return first[order[0]], rets, first
}

var tupleMarker ssa.Value = &ssa.Const{}

// canonicalise rewrites every module function in place; see the comment at the top of this file.
// canonicalise runs the canonicalisation twice: unrolling, splitting and threading in the first pass expose calls whose callee
// has become known (a closure taken out of a table), which the second pass inlines.
func (c *Ctx) canonicalise(depth int) *canonStats {
	st := c.canonicaliseOnce(depth)
	first := c.origOf
	secondPass = true
	st2 := c.canonicaliseOnce(depth)
	secondPass = false
	for cl, src := range c.origOf {
		if o, ok := first[src]; ok {
			c.origOf[cl] = o
		}
	}
	st.functions = st2.functions
	st.inlinedCalls += st2.inlinedCalls
	st.absorbed += st2.absorbed
	st.absorbedNames = append(st.absorbedNames, st2.absorbedNames...)
	sort.Strings(st.absorbedNames)
	st.deadClosures += st2.deadClosures
	st.promoted += st2.promoted
	st.split += st2.split
	st.threaded += st2.threaded
	st.unrolled += st2.unrolled
	return st
}

// secondPass: the blocks being inlined are canonical ones, whose dominator fields in go/ssa are stale.
var secondPass bool

func (c *Ctx) canonicaliseOnce(depth int) *canonStats {
	il := &inliner{c: c, orig: map[*ssa.Function][]*ssa.BasicBlock{}, recover: map[*ssa.Function]*ssa.BasicBlock{},
		origOf: map[ssa.Instruction]ssa.Instruction{}, maxDepth: depth, usedAsCall: map[*ssa.Function]int{}, wasInlined: map[*ssa.Function]bool{}, synthOf: map[ssa.Instruction]*ssa.Defer{}, samePkgOnly: map[*ssa.Function]bool{}}
	for _, f := range c.ModFuncs {
		il.orig[f] = f.Blocks
		il.recover[f] = f.Recover
	}
	il.computeInlinable()
	canonOrigOf = il.origOf
	st := &canonStats{}
	newBlocks := map[*ssa.Function][]*ssa.BasicBlock{}
	newRecover := map[*ssa.Function]*ssa.BasicBlock{}
	for _, f := range c.ModFuncs {
		if len(il.orig[f]) == 0 {
			continue
		}
		var out []*ssa.BasicBlock
		e := &emitCtx{il: il, host: f, out: &out}
		_, _, first := e.emit(f, false, nil, nil, depth, nil)
		newBlocks[f] = out
		if r := il.recover[f]; r != nil {
			newRecover[f] = first[r]
		}
		st.functions++
	}
	// install
	for f, blocks := range newBlocks {
		f.Blocks = blocks
		f.Recover = newRecover[f]
		pruneUnreachable(f)
	}
	// closures that were inlined where they are called leave a MakeClosure nobody uses; the cells they captured are then
	// plain locals again and are promoted to registers, as ssa's own lifting pass would have done
	st.unrolled += c.localiseGlobalTables()
	for _, f := range c.ModFuncs {
		if len(f.Blocks) == 0 {
			continue
		}
		st.deadClosures += dropDeadClosures(f)
		for round := 0; round < 6; round++ {
			nu := 0
			if !noUnroll[shortPkg(fnPkgPath(f))] {
				nu = unrollLiteralLoops(f)
			}
			st.unrolled += nu
			ns := scalarizeStructValues(f) + splitArrays(f) + splitStructs(f)
			np := promoteLocals(f)
			np += splitFuncPhiCalls(f)
			np += splitPhiReturns(f)
			np += retargetThunkCalls(f)
			np += foldConstBranches(f)
			nt := 0
			if !noThread[shortPkg(fnPkgPath(f))] {
				nt = threadJumps(f)
			}
			st.split += ns
			st.promoted += np
			st.threaded += nt
			if ns == 0 && np == 0 && nt == 0 && nu == 0 {
				break
			}
		}
	}
	// function values kept in cells that goroutine closures capture (callbacks of an inlined worker-pool helper)
	for _, f := range c.ModFuncs {
		st.promoted += resolveFuncCells(f)
	}
	// referrers and register numbers
	for _, f := range c.ModFuncs {
		for _, p := range f.Params {
			setField(p, "referrers", nil)
		}
		for _, fv := range f.FreeVars {
			setField(fv, "referrers", nil)
		}
	}
	for _, f := range c.ModFuncs {
		num := 0
		for _, b := range f.Blocks {
			for _, in := range b.Instrs {
				if _, ok := in.(ssa.Value); ok {
					setField(in, "num", num)
					num++
				}
			}
		}
		for _, b := range f.Blocks {
			for _, in := range b.Instrs {
				for _, op := range in.Operands(nil) {
					if *op == nil {
						continue
					}
					if refs := (*op).Referrers(); refs != nil {
						*refs = append(*refs, in)
					}
				}
			}
		}
	}
	st.inlinedCalls = il.nInlined
	c.origOf = il.origOf
	// absorbed helpers: inlinable, unexported, and no remaining reference (call, go, defer or value use) in any canonical body
	used := map[*ssa.Function]bool{}
	for _, f := range c.ModFuncs {
		for _, b := range f.Blocks {
			for _, in := range b.Instrs {
				for _, op := range in.Operands(nil) {
					if *op == nil {
						continue
					}
					if g, ok := (*op).(*ssa.Function); ok {
						used[g] = true
					}
				}
			}
		}
	}
	var kept []*ssa.Function
	for _, f := range c.ModFuncs {
		if il.inlinable[f] && !used[f] && il.wasInlined[f] && f.Name() != "init" && f.Name() != "main" && !isMethodOfInterfaceImpl(c, f) {
			st.absorbed++
			st.absorbedNames = append(st.absorbedNames, fname(f))
			continue
		}
		kept = append(kept, f)
	}
	// anonymous functions of absorbed helpers live on inside their hosts' copies (MakeClosure refers to them): keep them
	c.ModFuncs = kept
	sort.Strings(st.absorbedNames)
	return st
}

// foldConstBranches: a branch on a comparison of two integer (or boolean) constants - what the exit protocol of an inlined
// range-over-func body leaves behind once its state variable has become a register - is replaced by a jump to the side it takes.
func foldConstBranches(f *ssa.Function) int {
	n := 0
	for _, b := range f.Blocks {
		iff, ok := lastInstr(b).(*ssa.If)
		if !ok || len(b.Succs) != 2 {
			continue
		}
		val, known := false, false
		switch c := iff.Cond.(type) {
		case *ssa.Const:
			if bv, isB := constBool(c); isB {
				val, known = bv, true
			}
		case *ssa.BinOp:
			x, okX := constInt(c.X)
			y, okY := constInt(c.Y)
			if _, isCX := c.X.(*ssa.Const); !isCX {
				okX = false
			}
			if _, isCY := c.Y.(*ssa.Const); !isCY {
				okY = false
			}
			if okX && okY {
				switch c.Op {
				case token.EQL:
					val, known = x == y, true
				case token.NEQ:
					val, known = x != y, true
				case token.LSS:
					val, known = x < y, true
				case token.LEQ:
					val, known = x <= y, true
				case token.GTR:
					val, known = x > y, true
				case token.GEQ:
					val, known = x >= y, true
				}
			}
		}
		if !known || b.Succs[0] == b.Succs[1] {
			continue
		}
		taken, dropped := b.Succs[0], b.Succs[1]
		if !val {
			taken, dropped = dropped, taken
		}
		// remove the edge b -> dropped
		idx := -1
		for i, p := range dropped.Preds {
			if p == b {
				idx = i
			}
		}
		if idx < 0 {
			continue
		}
		dropped.Preds = append(append([]*ssa.BasicBlock(nil), dropped.Preds[:idx]...), dropped.Preds[idx+1:]...)
		for _, in := range dropped.Instrs {
			if phi, isPhi := in.(*ssa.Phi); isPhi && idx < len(phi.Edges) {
				phi.Edges = append(append([]ssa.Value(nil), phi.Edges[:idx]...), phi.Edges[idx+1:]...)
			}
		}
		j := &ssa.Jump{}
		setField(j, "block", b)
		b.Instrs[len(b.Instrs)-1] = j
		b.Succs = []*ssa.BasicBlock{taken}
		n++
	}
	if n > 0 {
		pruneUnreachable(f)
	}
	return n
}

// retargetThunkCalls: a static call of the wrapper go/ssa makes for a method expression (`(*App).format` used as a plain function
// value: "thunk for ...") becomes a call of the method itself; the wrapper only passes its parameters on in order.
func retargetThunkCalls(f *ssa.Function) int {
	n := 0
	for _, b := range f.Blocks {
		for _, in := range b.Instrs {
			call, ok := in.(*ssa.Call)
			if !ok || call.Call.IsInvoke() {
				continue
			}
			g, ok := call.Call.Value.(*ssa.Function)
			if !ok || !strings.HasPrefix(g.Synthetic, "thunk for") || len(g.Blocks) != 1 {
				continue
			}
			var inner *ssa.Call
			okShape := true
			for _, gi := range g.Blocks[0].Instrs {
				switch x := gi.(type) {
				case *ssa.Call:
					if inner != nil {
						okShape = false
					}
					inner = x
				case *ssa.Return, *ssa.Extract:
				default:
					okShape = false
				}
			}
			if !okShape || inner == nil || inner.Call.IsInvoke() {
				continue
			}
			target, isFn := inner.Call.Value.(*ssa.Function)
			if !isFn || len(inner.Call.Args) != len(g.Params) {
				continue
			}
			same := true
			for i, a := range inner.Call.Args {
				if a != ssa.Value(g.Params[i]) {
					same = false
				}
			}
			if !same {
				continue
			}
			call.Call.Value = target
			n++
		}
	}
	return n
}

// localiseGlobalTables: a package-level slice variable of the module that is stored exactly once - by its package's initialiser,
// with a composite literal whose elements are constants, functions and closures that capture nothing - that is unexported, whose
// address is never taken and whose elements are never written, is a constant table. Every load of it is replaced by a fresh copy of
// the literal built on the spot, so that a loop over `var actions = []action{{flagA, doA}, {flagB, doB}}` analyses like a loop over the
// same local literal (unrolling and the second inlining pass then turn it into the chain of ifs it stands for).
func (c *Ctx) localiseGlobalTables() int {
	type ginfo struct {
		stores  []*ssa.Store
		loads   []*ssa.UnOp
		escapes bool
	}
	gl := map[*ssa.Global]*ginfo{}
	get := func(g *ssa.Global) *ginfo {
		if gl[g] == nil {
			gl[g] = &ginfo{}
		}
		return gl[g]
	}
	for _, f := range c.ModFuncs {
		for _, b := range f.Blocks {
			for _, in := range b.Instrs {
				for _, op := range in.Operands(nil) {
					g, ok := (*op).(*ssa.Global)
					if !ok || g.Pkg == nil || !strings.HasPrefix(g.Pkg.Pkg.Path(), modPath) {
						continue
					}
					inf := get(g)
					switch x := in.(type) {
					case *ssa.Store:
						if x.Addr == ssa.Value(g) && x.Val != ssa.Value(g) {
							inf.stores = append(inf.stores, x)
						} else {
							inf.escapes = true
						}
					case *ssa.UnOp:
						if x.Op == token.MUL && x.X == ssa.Value(g) {
							inf.loads = append(inf.loads, x)
						} else {
							inf.escapes = true
						}
					default:
						inf.escapes = true
					}
				}
			}
		}
	}
	n := 0
	allInit := map[*ssa.Global][]*ssa.Store{}
	for g, inf := range gl {
		dbg := func(why string) {
			if os.Getenv("SPOKCHECK_DEBUG_TABLES") != "" {
				fmt.Fprintf(os.Stderr, "table %s: %s\n", g.Name(), why)
			}
		}
		// package initialisers call one another and are inlined into one another: the copies of the one store are the same store
		{
			var own []*ssa.Store
			foreign := false
			for _, s0 := range inf.stores {
				switch {
				case s0.Parent() != nil && s0.Parent().Name() == "init" && s0.Parent().Pkg == g.Pkg:
					own = append(own, s0)
				case s0.Parent() != nil && s0.Parent().Name() == "init" && s0.Parent().Synthetic != "":
				default:
					foreign = true
				}
			}
			if !foreign && len(own) == 1 {
				allInit[g] = inf.stores
				inf.stores = own
			}
		}
		if inf.escapes || len(inf.stores) != 1 || len(inf.loads) == 0 || token_IsExported(g.Name()) {
			if _, isSlice := deref(g.Type()).Underlying().(*types.Slice); isSlice {
				dbg(fmt.Sprintf("escapes=%v stores=%d loads=%d", inf.escapes, len(inf.stores), len(inf.loads)))
			}
			continue
		}
		if _, isSlice := deref(g.Type()).Underlying().(*types.Slice); !isSlice {
			continue
		}
		st := inf.stores[0]
		if st.Parent() == nil || st.Parent().Name() != "init" {
			continue
		}
		sl, ok := st.Val.(*ssa.Slice)
		if !ok || sl.Low != nil || sl.High != nil || sl.Max != nil {
			continue
		}
		arr, ok := sl.X.(*ssa.Alloc)
		if !ok || arr.Block() != st.Block() {
			continue
		}
		// the instructions that build the literal, in block order
		cone := map[ssa.Value]bool{arr: true}
		// pre-pass: element values assembled in a local composite literal and copied whole into their slot (`*slot = *complit`)
		{
			addrs := map[ssa.Value]bool{arr: true}
			for _, in := range st.Block().Instrs {
				switch x := in.(type) {
				case *ssa.IndexAddr:
					if addrs[x.X] {
						addrs[x] = true
					}
				case *ssa.FieldAddr:
					if addrs[x.X] {
						addrs[x] = true
					}
				}
			}
			for _, in := range st.Block().Instrs {
				if s2, isSt := in.(*ssa.Store); isSt && addrs[s2.Addr] {
					if ld, isLd := s2.Val.(*ssa.UnOp); isLd && ld.Op == token.MUL {
						if a, isA := ld.X.(*ssa.Alloc); isA && a.Block() == st.Block() && a != arr {
							cone[a] = true
						}
					}
				}
			}
		}
		var seq []ssa.Instruction
		okLit := true
		plain := func(v ssa.Value) bool {
			for {
				switch x := v.(type) {
				case *ssa.Const, *ssa.Function:
					return true
				case *ssa.MakeClosure:
					return len(x.Bindings) == 0
				case *ssa.ChangeType:
					v = x.X
					continue
				case *ssa.MakeInterface:
					v = x.X
					continue
				}
				return false
			}
		}
		for _, in := range st.Block().Instrs {
			switch x := in.(type) {
			case *ssa.Alloc:
				if cone[x] {
					seq = append(seq, in)
				}
			case *ssa.UnOp:
				if x.Op == token.MUL && cone[x.X] {
					if _, isA := x.X.(*ssa.Alloc); isA && x.X != ssa.Value(arr) {
						cone[x] = true // the whole element value, about to be copied into its slot
						seq = append(seq, in)
					} else {
						okLit = false
					}
				}
			case *ssa.IndexAddr:
				if cone[x.X] {
					if _, isC := constInt(x.Index); !isC {
						okLit = false
					}
					cone[x] = true
					seq = append(seq, in)
				}
			case *ssa.FieldAddr:
				if cone[x.X] {
					cone[x] = true
					seq = append(seq, in)
				}
			case *ssa.Store:
				if cone[x.Addr] {
					if !plain(x.Val) && !cone[x.Val] {
						okLit = false
					}
					if mc, isMC := x.Val.(*ssa.MakeClosure); isMC {
						_ = mc
					}
					seq = append(seq, in)
				} else if cone[x.Val] {
					okLit = false
				}
			case *ssa.Slice:
				if x == sl {
					seq = append(seq, in)
				} else if cone[x.X] {
					okLit = false
				}
			case *ssa.MakeClosure, *ssa.ChangeType, *ssa.MakeInterface:
				// cloned on demand below when a store of the literal uses them
			default:
				for _, op := range in.Operands(nil) {
					if *op != nil && cone[*op] {
						okLit = false
					}
				}
			}
		}
		if !okLit {
			dbg("literal not plain")
			continue
		}
		// nobody writes an element through a loaded copy
		writes := false
		for _, ld := range inf.loads {
			users := usersOf(ld.Parent())
			var walk func(v ssa.Value, depth int)
			walk = func(v ssa.Value, depth int) {
				if depth > 4 {
					writes = true
					return
				}
				for _, u := range users[v] {
					switch x := u.(type) {
					case *ssa.IndexAddr:
						if x.X == v {
							for _, u2 := range users[x] {
								if s2, isSt := u2.(*ssa.Store); isSt && s2.Addr == ssa.Value(x) {
									writes = true
								}
								if fa, isFA := u2.(*ssa.FieldAddr); isFA {
									for _, u3 := range users[fa] {
										if s3, isSt := u3.(*ssa.Store); isSt && s3.Addr == ssa.Value(fa) {
											writes = true
										}
									}
								}
							}
						}
					case *ssa.Slice:
						if x.X == v {
							walk(x, depth+1)
						}
					case *ssa.Phi:
						walk(x, depth+1)
					case *ssa.Call:
						// passed on (sort, append, a helper): not a constant table for our purposes
						if bi, isB := x.Call.Value.(*ssa.Builtin); !isB || (bi.Name() != "len" && bi.Name() != "cap") {
							writes = true
						}
					case *ssa.Store:
						if x.Val == v {
							writes = true
						}
					case *ssa.MakeClosure, *ssa.Return, *ssa.MakeInterface, *ssa.Send, *ssa.MapUpdate:
						writes = true
					}
				}
			}
			walk(ld, 0)
		}
		if writes {
			dbg("written or passed on")
			continue
		}
		dbg(fmt.Sprintf("localised at %d loads, %d instructions each", len(inf.loads), len(seq)))
		for _, ld := range inf.loads {
			f := ld.Parent()
			if f == st.Parent() {
				continue
			}
			m := map[ssa.Value]ssa.Value{}
			var cloneVal func(v ssa.Value) ssa.Value
			cloneVal = func(v ssa.Value) ssa.Value {
				if nv, ok := m[v]; ok {
					return nv
				}
				switch x := v.(type) {
				case *ssa.MakeClosure, *ssa.ChangeType, *ssa.MakeInterface:
					in := x.(ssa.Instruction)
					cl := cloneInstr(in)
					for _, op := range cl.Operands(nil) {
						if *op != nil {
							*op = cloneVal(*op)
						}
					}
					insertBeforeInstr(ld.Block(), ld, cl)
					m[v] = cl.(ssa.Value)
					return cl.(ssa.Value)
				}
				return v
			}
			for _, in := range seq {
				cl := cloneInstr(in)
				for _, op := range cl.Operands(nil) {
					if *op != nil {
						*op = cloneVal(*op)
					}
				}
				insertBeforeInstr(ld.Block(), ld, cl)
				if v, isV := in.(ssa.Value); isV {
					m[v] = cl.(ssa.Value)
				}
				if a, isA := cl.(*ssa.Alloc); isA {
					f.Locals = append(f.Locals, a)
				}
			}
			repl := m[sl]
			for _, b := range f.Blocks {
				for _, in := range b.Instrs {
					for _, op := range in.Operands(nil) {
						if *op == ssa.Value(ld) {
							*op = repl
						}
					}
				}
			}
			removeInstrs(f, map[ssa.Instruction]bool{ld: true})
			n++
		}
		// nothing reads the variable any more: its construction in the initialiser (and in the copies of the initialiser that
		// inlining put into other initialisers) is dead, and so are the closures it alone referred to
		stores := allInit[g]
		if len(stores) == 0 {
			stores = inf.stores
		}
		for _, s0 := range stores {
			dead := map[ssa.Instruction]bool{s0: true}
			if sl0, isSl := s0.Val.(*ssa.Slice); isSl {
				if arr0, isA := sl0.X.(*ssa.Alloc); isA {
					live := map[ssa.Value]bool{arr0: true}
					users := usersOf(s0.Parent())
					// element literals copied whole into a slot
					for _, in := range s0.Block().Instrs {
						if s2, isSt := in.(*ssa.Store); isSt {
							if ld2, isLd := s2.Val.(*ssa.UnOp); isLd && ld2.Op == token.MUL {
								if a2, isA2 := ld2.X.(*ssa.Alloc); isA2 {
									base := s2.Addr
									for {
										if ia, ok := base.(*ssa.IndexAddr); ok {
											base = ia.X
											continue
										}
										if fa, ok := base.(*ssa.FieldAddr); ok {
											base = fa.X
											continue
										}
										break
									}
									if base == ssa.Value(arr0) {
										live[a2] = true
									}
								}
							}
						}
					}
					for changed := true; changed; {
						changed = false
						for v := range live {
							for _, u := range users[v] {
								switch x := u.(type) {
								case *ssa.IndexAddr, *ssa.FieldAddr, *ssa.Slice, *ssa.UnOp:
									if !live[x.(ssa.Value)] {
										live[x.(ssa.Value)] = true
										changed = true
									}
									dead[u] = true
								case *ssa.Store:
									dead[u] = true
								}
							}
						}
					}
					for v := range live {
						if in, isIn := v.(ssa.Instruction); isIn {
							dead[in] = true
						}
					}
				}
			}
			removeInstrs(s0.Parent(), dead)
			for i := 0; i < 3; i++ {
				if dropDeadClosures(s0.Parent()) == 0 {
					break
				}
			}
		}
	}
	return n
}

// isMethodOfInterfaceImpl: f may be called through an interface (then a static-call census says nothing).
func isMethodOfInterfaceImpl(c *Ctx, f *ssa.Function) bool {
	if f.Signature.Recv() == nil {
		return false
	}
	n := c.CG.Nodes[f]
	if n == nil {
		return false
	}
	for _, e := range n.In {
		if e.Site != nil && e.Site.Common().IsInvoke() {
			return true
		}
	}
	return false
}

func describeCanon(st *canonStats) string {
	return fmt.Sprintf("canonicalised %d functions: %d static calls of module helpers inlined, %d helpers absorbed (%s), %d unused closures dropped, %d local structs split, %d local cells promoted to registers, %d edges threaded past a decided test, %d constant-trip loops unrolled", st.functions, st.inlinedCalls, st.absorbed, strings.Join(st.absorbedNames, ", "), st.deadClosures, st.split, st.promoted, st.threaded, st.unrolled)
}

var _ = types.Typ

// isGlobHit: a boolean predicate that looks its argument up in SpokFile.Globs (the "already expanded" test).
func (il *inliner) isGlobHit(f *ssa.Function) bool {
	if f.Signature.Results().Len() != 1 {
		return false
	}
	if b, ok := f.Signature.Results().At(0).Type().Underlying().(*types.Basic); !ok || b.Kind() != types.Bool {
		return false
	}
	for _, blk := range il.orig[f] {
		for _, in := range blk.Instrs {
			if lk, ok := in.(*ssa.Lookup); ok && isFieldLoad(lk.X, "file.SpokFile.Globs") {
				return true
			}
		}
	}
	return false
}

// ---- clean-up after inlining ------------------------------------------------------------------------------------------------------

func useCounts(f *ssa.Function) map[ssa.Value]int {
	uses := map[ssa.Value]int{}
	for _, b := range f.Blocks {
		for _, in := range b.Instrs {
			for _, op := range in.Operands(nil) {
				if *op != nil {
					uses[*op]++
				}
			}
		}
	}
	return uses
}

func removeInstrs(f *ssa.Function, dead map[ssa.Instruction]bool) {
	if len(dead) == 0 {
		return
	}
	for _, b := range f.Blocks {
		kept := b.Instrs[:0:0]
		for _, in := range b.Instrs {
			if !dead[in] {
				kept = append(kept, in)
			}
		}
		b.Instrs = kept
	}
}

// dropDeadClosures removes MakeClosure instructions whose value is not used (the closure was inlined at its only call).
func dropDeadClosures(f *ssa.Function) int {
	n := 0
	for {
		uses := useCounts(f)
		dead := map[ssa.Instruction]bool{}
		for _, b := range f.Blocks {
			for _, in := range b.Instrs {
				if mc, ok := in.(*ssa.MakeClosure); ok && uses[mc] == 0 {
					dead[in] = true
				}
				// the closure under another type name (iter.Seq[T]) that nobody calls any more
				if ct, ok := in.(*ssa.ChangeType); ok && uses[ct] == 0 {
					if _, isMC := ct.X.(*ssa.MakeClosure); isMC {
						dead[in] = true
					}
				}
			}
		}
		if len(dead) == 0 {
			return n
		}
		n += len(dead)
		removeInstrs(f, dead)
	}
}

// promoteLocals turns every local cell that is only loaded and stored directly (in blocks reachable from the entry) into
// SSA registers: a phi at every join, then trivial and unused phis are removed until nothing changes.
func promoteLocals(f *ssa.Function) int {
	reach := map[*ssa.BasicBlock]bool{}
	order := rpo(f.Blocks)
	for _, b := range order {
		reach[b] = true
	}
	// candidates
	bad := map[*ssa.Alloc]bool{}
	var allocs []*ssa.Alloc
	for _, b := range f.Blocks {
		for _, in := range b.Instrs {
			if a, ok := in.(*ssa.Alloc); ok && reach[b] {
				allocs = append(allocs, a)
			}
			for _, op := range in.Operands(nil) {
				a, ok := (*op).(*ssa.Alloc)
				if !ok {
					continue
				}
				switch x := in.(type) {
				case *ssa.Store:
					if x.Addr != ssa.Value(a) || x.Val == ssa.Value(a) || !reach[b] {
						bad[a] = true
					}
				case *ssa.UnOp:
					if x.Op != token.MUL || !reach[b] {
						bad[a] = true
					}
				case *ssa.DebugRef:
				default:
					bad[a] = true
				}
			}
		}
	}
	n := 0
	repl := map[ssa.Value]ssa.Value{}
	resolve := func(v ssa.Value) ssa.Value {
		for i := 0; i < 64; i++ {
			r, ok := repl[v]
			if !ok {
				return v
			}
			v = r
		}
		return v
	}
	dead := map[ssa.Instruction]bool{}
	var phis []*ssa.Phi
	for _, a := range allocs {
		if bad[a] {
			continue
		}
		n++
		elem := a.Type().Underlying().(*types.Pointer).Elem()
		zero := ssa.NewConst(nil, elem)
		out := map[*ssa.BasicBlock]ssa.Value{}
		phiOf := map[*ssa.BasicBlock]*ssa.Phi{}
		for _, b := range order {
			var cur ssa.Value
			switch {
			case b == f.Blocks[0]:
				cur = zero
			case len(b.Preds) == 1 && out[b.Preds[0]] != nil:
				cur = out[b.Preds[0]]
			default:
				phi := &ssa.Phi{Comment: a.Comment}
				setField(phi, "typ", elem)
				setField(phi, "pos", a.Pos())
				setField(phi, "block", b)
				phiOf[b] = phi
				cur = phi
			}
			for _, ins := range b.Instrs {
				switch x := ins.(type) {
				case *ssa.Alloc:
					// the allocation itself: a fresh zero cell every time it is executed (a variable of a loop body or of a
					// closure that was inlined into a loop does not carry its value round the loop)
					if x == a {
						cur = zero
					}
				case *ssa.Store:
					if x.Addr == ssa.Value(a) {
						cur = x.Val
						dead[ins] = true
					}
				case *ssa.UnOp:
					if x.X == ssa.Value(a) {
						repl[x] = cur
						dead[ins] = true
					}
				case *ssa.DebugRef:
					if x.X == ssa.Value(a) {
						dead[ins] = true
					}
				}
			}
			out[b] = cur
		}
		for b, phi := range phiOf {
			for _, p := range b.Preds {
				v := out[p]
				if v == nil {
					v = zero // predecessor not reachable from the entry
				}
				phi.Edges = append(phi.Edges, v)
			}
			b.Instrs = append([]ssa.Instruction{phi}, b.Instrs...)
			phis = append(phis, phi)
		}
		dead[a] = true
	}
	if n == 0 {
		return 0
	}
	removeInstrs(f, dead)
	rewrite := func() {
		for _, b := range f.Blocks {
			for _, in := range b.Instrs {
				for _, op := range in.Operands(nil) {
					if *op != nil {
						*op = resolve(*op)
					}
				}
			}
		}
	}
	rewrite()
	// trivial phis (all operands the same value or the phi itself), then phis no ordinary instruction depends on
	isNew := map[*ssa.Phi]bool{}
	for _, phi := range phis {
		isNew[phi] = true
	}
	for changed := true; changed; {
		changed = false
		gone := map[ssa.Instruction]bool{}
		for _, phi := range phis {
			if !isNew[phi] {
				continue
			}
			var same ssa.Value
			trivial := true
			for _, e := range phi.Edges {
				if e == ssa.Value(phi) || e == same {
					continue
				}
				if same != nil {
					trivial = false
					break
				}
				same = e
			}
			if trivial && same != nil {
				gone[phi] = true
				repl[phi] = same
				isNew[phi] = false
			}
		}
		if len(gone) > 0 {
			changed = true
			removeInstrs(f, gone)
			rewrite()
		}
	}
	live := map[*ssa.Phi]bool{}
	var work []*ssa.Phi
	for _, b := range f.Blocks {
		for _, in := range b.Instrs {
			if _, isPhi := in.(*ssa.Phi); isPhi && isNew[in.(*ssa.Phi)] {
				continue
			}
			for _, op := range in.Operands(nil) {
				if phi, ok := (*op).(*ssa.Phi); ok && isNew[phi] && !live[phi] {
					live[phi] = true
					work = append(work, phi)
				}
			}
		}
	}
	for len(work) > 0 {
		phi := work[len(work)-1]
		work = work[:len(work)-1]
		for _, e := range phi.Edges {
			if q, ok := e.(*ssa.Phi); ok && isNew[q] && !live[q] {
				live[q] = true
				work = append(work, q)
			}
		}
	}
	unread := map[ssa.Instruction]bool{}
	for _, phi := range phis {
		if isNew[phi] && !live[phi] {
			unread[phi] = true
		}
	}
	removeInstrs(f, unread)
	var locals []*ssa.Alloc
	for _, l := range f.Locals {
		if !dead[l] {
			locals = append(locals, l)
		}
	}
	f.Locals = locals
	return n
}

// ---- scalar replacement of local structs ---------------------------------------------------------------------------------------------
//
// A refactoring that gathers a function's locals into a small struct with methods (a builder, a session, a collector) turns
// registers into fields of a local cell once the methods are inlined. splitStructs splits every local struct cell that is only
// used field by field (or copied whole into / from another such cell) into one cell per field; promoteLocals then turns those
// into registers. The result is the SSA the code would have had with plain local variables.

func usersOf(f *ssa.Function) map[ssa.Value][]ssa.Instruction {
	users := map[ssa.Value][]ssa.Instruction{}
	for _, b := range f.Blocks {
		for _, in := range b.Instrs {
			seen := map[ssa.Value]bool{}
			for _, op := range in.Operands(nil) {
				if *op != nil && !seen[*op] {
					seen[*op] = true
					users[*op] = append(users[*op], in)
				}
			}
		}
	}
	return users
}

func structOf(a *ssa.Alloc) *types.Struct {
	st, _ := a.Type().Underlying().(*types.Pointer).Elem().Underlying().(*types.Struct)
	return st
}

// materialised: temporaries built by splitStructs to hand a whole struct value to a user; never split again.
var materialised = map[*ssa.Alloc]bool{}

func splitStructs(f *ssa.Function) int {
	reach := map[*ssa.BasicBlock]bool{}
	for _, b := range rpo(f.Blocks) {
		reach[b] = true
	}
	users := usersOf(f)
	cand := map[*ssa.Alloc]bool{}
	for _, b := range f.Blocks {
		if !reach[b] {
			continue
		}
		for _, in := range b.Instrs {
			if a, ok := in.(*ssa.Alloc); ok && structOf(a) != nil && structOf(a).NumFields() > 0 {
				cand[a] = true
			}
		}
	}
	asCand := func(v ssa.Value) *ssa.Alloc {
		a, ok := v.(*ssa.Alloc)
		if ok && cand[a] {
			return a
		}
		return nil
	}
	// a whole-struct load that is only copied into another candidate or has fields extracted from it is replaced field by
	// field; any other whole load gets the value materialised in a temporary at that point
	loadOK := func(l *ssa.UnOp) bool {
		for _, u := range users[l] {
			switch x := u.(type) {
			case *ssa.Store:
				if x.Val != ssa.Value(l) || asCand(x.Addr) == nil || !reach[x.Block()] {
					return false
				}
			case *ssa.Field:
			case *ssa.DebugRef:
			default:
				return false
			}
		}
		return true
	}
	// which cells are used as state: some field is stored on its own, and some field is read on its own. Cells that are whole
	// copies of one another (`x := newThing()`) are judged together.
	stores, loads := map[*ssa.Alloc]bool{}, map[*ssa.Alloc]bool{}
	group := map[*ssa.Alloc]*ssa.Alloc{}
	var find func(a *ssa.Alloc) *ssa.Alloc
	find = func(a *ssa.Alloc) *ssa.Alloc {
		if g, ok := group[a]; ok && g != a {
			r := find(g)
			group[a] = r
			return r
		}
		return a
	}
	for a := range cand {
		var under func(x *ssa.FieldAddr)
		under = func(x *ssa.FieldAddr) {
			for _, uu := range users[x] {
				switch y := uu.(type) {
				case *ssa.Store:
					if y.Addr == ssa.Value(x) {
						stores[a] = true
					}
				case *ssa.UnOp:
					loads[a] = true
				case *ssa.FieldAddr:
					under(y)
				}
			}
		}
		for _, u := range users[a] {
			switch x := u.(type) {
			case *ssa.FieldAddr:
				under(x)
			case *ssa.UnOp:
				for _, lu := range users[x] {
					switch y := lu.(type) {
					case *ssa.Field:
						loads[a] = true
					case *ssa.Store:
						if b := asCand(y.Addr); b != nil && y.Val == ssa.Value(x) {
							group[find(a)] = find(b)
						}
					}
				}
			}
		}
	}
	gStores, gLoads := map[*ssa.Alloc]bool{}, map[*ssa.Alloc]bool{}
	for a := range cand {
		if stores[a] {
			gStores[find(a)] = true
		}
		if loads[a] {
			gLoads[find(a)] = true
		}
	}
	for changed := true; changed; {
		changed = false
		for a := range cand {
			ok := true
			readBack := gStores[find(a)] && gLoads[find(a)]
			for _, u := range users[a] {
				if !reach[u.Block()] {
					ok = false
					break
				}
				switch x := u.(type) {
				case *ssa.FieldAddr:
					for _, uu := range users[x] {
						switch y := uu.(type) {
						case *ssa.Store:
							if y.Addr != ssa.Value(x) || y.Val == ssa.Value(x) {
								ok = false
							}
						case *ssa.UnOp:
							if y.Op != token.MUL {
								ok = false
							}
						case *ssa.FieldAddr:
							if y.X != ssa.Value(x) {
								ok = false
							}
						case *ssa.DebugRef:
						default:
							ok = false
						}
					}
				case *ssa.UnOp:
					if x.Op != token.MUL {
						ok = false
					}
					if materialised[a] && !loadOK(x) {
						ok = false // a temporary built to hand out a whole value: splitting it would only build another one
					}
				case *ssa.Store:
					if x.Addr != ssa.Value(a) || x.Val == ssa.Value(a) {
						ok = false
					}
				case *ssa.DebugRef:
				default:
					ok = false
				}
			}
			// (only cells used as mutable state are worth splitting: a composite literal that is filled and then used whole, or a
			// copy whose fields are only read, stays as it is)
			if !ok || !readBack {
				delete(cand, a)
				changed = true
			}
		}
	}
	if len(cand) == 0 {
		return 0
	}
	mk := func(in ssa.Instruction, b *ssa.BasicBlock) ssa.Instruction {
		setField(in, "block", b)
		return in
	}
	fieldCells := map[*ssa.Alloc][]*ssa.Alloc{}
	repl := map[ssa.Value]ssa.Value{}
	for _, b := range f.Blocks {
		var out []ssa.Instruction
		for _, in := range b.Instrs {
			switch x := in.(type) {
			case *ssa.Alloc:
				if !cand[x] {
					break
				}
				st := structOf(x)
				for i := 0; i < st.NumFields(); i++ {
					c := &ssa.Alloc{Comment: x.Comment + "." + st.Field(i).Name(), Heap: x.Heap}
					setField(c, "typ", types.NewPointer(st.Field(i).Type()))
					setField(c, "pos", x.Pos())
					fieldCells[x] = append(fieldCells[x], c)
					out = append(out, mk(c, b))
				}
				continue
			}
			out = append(out, in)
		}
		b.Instrs = out
	}
	// (cells are created in a first pass so that copies between candidates can refer to them wherever they are allocated)
	loadFields := map[*ssa.UnOp][]ssa.Value{}
	var newLocals []*ssa.Alloc
	// definitions before uses: a whole load is rewritten before the stores and field selections that consume it
	visitOrder := rpo(f.Blocks)
	inOrder := map[*ssa.BasicBlock]bool{}
	for _, b := range visitOrder {
		inOrder[b] = true
	}
	for _, b := range f.Blocks {
		if !inOrder[b] {
			visitOrder = append(visitOrder, b)
		}
	}
	for _, b := range visitOrder {
		var out []ssa.Instruction
		for _, in := range b.Instrs {
			switch x := in.(type) {
			case *ssa.FieldAddr:
				if a := asCand(x.X); a != nil {
					repl[x] = fieldCells[a][x.Field]
					continue
				}
			case *ssa.UnOp:
				if a := asCand(x.X); a != nil && x.Op == token.MUL {
					var fields []ssa.Value
					for _, c := range fieldCells[a] {
						l := &ssa.UnOp{Op: token.MUL, X: c}
						setField(l, "typ", c.Type().Underlying().(*types.Pointer).Elem())
						setField(l, "pos", x.Pos())
						out = append(out, mk(l, b))
						fields = append(fields, l)
					}
					if loadOK(x) {
						loadFields[x] = fields
						continue
					}
					// some user needs the whole value: build it in a temporary here
					tmp := &ssa.Alloc{Comment: a.Comment + " (whole)"}
					setField(tmp, "typ", a.Type())
					setField(tmp, "pos", x.Pos())
					materialised[tmp] = true
					out = append(out, mk(tmp, b))
					newLocals = append(newLocals, tmp)
					for i, fv := range fields {
						fa := &ssa.FieldAddr{X: tmp, Field: i}
						setField(fa, "typ", fieldCells[a][i].Type())
						setField(fa, "pos", x.Pos())
						out = append(out, mk(fa, b))
						out = append(out, mk(&ssa.Store{Addr: fa, Val: fv}, b))
					}
					whole := &ssa.UnOp{Op: token.MUL, X: tmp}
					setField(whole, "typ", x.Type())
					setField(whole, "pos", x.Pos())
					out = append(out, mk(whole, b))
					repl[x] = whole
					continue
				}
			case *ssa.Field:
				if l, ok := x.X.(*ssa.UnOp); ok && loadFields[l] != nil {
					repl[x] = loadFields[l][x.Field]
					continue
				}
			case *ssa.Store:
				if a := asCand(x.Addr); a != nil {
					cells := fieldCells[a]
					if l, ok := x.Val.(*ssa.UnOp); ok && loadFields[l] != nil {
						for i, c := range cells {
							out = append(out, mk(&ssa.Store{Addr: c, Val: loadFields[l][i]}, b))
						}
						continue
					}
					for i, c := range cells {
						ft := c.Type().Underlying().(*types.Pointer).Elem()
						var v ssa.Value
						if k, isC := x.Val.(*ssa.Const); isC && k.Value == nil {
							v = ssa.NewConst(nil, ft)
						} else {
							fx := &ssa.Field{X: x.Val, Field: i}
							setField(fx, "typ", ft)
							setField(fx, "pos", x.Pos())
							out = append(out, mk(fx, b))
							v = fx
						}
						out = append(out, mk(&ssa.Store{Addr: c, Val: v}, b))
					}
					continue
				}
			case *ssa.DebugRef:
				if asCand(x.X) != nil {
					continue
				}
				if fa, ok := x.X.(*ssa.FieldAddr); ok && asCand(fa.X) != nil {
					continue
				}
				if l, ok := x.X.(*ssa.UnOp); ok && asCand(l.X) != nil {
					continue
				}
			}
			out = append(out, in)
		}
		b.Instrs = out
	}
	for _, b := range f.Blocks {
		for _, in := range b.Instrs {
			for _, op := range in.Operands(nil) {
				if *op == nil {
					continue
				}
				for i := 0; i < 8; i++ {
					r, ok := repl[*op]
					if !ok {
						break
					}
					*op = r
				}
			}
		}
	}
	var locals []*ssa.Alloc
	for _, l := range f.Locals {
		if cand[l] {
			if !l.Heap {
				locals = append(locals, fieldCells[l]...)
			}
			continue
		}
		locals = append(locals, l)
	}
	f.Locals = append(locals, newLocals...)
	return len(cand)
}

// ---- jump threading -----------------------------------------------------------------------------------------------------------------
//
// Inlining `v, err := helper()` leaves a join block of phis followed by `if err != nil`, although on every incoming edge the
// outcome of that test is already decided (the helper's error return hands out the error it has just tested, its success return
// hands out nil). threadJumps sends each such edge straight to the successor it is bound to take. The phis of the join are first
// demoted to local cells (a store at the end of each predecessor, a load at each use) so that the edit needs no SSA repair;
// promoteLocals then rebuilds the registers. The result is the control flow the code would have had without the helper: the
// error path and the success path never meet, and a phi no longer mixes the value of one with the placeholder of the other.

// noThread: packages whose rules are written against the source-level shape of the code.
var noThread = map[string]bool{"token": true}

// noUnroll: packages whose loops the rules look at as loops.
var noUnroll = map[string]bool{"token": true, "lexer": true, "parser": true, "hash": true}

func pruneUnreachable(f *ssa.Function) {
	reach := map[*ssa.BasicBlock]bool{}
	var walk func(b *ssa.BasicBlock)
	walk = func(b *ssa.BasicBlock) {
		if reach[b] {
			return
		}
		reach[b] = true
		for _, s := range b.Succs {
			walk(s)
		}
	}
	if len(f.Blocks) == 0 {
		return
	}
	walk(f.Blocks[0])
	if f.Recover != nil {
		walk(f.Recover)
	}
	var kept []*ssa.BasicBlock
	for _, b := range f.Blocks {
		if reach[b] {
			kept = append(kept, b)
		}
	}
	for _, b := range kept {
		var preds []*ssa.BasicBlock
		var keepIdx []int
		for i, p := range b.Preds {
			if reach[p] {
				preds = append(preds, p)
				keepIdx = append(keepIdx, i)
			}
		}
		if len(preds) != len(b.Preds) {
			for _, in := range b.Instrs {
				if phi, ok := in.(*ssa.Phi); ok {
					var ed []ssa.Value
					for _, i := range keepIdx {
						if i < len(phi.Edges) {
							ed = append(ed, phi.Edges[i])
						}
					}
					phi.Edges = ed
				}
			}
			b.Preds = preds
		}
	}
	for i, b := range kept {
		b.Index = i
	}
	f.Blocks = kept
}

// knownNil: at the end of block p, is v known to be nil (1), known to be non-nil (2), or neither (0)?
func knownNil(v ssa.Value, p *ssa.BasicBlock, dom map[*ssa.BasicBlock]map[*ssa.BasicBlock]bool) int {
	if isNilConst(v) {
		return 1
	}
	if definitelyNonNil(v) {
		return 2
	}
	for g := range dom[p] {
		iff, ok := lastInstr(g).(*ssa.If)
		if !ok || len(g.Succs) != 2 || g.Succs[0] == g.Succs[1] {
			continue
		}
		x, nonNilWhenTrue, isTest := errNilTest(iff.Cond)
		if !isTest {
			// also pointer / interface comparisons with nil
			if bo, isB := iff.Cond.(*ssa.BinOp); isB && (bo.Op == token.EQL || bo.Op == token.NEQ) {
				switch {
				case isNilConst(bo.Y):
					x, nonNilWhenTrue, isTest = bo.X, bo.Op == token.NEQ, true
				case isNilConst(bo.X):
					x, nonNilWhenTrue, isTest = bo.Y, bo.Op == token.NEQ, true
				}
			}
		}
		if !isTest || x != v {
			continue
		}
		for i, s := range g.Succs {
			if len(s.Preds) == 1 && (s == p || dom[p][s]) {
				if (i == 0) == nonNilWhenTrue {
					return 2
				}
				return 1
			}
		}
	}
	return 0
}

// mergeStraightLines joins a block that ends in an unconditional jump with its successor when that successor has no other
// predecessor (inlining leaves such chains: "merge of the helper's results" followed by "rest of the caller's block").
func mergeStraightLines(f *ssa.Function) int {
	n := 0
	for changed := true; changed; {
		changed = false
		for _, a := range f.Blocks {
			if len(a.Succs) != 1 {
				continue
			}
			b := a.Succs[0]
			if b == a || len(b.Preds) != 1 || b == f.Blocks[0] || b == f.Recover {
				continue
			}
			if _, isJump := lastInstr(a).(*ssa.Jump); !isJump {
				continue
			}
			// single-operand phis of b are just their operand
			repl := map[ssa.Value]ssa.Value{}
			var moved []ssa.Instruction
			for _, in := range b.Instrs {
				if phi, isPhi := in.(*ssa.Phi); isPhi {
					if len(phi.Edges) == 1 {
						repl[phi] = phi.Edges[0]
					}
					continue
				}
				moved = append(moved, in)
			}
			a.Instrs = a.Instrs[:len(a.Instrs)-1]
			for _, in := range moved {
				setField(in, "block", a)
				a.Instrs = append(a.Instrs, in)
			}
			a.Succs = b.Succs
			for _, s := range b.Succs {
				for k, p := range s.Preds {
					if p == b {
						s.Preds[k] = a
					}
				}
			}
			b.Succs, b.Preds, b.Instrs = nil, nil, nil
			if len(repl) > 0 {
				for _, blk := range f.Blocks {
					for _, in := range blk.Instrs {
						for _, op := range in.Operands(nil) {
							if *op != nil {
								if r, ok := repl[*op]; ok {
									*op = r
								}
							}
						}
					}
				}
			}
			var kept []*ssa.BasicBlock
			for _, blk := range f.Blocks {
				if blk != b {
					kept = append(kept, blk)
				}
			}
			for i, blk := range kept {
				blk.Index = i
			}
			f.Blocks = kept
			n++
			changed = true
			break
		}
	}
	return n
}

func threadJumps(f *ssa.Function) int {
	total := 0
	for round := 0; round < 12; round++ {
		mergeStraightLines(f)
		delete(domCache, f)
		dom := domSets(f)
		users := usersOf(f)
		done := false
		for _, b := range f.Blocks {
			iff, ok := lastInstr(b).(*ssa.If)
			if !ok || len(b.Preds) < 2 || len(b.Succs) != 2 || b.Succs[0] == b.Succs[1] || b == f.Blocks[0] {
				continue
			}
			// not a loop header; the block holds nothing but phis and instructions that may be repeated on the threaded
			// edge (computations, loads, stores into local cells): no calls, no sends
			isHeader := false
			for _, p := range b.Preds {
				if p == b || dom[p][b] {
					isHeader = true
				}
			}
			if isHeader || len(b.Instrs) > 24 {
				continue
			}
			var phis []*ssa.Phi
			var body []ssa.Instruction
			inB := map[ssa.Value]bool{}
			dupable := true
			for _, in := range b.Instrs[:len(b.Instrs)-1] {
				switch x := in.(type) {
				case *ssa.Phi:
					phis = append(phis, x)
					inB[x] = true
					continue
				case *ssa.BinOp, *ssa.FieldAddr, *ssa.IndexAddr, *ssa.Extract, *ssa.ChangeType, *ssa.Convert, *ssa.MakeInterface,
					*ssa.ChangeInterface, *ssa.Slice, *ssa.Field, *ssa.Index, *ssa.Lookup:
				case *ssa.UnOp:
					if x.Op == token.ARROW {
						dupable = false
					}
				case *ssa.Store:
					if _, local := x.Addr.(*ssa.Alloc); !local {
						if fa, isFA := x.Addr.(*ssa.FieldAddr); !isFA || baseAllocOf(fa) == nil {
							dupable = false
						}
					}
				case *ssa.DebugRef:
					continue
				default:
					dupable = false
				}
				if v, isVal := in.(ssa.Value); isVal {
					inB[v] = true
				}
				body = append(body, in)
			}
			if !dupable || len(phis) == 0 {
				continue
			}
			// evaluate the test for the edge from predecessor i
			var eval func(v ssa.Value, i int) (bool, bool)
			eval = func(v ssa.Value, i int) (bool, bool) {
				if phi, isPhi := v.(*ssa.Phi); isPhi && phi.Block() == b {
					v = phi.Edges[i]
				}
				if k, isC := constBool(v); isC {
					return k, true
				}
				switch x := v.(type) {
				case *ssa.UnOp:
					if x.Op == token.NOT && inB[x] {
						r, known := eval(x.X, i)
						return !r, known
					}
				case *ssa.BinOp:
					if !inB[x] {
						return false, false
					}
					// a comparison of two constants (after taking the phis' operands for this edge)
					ox, oy := x.X, x.Y
					if phi, isPhi := ox.(*ssa.Phi); isPhi && phi.Block() == b {
						ox = phi.Edges[i]
					}
					if phi, isPhi := oy.(*ssa.Phi); isPhi && phi.Block() == b {
						oy = phi.Edges[i]
					}
					if cx, okx := ox.(*ssa.Const); okx && cx.Value != nil {
						if cy, oky := oy.(*ssa.Const); oky && cy.Value != nil {
							switch x.Op {
							case token.EQL, token.NEQ, token.LSS, token.LEQ, token.GTR, token.GEQ:
								if cx.Value.Kind() == cy.Value.Kind() && cx.Value.Kind() != constant.Unknown {
									return constant.Compare(cx.Value, x.Op, cy.Value), true
								}
							}
						}
					}
					if x.Op != token.EQL && x.Op != token.NEQ {
						return false, false
					}
					var other ssa.Value
					switch {
					case isNilConst(x.Y):
						other = x.X
					case isNilConst(x.X):
						other = x.Y
					default:
						return false, false
					}
					if phi, isPhi := other.(*ssa.Phi); isPhi && phi.Block() == b {
						other = phi.Edges[i]
					} else if inB[other] {
						return false, false
					}
					switch knownNil(other, b.Preds[i], dom) {
					case 1:
						return x.Op == token.EQL, true
					case 2:
						return x.Op == token.NEQ, true
					}
				}
				return false, false
			}
			type plan struct {
				pred int
				to   *ssa.BasicBlock
			}
			var plans []plan
			for i := range b.Preds {
				if len(b.Preds[i].Succs) == 2 && b.Preds[i].Succs[0] == b.Preds[i].Succs[1] {
					continue
				}
				r, known := eval(iff.Cond, i)
				if !known {
					continue
				}
				to := b.Succs[1]
				if r {
					to = b.Succs[0]
				}
				if to != b && predIndex(to, b) >= 0 {
					plans = append(plans, plan{i, to})
				}
			}
			if len(plans) == 0 {
				continue
			}
			// (highest predecessor index first, so that the remaining indices stay valid while edges are moved)
			sort.Slice(plans, func(x, y int) bool { return plans[x].pred > plans[y].pred })
			entry := f.Blocks[0]
			newCell := func(t types.Type, comment string, pos token.Pos) *ssa.Alloc {
				cell := &ssa.Alloc{Comment: comment}
				setField(cell, "typ", types.NewPointer(t))
				setField(cell, "pos", pos)
				setField(cell, "block", entry)
				entry.Instrs = append([]ssa.Instruction{cell}, entry.Instrs...)
				f.Locals = append(f.Locals, cell)
				return cell
			}
			insertBefore := func(at *ssa.BasicBlock, before ssa.Instruction, in ssa.Instruction) {
				setField(in, "block", at)
				var out []ssa.Instruction
				for _, x := range at.Instrs {
					if x == before {
						out = append(out, in)
					}
					out = append(out, x)
				}
				at.Instrs = out
			}
			// loads replacing the uses of a value of b that lie outside b (or in phis elsewhere)
			replaceOutsideUses := func(v ssa.Value, cell *ssa.Alloc) {
				for _, u := range users[v] {
					if up, isPhi := u.(*ssa.Phi); isPhi {
						if up.Block() == b {
							continue
						}
						for m, e := range up.Edges {
							if e == v && m < len(up.Block().Preds) {
								pm := up.Block().Preds[m]
								l := &ssa.UnOp{Op: token.MUL, X: cell}
								setField(l, "typ", v.Type())
								setField(l, "pos", v.Pos())
								insertBefore(pm, lastInstr(pm), l)
								up.Edges[m] = l
							}
						}
						continue
					}
					if u.Block() == b {
						if _, isPhiVal := v.(*ssa.Phi); !isPhiVal {
							continue // later instructions of b use the value itself
						}
					}
					l := &ssa.UnOp{Op: token.MUL, X: cell}
					setField(l, "typ", v.Type())
					setField(l, "pos", v.Pos())
					insertBefore(u.Block(), u, l)
					for _, op := range u.Operands(nil) {
						if *op == v {
							*op = l
						}
					}
				}
			}
			// the copies of b's instructions for each threaded edge are made first (they refer to the phis' operands directly)
			type copyOf struct {
				blk  *ssa.BasicBlock
				vmap map[ssa.Value]ssa.Value
			}
			copies := map[int]copyOf{}
			// demote the non-phi values of b that are used outside b: a store right after the definition
			cells := map[ssa.Value]*ssa.Alloc{}
			for _, in := range body {
				v, isVal := in.(ssa.Value)
				if !isVal {
					continue
				}
				outside := false
				for _, u := range users[v] {
					if _, isPhi := u.(*ssa.Phi); isPhi || u.Block() != b {
						outside = true
					}
				}
				if !outside {
					continue
				}
				cell := newCell(v.Type(), v.Name(), v.Pos())
				cells[v] = cell
				st := &ssa.Store{Addr: cell, Val: v}
				setField(st, "block", b)
				var out []ssa.Instruction
				for _, x := range b.Instrs {
					out = append(out, x)
					if x == in {
						out = append(out, st)
					}
				}
				b.Instrs = out
			}
			// refresh the list of instructions to copy (the new stores belong to it)
			body = body[:0]
			for _, in := range b.Instrs[:len(b.Instrs)-1] {
				switch in.(type) {
				case *ssa.Phi, *ssa.DebugRef:
					continue
				}
				body = append(body, in)
			}
			for _, pl := range plans {
				e := &ssa.BasicBlock{Comment: "threaded"}
				setField(e, "parent", f)
				vm := map[ssa.Value]ssa.Value{}
				for _, phi := range phis {
					vm[phi] = phi.Edges[pl.pred]
				}
				for _, in := range body {
					cl := cloneInstr(in)
					for _, op := range cl.Operands(nil) {
						if *op != nil {
							if n, ok := vm[*op]; ok {
								*op = n
							}
						}
					}
					setField(cl, "block", e)
					e.Instrs = append(e.Instrs, cl)
					if v, isVal := in.(ssa.Value); isVal {
						vm[v] = cl.(ssa.Value)
					}
					if orig, ok := canonOrigOf[in]; ok {
						canonOrigOf[cl] = orig
					}
				}
				j := &ssa.Jump{}
				setField(j, "block", e)
				e.Instrs = append(e.Instrs, j)
				copies[pl.pred] = copyOf{e, vm}
			}
			// extend the targets' phis (operands defined in b are taken from the copy)
			for _, pl := range plans {
				j := predIndex(pl.to, b)
				for _, in := range pl.to.Instrs {
					tp, isPhi := in.(*ssa.Phi)
					if !isPhi {
						break
					}
					v := tp.Edges[j]
					if n, ok := copies[pl.pred].vmap[v]; ok {
						v = n
					}
					tp.Edges = append(tp.Edges, v)
				}
			}
			for v, cell := range cells {
				replaceOutsideUses(v, cell)
			}
			// demote the phis of b
			for _, phi := range phis {
				cell := newCell(phi.Type(), phi.Comment, phi.Pos())
				for i, p := range b.Preds {
					st := &ssa.Store{Addr: cell, Val: phi.Edges[i]}
					insertBefore(p, lastInstr(p), st)
				}
				replaceOutsideUses(phi, cell)
			}
			gone := map[ssa.Instruction]bool{}
			for _, phi := range phis {
				gone[phi] = true
			}
			removeInstrs(f, gone)
			// retarget the decided edges through their copies
			for _, pl := range plans {
				p := b.Preds[pl.pred]
				e := copies[pl.pred].blk
				for k, s := range p.Succs {
					if s == b {
						p.Succs[k] = e
						break
					}
				}
				b.Preds = append(b.Preds[:pl.pred:pl.pred], b.Preds[pl.pred+1:]...)
				e.Preds = []*ssa.BasicBlock{p}
				e.Succs = []*ssa.BasicBlock{pl.to}
				pl.to.Preds = append(pl.to.Preds, e)
				f.Blocks = append(f.Blocks, e)
			}
			total += len(plans)
			done = true
			break
		}
		if !done {
			break
		}
		pruneUnreachable(f)
		promoteLocals(f)
	}
	return total
}

// baseAllocOf: the local cell a chain of field addresses starts from, if any.
func baseAllocOf(fa *ssa.FieldAddr) *ssa.Alloc {
	var v ssa.Value = fa
	for {
		switch x := v.(type) {
		case *ssa.FieldAddr:
			v = x.X
		case *ssa.Alloc:
			return x
		default:
			return nil
		}
	}
}

// canonOrigOf: clone -> original instruction, shared with the inliner so that copies made by later passes still resolve
// their call-graph edges.
var canonOrigOf map[ssa.Instruction]ssa.Instruction

// ---- unrolling loops over literal tables ---------------------------------------------------------------------------------------------
//
// `for _, m := range []T{a, b, c} { … }` and a variadic helper inlined at a call with three arguments are loops whose trip count
// is a constant. Unrolling them turns "the k-th element of a local table" into plain values, so that a table of (flag, action)
// pairs analyses like the chain of `if flag { action }` it stands for, and `text("a", x, "b")` like three writes. A loop is
// unrolled when it is innermost, counts an index from a constant in steps of one up to a constant bound (a constant, or the
// length of a slice of a local array), runs at most 8 times and is small. The values that cross the loop's boundary are demoted
// to cells first (promoteLocals rebuilds the registers), so the copies need no SSA repair.

type natLoop struct {
	header  *ssa.BasicBlock
	body    map[*ssa.BasicBlock]bool
	latches []*ssa.BasicBlock
}

func naturalLoops(f *ssa.Function) []*natLoop {
	delete(domCache, f)
	dom := domSets(f)
	byHeader := map[*ssa.BasicBlock]*natLoop{}
	var out []*natLoop
	for _, u := range f.Blocks {
		for _, h := range u.Succs {
			if h != u && !dom[u][h] {
				continue
			}
			l := byHeader[h]
			if l == nil {
				l = &natLoop{header: h, body: map[*ssa.BasicBlock]bool{h: true}}
				byHeader[h] = l
				out = append(out, l)
			}
			l.latches = append(l.latches, u)
			work := []*ssa.BasicBlock{u}
			for len(work) > 0 {
				x := work[len(work)-1]
				work = work[:len(work)-1]
				if l.body[x] {
					continue
				}
				l.body[x] = true
				work = append(work, x.Preds...)
			}
		}
	}
	return out
}

func cellFor(f *ssa.Function, t types.Type, comment string, pos token.Pos) *ssa.Alloc {
	entry := f.Blocks[0]
	cell := &ssa.Alloc{Comment: comment}
	setField(cell, "typ", types.NewPointer(t))
	setField(cell, "pos", pos)
	setField(cell, "block", entry)
	entry.Instrs = append([]ssa.Instruction{cell}, entry.Instrs...)
	f.Locals = append(f.Locals, cell)
	return cell
}

func insertBeforeInstr(at *ssa.BasicBlock, before, in ssa.Instruction) {
	setField(in, "block", at)
	var out []ssa.Instruction
	for _, x := range at.Instrs {
		if x == before {
			out = append(out, in)
		}
		out = append(out, x)
	}
	at.Instrs = out
}

func insertAfterInstr(at *ssa.BasicBlock, after, in ssa.Instruction) {
	setField(in, "block", at)
	var out []ssa.Instruction
	for _, x := range at.Instrs {
		out = append(out, x)
		if x == after {
			out = append(out, in)
		}
	}
	at.Instrs = out
}

// demoteUses replaces every use of v selected by keep (nil = all) with a load of cell placed right before the use (for a phi
// operand: at the end of the corresponding predecessor).
func demoteUses(v ssa.Value, cell *ssa.Alloc, users []ssa.Instruction, sel func(u ssa.Instruction) bool) {
	mk := func() *ssa.UnOp {
		l := &ssa.UnOp{Op: token.MUL, X: cell}
		setField(l, "typ", v.Type())
		setField(l, "pos", v.Pos())
		return l
	}
	for _, u := range users {
		if sel != nil && !sel(u) {
			continue
		}
		if up, isPhi := u.(*ssa.Phi); isPhi {
			for m, e := range up.Edges {
				if e == v && m < len(up.Block().Preds) {
					pm := up.Block().Preds[m]
					l := mk()
					insertBeforeInstr(pm, lastInstr(pm), l)
					up.Edges[m] = l
				}
			}
			continue
		}
		l := mk()
		insertBeforeInstr(u.Block(), u, l)
		for _, op := range u.Operands(nil) {
			if *op == v {
				*op = l
			}
		}
	}
}

func unrollLiteralLoops(f *ssa.Function) int {
	total := 0
	for round := 0; round < 6; round++ {
		loops := naturalLoops(f)
		users := usersOf(f)
		done := false
		for _, l := range loops {
			h := l.header
			iff, ok := lastInstr(h).(*ssa.If)
			if !ok || len(h.Succs) != 2 {
				continue
			}
			inner := false
			for _, o := range loops {
				if o != l && l.body[o.header] {
					inner = true
				}
			}
			if inner {
				continue
			}
			var bodyEntry, exit *ssa.BasicBlock
			switch {
			case l.body[h.Succs[0]] && !l.body[h.Succs[1]]:
				bodyEntry, exit = h.Succs[0], h.Succs[1]
			default:
				continue // (the exit on the true edge does not occur for counted loops)
			}
			// early exits: blocks outside the loop that are entered only from it (`if hit { return f(x) }`) belong to the iteration
			// that reaches them and are copied with it
			for grown := true; grown; {
				grown = false
				for _, b := range f.Blocks {
					if l.body[b] || b == exit || b == f.Blocks[0] || len(b.Preds) == 0 {
						continue
					}
					all := true
					for _, p := range b.Preds {
						if !l.body[p] {
							all = false
						}
					}
					if all && len(b.Instrs) <= 40 {
						l.body[b] = true
						grown = true
					}
				}
			}
			size := 0
			for b := range l.body {
				size += len(b.Instrs)
			}
			// the induction phi
			var p *ssa.Phi
			var inc *ssa.BinOp
			c0 := int64(0)
			var phis []*ssa.Phi
			for _, in := range h.Instrs {
				phi, isPhi := in.(*ssa.Phi)
				if !isPhi {
					break
				}
				phis = append(phis, phi)
				if p != nil {
					continue
				}
				var init *int64
				var step *ssa.BinOp
				good := true
				for i, pred := range h.Preds {
					if l.body[pred] {
						bo, isB := phi.Edges[i].(*ssa.BinOp)
						if !isB || bo.Op != token.ADD || bo.X != ssa.Value(phi) || (step != nil && step != bo) {
							good = false
							break
						}
						if k, isC := constInt(bo.Y); !isC || k != 1 {
							good = false
							break
						}
						step = bo
					} else {
						k, isC := constInt(phi.Edges[i])
						if !isC || (init != nil && *init != k) {
							good = false
							break
						}
						init = &k
					}
				}
				if good && init != nil && step != nil {
					p, inc, c0 = phi, step, *init
				}
			}
			if p == nil {
				continue
			}
			// the bound
			cond, isB := iff.Cond.(*ssa.BinOp)
			if !isB || cond.Op != token.LSS || (cond.X != ssa.Value(p) && cond.X != ssa.Value(inc)) {
				continue
			}
			bound := int64(-1)
			if k, isC := constInt(cond.Y); isC {
				bound = k
			} else if call, isCall := cond.Y.(*ssa.Call); isCall {
				if bi, isBI := call.Call.Value.(*ssa.Builtin); isBI && bi.Name() == "len" && len(call.Call.Args) == 1 {
					if n, okN := literalLen(call.Call.Args[0]); okN {
						bound = n
					}
				}
			}
			v0 := c0
			if cond.X == ssa.Value(inc) {
				v0 = c0 + 1
			}
			trips := bound - v0
			if bound < 0 || v0 < 0 || trips < 1 || trips > 8 || int64(size)*trips > 600 {
				continue
			}
			// the counter is not used outside the loop
			outside := func(u ssa.Instruction) bool {
				if up, isPhi := u.(*ssa.Phi); isPhi {
					return !l.body[up.Block()]
				}
				return !l.body[u.Block()]
			}
			escapes := false
			for _, v := range []ssa.Value{p, inc} {
				for _, u := range users[v] {
					if outside(u) {
						escapes = true
					}
				}
			}
			if escapes {
				continue
			}
			// demote: the other header phis, and every value of the loop that is used outside it
			for _, phi := range phis {
				if phi == p {
					continue
				}
				cell := cellFor(f, phi.Type(), phi.Comment, phi.Pos())
				for i, pred := range h.Preds {
					st := &ssa.Store{Addr: cell, Val: phi.Edges[i]}
					insertBeforeInstr(pred, lastInstr(pred), st)
				}
				demoteUses(phi, cell, users[phi], nil)
			}
			gone := map[ssa.Instruction]bool{}
			for _, phi := range phis {
				gone[phi] = true // (the counter's phi is replaced by constants in the copies)
			}
			for b := range l.body {
				for _, in := range append([]ssa.Instruction(nil), b.Instrs...) {
					v, isVal := in.(ssa.Value)
					if !isVal || gone[in] {
						continue
					}
					if _, isPhi := in.(*ssa.Phi); isPhi {
						continue
					}
					esc := false
					for _, u := range users[v] {
						if outside(u) {
							esc = true
						}
					}
					if !esc {
						continue
					}
					cell := cellFor(f, v.Type(), v.Name(), v.Pos())
					st := &ssa.Store{Addr: cell, Val: v}
					insertAfterInstr(b, in, st)
					demoteUses(v, cell, users[v], outside)
				}
			}
			removeInstrs(f, gone)
			// copies
			order := rpo([]*ssa.BasicBlock{h})
			var loopBlocks []*ssa.BasicBlock
			for _, b := range order {
				if l.body[b] {
					loopBlocks = append(loopBlocks, b)
				}
			}
			// (rpo from the header may wander outside; restrict and keep the header first)
			type copyT struct {
				blk  map[*ssa.BasicBlock]*ssa.BasicBlock
				vmap map[ssa.Value]ssa.Value
			}
			mkCopy := func(k int64, onlyHeader bool) copyT {
				cp := copyT{map[*ssa.BasicBlock]*ssa.BasicBlock{}, map[ssa.Value]ssa.Value{}}
				cp.vmap[p] = ssa.NewConst(constant.MakeInt64(c0+k), p.Type())
				cp.vmap[inc] = ssa.NewConst(constant.MakeInt64(c0+k+1), inc.Type())
				for _, b := range loopBlocks {
					if onlyHeader && b != h {
						continue
					}
					nb := &ssa.BasicBlock{Comment: fmt.Sprintf("%s#%d", b.Comment, k)}
					setField(nb, "parent", f)
					cp.blk[b] = nb
				}
				for _, b := range loopBlocks {
					nb := cp.blk[b]
					if nb == nil {
						continue
					}
					for _, in := range b.Instrs {
						if in == ssa.Instruction(inc) {
							continue
						}
						if in == lastInstr(b) && b == h {
							continue // the header's test is decided: see below
						}
						cl := cloneInstr(in)
						setField(cl, "block", nb)
						nb.Instrs = append(nb.Instrs, cl)
						if v, isVal := in.(ssa.Value); isVal {
							cp.vmap[v] = cl.(ssa.Value)
						}
						if orig, okO := canonOrigOf[in]; okO {
							canonOrigOf[cl] = orig
						} else {
							canonOrigOf[cl] = in
						}
					}
				}
				for _, nb := range cp.blk {
					for _, in := range nb.Instrs {
						for _, op := range in.Operands(nil) {
							if *op != nil {
								if n, okM := cp.vmap[*op]; okM {
									*op = n
								}
							}
						}
					}
				}
				return cp
			}
			var copies []copyT
			for k := int64(0); k < trips; k++ {
				copies = append(copies, mkCopy(k, false))
			}
			final := mkCopy(trips, true)
			headerOf := func(k int) *ssa.BasicBlock {
				if k < len(copies) {
					return copies[k].blk[h]
				}
				return final.blk[h]
			}
			link := func(from, to *ssa.BasicBlock) {
				from.Succs = append(from.Succs, to)
				to.Preds = append(to.Preds, from)
			}
			// exits: for every edge u -> x leaving the loop, x gets the copies of u as predecessors (and phi operands)
			type exitEdge struct {
				u, x *ssa.BasicBlock
			}
			var exits []exitEdge
			for _, b := range loopBlocks {
				for _, s := range b.Succs {
					if !l.body[s] {
						exits = append(exits, exitEdge{b, s})
					}
				}
			}
			phiOperand := func(x, u *ssa.BasicBlock, phi *ssa.Phi, cp copyT) ssa.Value {
				j := predIndex(x, u)
				v := phi.Edges[j]
				if n, okM := cp.vmap[v]; okM {
					return n
				}
				return v
			}
			for k, cp := range copies {
				for _, b := range loopBlocks {
					nb := cp.blk[b]
					if b == h {
						j := &ssa.Jump{}
						setField(j, "block", nb)
						nb.Instrs = append(nb.Instrs, j)
						link(nb, cp.blk[bodyEntry])
						continue
					}
					for _, s := range b.Succs {
						switch {
						case s == h:
							link(nb, headerOf(k+1))
						case l.body[s]:
							link(nb, cp.blk[s])
						default:
							for _, in := range s.Instrs {
								if phi, isPhi := in.(*ssa.Phi); isPhi {
									phi.Edges = append(phi.Edges, phiOperand(s, b, phi, cp))
								}
							}
							link(nb, s)
						}
					}
				}
			}
			{
				nb := final.blk[h]
				j := &ssa.Jump{}
				setField(j, "block", nb)
				nb.Instrs = append(nb.Instrs, j)
				for _, in := range exit.Instrs {
					if phi, isPhi := in.(*ssa.Phi); isPhi {
						phi.Edges = append(phi.Edges, phiOperand(exit, h, phi, final))
					}
				}
				link(nb, exit)
			}
			// remove the original edges into the exits
			for _, e := range exits {
				j := predIndex(e.x, e.u)
				if j < 0 {
					continue
				}
				e.x.Preds = append(e.x.Preds[:j:j], e.x.Preds[j+1:]...)
				for _, in := range e.x.Instrs {
					if phi, isPhi := in.(*ssa.Phi); isPhi && j < len(phi.Edges) {
						phi.Edges = append(phi.Edges[:j:j], phi.Edges[j+1:]...)
					}
				}
			}
			// entry edges
			for _, o := range append([]*ssa.BasicBlock(nil), h.Preds...) {
				if l.body[o] {
					continue
				}
				for k, s := range o.Succs {
					if s == h {
						o.Succs[k] = headerOf(0)
						headerOf(0).Preds = append(headerOf(0).Preds, o)
					}
				}
			}
			var kept []*ssa.BasicBlock
			for _, b := range f.Blocks {
				if !l.body[b] {
					kept = append(kept, b)
				}
			}
			for _, cp := range copies {
				for _, b := range loopBlocks {
					kept = append(kept, cp.blk[b])
				}
			}
			kept = append(kept, final.blk[h])
			for i, b := range kept {
				b.Index = i
			}
			f.Blocks = kept
			total++
			done = true
			break
		}
		if !done {
			break
		}
		pruneUnreachable(f)
		promoteLocals(f)
	}
	return total
}

// literalLen: the length of a slice that is the whole of a local array (a slice / variadic literal).
func literalLen(v ssa.Value) (int64, bool) {
	sl, ok := v.(*ssa.Slice)
	if !ok || sl.Low != nil || sl.High != nil || sl.Max != nil {
		return 0, false
	}
	pt, ok := sl.X.Type().Underlying().(*types.Pointer)
	if !ok {
		return 0, false
	}
	arr, ok := pt.Elem().Underlying().(*types.Array)
	if !ok {
		return 0, false
	}
	if _, isAlloc := sl.X.(*ssa.Alloc); !isAlloc {
		return 0, false
	}
	return arr.Len(), true
}

// splitArrays splits a local array that is only indexed with constants (directly or through a slice of the whole of it) into
// one cell per element; len/cap of the slice become constants.
func splitArrays(f *ssa.Function) int {
	users := usersOf(f)
	n := 0
	repl := map[ssa.Value]ssa.Value{}
	dead := map[ssa.Instruction]bool{}
	for _, b := range f.Blocks {
		for _, in := range append([]ssa.Instruction(nil), b.Instrs...) {
			a, ok := in.(*ssa.Alloc)
			if !ok {
				continue
			}
			arr, ok := a.Type().Underlying().(*types.Pointer).Elem().Underlying().(*types.Array)
			if !ok || arr.Len() == 0 || arr.Len() > 16 {
				continue
			}
			good := true
			var idx []*ssa.IndexAddr
			var lens []*ssa.Call
			var slices []*ssa.Slice
			elemUseOK := func(ia *ssa.IndexAddr) bool {
				if _, isC := constInt(ia.Index); !isC {
					return false
				}
				for _, u := range users[ia] {
					switch x := u.(type) {
					case *ssa.Store:
						if x.Addr != ssa.Value(ia) || x.Val == ssa.Value(ia) {
							return false
						}
					case *ssa.UnOp:
						if x.Op != token.MUL {
							return false
						}
					case *ssa.FieldAddr:
						if x.X != ssa.Value(ia) {
							return false
						}
					case *ssa.DebugRef:
					default:
						return false
					}
				}
				return true
			}
			for _, u := range users[a] {
				switch x := u.(type) {
				case *ssa.IndexAddr:
					if x.X != ssa.Value(a) || !elemUseOK(x) {
						good = false
					}
					idx = append(idx, x)
				case *ssa.Slice:
					if x.X != ssa.Value(a) || x.Low != nil || x.High != nil || x.Max != nil {
						good = false
						break
					}
					slices = append(slices, x)
					for _, su := range users[x] {
						switch y := su.(type) {
						case *ssa.IndexAddr:
							if y.X != ssa.Value(x) || !elemUseOK(y) {
								good = false
							}
							idx = append(idx, y)
						case *ssa.Call:
							bi, isBI := y.Call.Value.(*ssa.Builtin)
							if !isBI || (bi.Name() != "len" && bi.Name() != "cap") {
								good = false
							}
							lens = append(lens, y)
						case *ssa.DebugRef:
						default:
							good = false
						}
					}
				case *ssa.DebugRef:
				default:
					good = false
				}
			}
			if !good || len(idx) == 0 {
				continue
			}
			cells := make([]*ssa.Alloc, arr.Len())
			for i := range cells {
				c := &ssa.Alloc{Comment: fmt.Sprintf("%s[%d]", a.Comment, i), Heap: a.Heap}
				setField(c, "typ", types.NewPointer(arr.Elem()))
				setField(c, "pos", a.Pos())
				insertBeforeInstr(b, a, c)
				cells[i] = c
				if !a.Heap {
					f.Locals = append(f.Locals, c)
				}
			}
			for _, ia := range idx {
				k, _ := constInt(ia.Index)
				if k < 0 || k >= arr.Len() {
					continue
				}
				repl[ia] = cells[k]
				dead[ia] = true
			}
			for _, call := range lens {
				repl[call] = ssa.NewConst(constant.MakeInt64(arr.Len()), call.Type())
				dead[call] = true
			}
			for _, s := range slices {
				dead[s] = true
			}
			dead[a] = true
			n++
		}
	}
	if n == 0 {
		return 0
	}
	removeInstrs(f, dead)
	for _, b := range f.Blocks {
		for _, in := range b.Instrs {
			for _, op := range in.Operands(nil) {
				if *op != nil {
					if r, ok := repl[*op]; ok {
						*op = r
					}
				}
			}
		}
	}
	var locals []*ssa.Alloc
	for _, l := range f.Locals {
		if !dead[l] {
			locals = append(locals, l)
		}
	}
	f.Locals = locals
	return n
}

// ---- calls through a phi of functions ---------------------------------------------------------------------------------------
//
// `decide := policyA; if flag { decide = policyB }; ... decide(x)` leaves a call whose callee is a phi of function
// constants. The call is split into one static call per alternative, selected by a synthetic comparison "callee == f_i":
//
//	B: ...; r = callee(args); rest      =>   B: ...; if callee == f1 goto C1 else C2
//	                                         C1: r1 = f1(args); jump D      C2: r2 = f2(args); jump D
//	                                         D: r = phi [C1: r1, C2: r2]; rest
//
// The next inlining pass then inlines the alternatives, and the guard "callee == f_i" stands for the conditions of the
// phi's incoming edge that carries f_i (fnInfo.expandGuards, pathState.branch).

// funcAlternatives: the module functions a call's callee value can be (through phis and type changes), or nil.
func funcAlternatives(v ssa.Value) []*ssa.Function {
	var out []*ssa.Function
	seen := map[ssa.Value]bool{}
	have := map[*ssa.Function]bool{}
	ok := true
	var walk func(v ssa.Value)
	walk = func(v ssa.Value) {
		if seen[v] || !ok {
			return
		}
		seen[v] = true
		switch x := v.(type) {
		case *ssa.Phi:
			for _, e := range x.Edges {
				walk(e)
			}
		case *ssa.ChangeType:
			walk(x.X)
		case *ssa.Function:
			if len(x.Blocks) == 0 || !inModule(x) {
				ok = false
				return
			}
			if !have[x] {
				have[x] = true
				out = append(out, x)
			}
		default:
			ok = false
		}
	}
	if _, isPhi := v.(*ssa.Phi); !isPhi {
		return nil
	}
	walk(v)
	if !ok || len(out) < 2 || len(out) > 4 {
		return nil
	}
	return out
}

// funcConstOf: the function a value is, looking through type changes.
func funcConstOf(v ssa.Value) *ssa.Function {
	for {
		switch x := v.(type) {
		case *ssa.ChangeType:
			v = x.X
		case *ssa.Function:
			return x
		default:
			return nil
		}
	}
}

// funcEqTest: cond is one of the synthetic comparisons made by splitFuncPhiCalls.
func funcEqTest(cond ssa.Value) (ssa.Value, *ssa.Function, bool) {
	bin, ok := cond.(*ssa.BinOp)
	if !ok || bin.Op != token.EQL {
		return nil, nil, false
	}
	f, isF := bin.Y.(*ssa.Function)
	if !isF {
		return nil, nil, false
	}
	if _, isSig := bin.X.Type().Underlying().(*types.Signature); !isSig {
		return nil, nil, false
	}
	return bin.X, f, true
}

func splitFuncPhiCalls(f *ssa.Function) int {
	n := 0
	for changed := true; changed; {
		changed = false
		for _, b := range f.Blocks {
			for idx, in := range b.Instrs {
				call, ok := in.(*ssa.Call)
				if !ok || call.Call.IsInvoke() {
					continue
				}
				alts := funcAlternatives(call.Call.Value)
				if alts == nil {
					continue
				}
				mk := func(comment string) *ssa.BasicBlock {
					nb := &ssa.BasicBlock{Comment: comment}
					setField(nb, "parent", f)
					f.Blocks = append(f.Blocks, nb)
					return nb
				}
				put := func(nb *ssa.BasicBlock, i ssa.Instruction) {
					setField(i, "block", nb)
					nb.Instrs = append(nb.Instrs, i)
				}
				// D takes over the rest of b and b's successors
				d := mk(b.Comment + ".called")
				rest := append([]ssa.Instruction(nil), b.Instrs[idx+1:]...)
				b.Instrs = b.Instrs[:idx]
				d.Succs = b.Succs
				for _, s := range d.Succs {
					for i, p := range s.Preds {
						if p == b {
							s.Preds[i] = d
						}
					}
				}
				b.Succs = nil
				var results []ssa.Value
				var cbs []*ssa.BasicBlock
				for i, alt := range alts {
					cb := mk(fmt.Sprintf("%s.callee%d", b.Comment, i))
					nc := *call
					nc.Call.Value = alt
					nc.Call.Args = append([]ssa.Value(nil), call.Call.Args...)
					setField(&nc, "referrers", nil)
					put(cb, &nc)
					if canonOrigOf != nil {
						if o, has := canonOrigOf[call]; has {
							canonOrigOf[&nc] = o
						} else {
							canonOrigOf[&nc] = call
						}
					}
					put(cb, &ssa.Jump{})
					cb.Succs = []*ssa.BasicBlock{d}
					d.Preds = append(d.Preds, cb)
					results = append(results, &nc)
					cbs = append(cbs, cb)
				}
				cur := b
				for i := 0; i < len(alts)-1; i++ {
					test := &ssa.BinOp{Op: token.EQL, X: call.Call.Value, Y: alts[i]}
					setField(test, "typ", types.Typ[types.Bool])
					setField(test, "pos", call.Pos())
					put(cur, test)
					put(cur, &ssa.If{Cond: test})
					if i == len(alts)-2 {
						cur.Succs = []*ssa.BasicBlock{cbs[i], cbs[i+1]}
						cbs[i].Preds = []*ssa.BasicBlock{cur}
						cbs[i+1].Preds = []*ssa.BasicBlock{cur}
						break
					}
					nt := mk(fmt.Sprintf("%s.test%d", b.Comment, i+1))
					cur.Succs = []*ssa.BasicBlock{cbs[i], nt}
					cbs[i].Preds = []*ssa.BasicBlock{cur}
					nt.Preds = []*ssa.BasicBlock{cur}
					cur = nt
				}
				// the merged result
				var merged ssa.Value
				if call.Type() != nil {
					if tup, isTup := call.Type().(*types.Tuple); !isTup || tup.Len() > 0 {
						phi := &ssa.Phi{Comment: "callee result", Edges: results}
						setField(phi, "typ", call.Type())
						setField(phi, "pos", call.Pos())
						put(d, phi)
						merged = phi
					}
				}
				for _, ri := range rest {
					put(d, ri)
					if merged != nil {
						for _, op := range ri.Operands(nil) {
							if *op == ssa.Value(call) {
								*op = merged
							}
						}
					}
				}
				// uses of the call in other blocks
				if merged != nil {
					for _, ob := range f.Blocks {
						if ob == d {
							continue
						}
						for _, oi := range ob.Instrs {
							for _, op := range oi.Operands(nil) {
								if *op == ssa.Value(call) {
									*op = merged
								}
							}
						}
					}
				}
				for i, blk := range f.Blocks {
					blk.Index = i
				}
				delete(domCache, f)
				n++
				changed = true
				break
			}
			if changed {
				break
			}
		}
	}
	return n
}

// ---- function values kept in captured cells ---------------------------------------------------------------------------------
//
// A helper that starts goroutines and is handed a callback (`fanOut(jobs, n, work)` with `emit := func(r R) { results <- r }`)
// leaves, after it has been inlined into its caller H, cells of H that hold a function value, are stored once before the
// goroutine closures are made and are only loaded inside them. resolveFuncCells gives the goroutine closure G the value itself:
//   - a cell holding a function constant: every load of it in G becomes that function (the next pass inlines the call);
//   - a cell holding a closure F over other cells of H: G receives those cells as further free variables and every load becomes
//     `make closure F [those free variables]` inside G (the next pass inlines the call of a closure made in the same function).
// Only cells with exactly one store in H and none in any closure are touched, and only when the store dominates the
// MakeClosure of G.

func resolveFuncCells(h *ssa.Function) int {
	if len(h.Blocks) == 0 {
		return 0
	}
	delete(domCache, h)
	dom := domSets(h)
	// closures made in h and what they bind
	type made struct {
		mc *ssa.MakeClosure
		fn *ssa.Function
	}
	var closures []made
	for _, b := range h.Blocks {
		for _, in := range b.Instrs {
			if mc, ok := in.(*ssa.MakeClosure); ok {
				if fn, _ := mc.Fn.(*ssa.Function); fn != nil && len(fn.Blocks) > 0 {
					closures = append(closures, made{mc, fn})
				}
			}
		}
	}
	if len(closures) == 0 {
		return 0
	}
	storesIn := func(fn *ssa.Function, addr ssa.Value) []*ssa.Store {
		var out []*ssa.Store
		for _, b := range fn.Blocks {
			for _, in := range b.Instrs {
				if st, ok := in.(*ssa.Store); ok && st.Addr == addr {
					out = append(out, st)
				}
			}
		}
		return out
	}
	instrBefore := func(a, b ssa.Instruction) bool {
		if a.Block() == b.Block() {
			for _, in := range a.Block().Instrs {
				if in == a {
					return true
				}
				if in == b {
					return false
				}
			}
		}
		return dom[b.Block()][a.Block()] // dom[x] is the set of blocks that dominate x
	}
	n := 0
	for _, b := range h.Blocks {
		for _, in := range b.Instrs {
			cell, ok := in.(*ssa.Alloc)
			if !ok {
				continue
			}
			if _, isSig := deref(cell.Type()).Underlying().(*types.Signature); !isSig {
				continue
			}
			sts := storesIn(h, cell)
			if len(sts) != 1 {
				continue
			}
			// no store through the free variable in any closure; the cell is not used in any other way in h
			clean := true
			for _, cl := range closures {
				for i, bd := range cl.mc.Bindings {
					if bd == ssa.Value(cell) && i < len(cl.fn.FreeVars) && len(storesIn(cl.fn, cl.fn.FreeVars[i])) > 0 {
						clean = false
					}
				}
			}
			for _, hb := range h.Blocks {
				for _, hi := range hb.Instrs {
					switch x := hi.(type) {
					case *ssa.Store:
						if x.Val == ssa.Value(cell) {
							clean = false
						}
					case *ssa.MakeClosure, *ssa.UnOp, *ssa.DebugRef:
					default:
						for _, op := range hi.Operands(nil) {
							if *op == ssa.Value(cell) {
								clean = false
							}
						}
					}
				}
			}
			if !clean {
				continue
			}
			val := sts[0].Val
			for ct, isCT := val.(*ssa.ChangeType); isCT; ct, isCT = val.(*ssa.ChangeType) {
				val = ct.X
			}
			for _, cl := range closures {
				if !instrBefore(sts[0], cl.mc) {
					continue
				}
				for i, bd := range cl.mc.Bindings {
					if bd != ssa.Value(cell) || i >= len(cl.fn.FreeVars) {
						continue
					}
					fv := cl.fn.FreeVars[i]
					// the loads of the cell inside the closure
					var loads []*ssa.UnOp
					for _, gb := range cl.fn.Blocks {
						for _, gi := range gb.Instrs {
							if u, ok := gi.(*ssa.UnOp); ok && u.Op == token.MUL && u.X == ssa.Value(fv) {
								loads = append(loads, u)
							}
						}
					}
					if len(loads) == 0 {
						continue
					}
					var repl ssa.Value
					switch v := val.(type) {
					case *ssa.Function:
						repl = v
					case *ssa.MakeClosure:
						inner, _ := v.Fn.(*ssa.Function)
						if inner == nil || inner == cl.fn {
							continue
						}
						// every binding of the inner closure is a cell of h: hand each to the outer closure as a free variable
						var binds []ssa.Value
						okBinds := true
						for _, ib := range v.Bindings {
							if _, isCell := ib.(*ssa.Alloc); !isCell {
								okBinds = false
								break
							}
							var have ssa.Value
							for j, ob := range cl.mc.Bindings {
								if ob == ib && j < len(cl.fn.FreeVars) {
									have = cl.fn.FreeVars[j]
								}
							}
							if have == nil {
								nfv := &ssa.FreeVar{}
								setField(nfv, "name", ib.Name()+"$shared")
								setField(nfv, "typ", ib.Type())
								setField(nfv, "pos", ib.Pos())
								setField(nfv, "parent", cl.fn)
								cl.fn.FreeVars = append(cl.fn.FreeVars, nfv)
								cl.mc.Bindings = append(cl.mc.Bindings, ib)
								have = nfv
							}
							binds = append(binds, have)
						}
						if !okBinds {
							continue
						}
						nmc := &ssa.MakeClosure{Fn: inner, Bindings: binds}
						setField(nmc, "typ", v.Type())
						setField(nmc, "pos", v.Pos())
						setField(nmc, "block", cl.fn.Blocks[0])
						// after the allocations at the top of the entry block
						entry := cl.fn.Blocks[0]
						entry.Instrs = append([]ssa.Instruction{nmc}, entry.Instrs...)
						repl = nmc
					default:
						continue
					}
					dead := map[ssa.Instruction]bool{}
					for _, u := range loads {
						for _, gb := range cl.fn.Blocks {
							for _, gi := range gb.Instrs {
								for _, op := range gi.Operands(nil) {
									if *op == ssa.Value(u) {
										*op = repl
									}
								}
							}
						}
						dead[u] = true
					}
					removeInstrs(cl.fn, dead)
					n++
				}
			}
			// a cell nobody loads any more: its store (and with it the closure that was kept there) goes
			loaded := false
			for _, hb := range h.Blocks {
				for _, hi := range hb.Instrs {
					if u, ok := hi.(*ssa.UnOp); ok && u.Op == token.MUL && u.X == ssa.Value(cell) {
						loaded = true
					}
				}
			}
			for _, cl := range closures {
				for i, bd := range cl.mc.Bindings {
					if bd != ssa.Value(cell) || i >= len(cl.fn.FreeVars) {
						continue
					}
					for _, gb := range cl.fn.Blocks {
						for _, gi := range gb.Instrs {
							for _, op := range gi.Operands(nil) {
								if *op == ssa.Value(cl.fn.FreeVars[i]) {
									loaded = true
								}
							}
						}
					}
				}
			}
			if !loaded && n > 0 {
				removeInstrs(h, map[ssa.Instruction]bool{sts[0]: true})
				dropDeadClosures(h)
			}
		}
	}
	return n
}

// splitPhiReturns undoes the merge an inlined `return helper()` leaves behind: a block that holds nothing but phis and a
// return, entered only by jumps, is dissolved into one return per predecessor (each with the phi operands of its edge), so
// that "the return with a nil error" and "the return with the error" are separate sites again, as they are when the code is
// written out in place.
func splitPhiReturns(f *ssa.Function) int {
	n := 0
	for changed := true; changed; {
		changed = false
		for _, b := range f.Blocks {
			if len(b.Preds) < 2 || b == f.Blocks[0] || b == f.Recover {
				continue
			}
			ret, ok := lastInstr(b).(*ssa.Return)
			if !ok {
				continue
			}
			var phis []*ssa.Phi
			simple := true
			for _, in := range b.Instrs[:len(b.Instrs)-1] {
				switch x := in.(type) {
				case *ssa.Phi:
					phis = append(phis, x)
				case *ssa.DebugRef:
				default:
					simple = false
				}
			}
			if !simple || len(phis) == 0 {
				continue
			}
			for _, p := range b.Preds {
				if _, isJump := lastInstr(p).(*ssa.Jump); !isJump || len(p.Succs) != 1 || p == b {
					simple = false
				}
			}
			// the phis are used by the return only
			users := usersOf(f)
			for _, phi := range phis {
				for _, u := range users[phi] {
					if u != ssa.Instruction(ret) {
						if up, isPhi := u.(*ssa.Phi); !isPhi || up.Block() != b {
							simple = false
						}
					}
				}
			}
			if !simple {
				continue
			}
			for i, p := range b.Preds {
				nr := &ssa.Return{}
				for _, res := range ret.Results {
					v := res
					if phi, isPhi := res.(*ssa.Phi); isPhi && phi.Block() == b && i < len(phi.Edges) {
						v = phi.Edges[i]
					}
					nr.Results = append(nr.Results, v)
				}
				setField(nr, "pos", ret.Pos())
				setField(nr, "block", p)
				if canonOrigOf != nil {
					if o, has := canonOrigOf[ret]; has {
						canonOrigOf[nr] = o
					} else {
						canonOrigOf[nr] = ret
					}
				}
				p.Instrs[len(p.Instrs)-1] = nr
				p.Succs = nil
			}
			b.Preds = nil
			pruneUnreachable(f)
			delete(domCache, f)
			n++
			changed = true
			break
		}
	}
	return n
}

// ---- struct values -----------------------------------------------------------------------------------------------------------
//
// A helper that returns (someStruct, error) leaves, once inlined, a phi of struct values, and a by-value struct parameter
// leaves `field(load)`; both hide which field flows where. scalarizeStructValues rewrites every field selection of
//   - a whole-struct load             into a load of that field at the same point,
//   - a phi of struct values          into a phi of the selected field of each operand,
//   - the zero value of a struct type into the zero value of the field,
// after which the whole-struct values are unused and the ordinary splitting and promotion of local cells applies.
func scalarizeStructValues(f *ssa.Function) int {
	n := 0
	// the block an instruction really sits in (the recorded one can be stale after blocks were merged or threaded)
	blockOf := func(in ssa.Instruction) *ssa.BasicBlock {
		for _, b := range f.Blocks {
			for _, x := range b.Instrs {
				if x == in {
					return b
				}
			}
		}
		return nil
	}
	for round := 0; round < 8; round++ {
		changed := false
		phiCache := map[*ssa.Phi]map[int]*ssa.Phi{}
		for _, b := range append([]*ssa.BasicBlock(nil), f.Blocks...) {
			for _, in := range append([]ssa.Instruction(nil), b.Instrs...) {
				fld, ok := in.(*ssa.Field)
				if !ok {
					continue
				}
				st, ok := fld.X.Type().Underlying().(*types.Struct)
				if !ok || fld.Field >= st.NumFields() {
					continue
				}
				ft := st.Field(fld.Field).Type()
				var repl ssa.Value
				switch x := fld.X.(type) {
				case *ssa.Const:
					repl = ssa.NewConst(nil, ft)
				case *ssa.UnOp:
					if x.Op != token.MUL {
						continue
					}
					fa := &ssa.FieldAddr{X: x.X, Field: fld.Field}
					setField(fa, "typ", types.NewPointer(ft))
					setField(fa, "pos", fld.Pos())
					ld := &ssa.UnOp{Op: token.MUL, X: fa}
					setField(ld, "typ", ft)
					setField(ld, "pos", fld.Pos())
					xb := blockOf(x)
					if xb == nil {
						continue
					}
					insertAfterInstr(xb, x, fa)
					insertAfterInstr(xb, fa, ld)
					repl = ld
				case *ssa.Phi:
					if phiCache[x] == nil {
						phiCache[x] = map[int]*ssa.Phi{}
					}
					np := phiCache[x][fld.Field]
					if np == nil {
						np = &ssa.Phi{Comment: x.Comment + "." + st.Field(fld.Field).Name()}
						setField(np, "typ", ft)
						setField(np, "pos", x.Pos())
						xb := blockOf(x)
						if xb == nil || len(xb.Preds) != len(x.Edges) {
							continue
						}
						setField(np, "block", xb)
						for i, e := range x.Edges {
							var ev ssa.Value
							if k, isC := e.(*ssa.Const); isC && k.Value == nil {
								ev = ssa.NewConst(nil, ft)
							} else {
								sel := &ssa.Field{X: e, Field: fld.Field}
								setField(sel, "typ", ft)
								setField(sel, "pos", fld.Pos())
								pred := xb.Preds[i]
								// the operand is defined in (or before) the predecessor: select at its end; a phi operand that is itself a phi of the
								// same block (a loop) is selected there too, its value on that edge is what the terminator sees
								last := lastInstr(pred)
								insertBeforeInstr(pred, last, sel)
								ev = sel
							}
							np.Edges = append(np.Edges, ev)
						}
						// phis come first in their block
						idx := 0
						for idx < len(xb.Instrs) {
							if _, isPhi := xb.Instrs[idx].(*ssa.Phi); !isPhi {
								break
							}
							idx++
						}
						xb.Instrs = append(xb.Instrs[:idx], append([]ssa.Instruction{np}, xb.Instrs[idx:]...)...)
						phiCache[x][fld.Field] = np
					}
					repl = np
				default:
					continue
				}
				for _, ob := range f.Blocks {
					for _, oi := range ob.Instrs {
						for _, op := range oi.Operands(nil) {
							if *op == ssa.Value(fld) {
								*op = repl
							}
						}
					}
				}
				removeInstrs(f, map[ssa.Instruction]bool{fld: true})
				changed = true
				n++
			}
		}
		if !changed {
			break
		}
	}
	if n > 0 {
		// whole-struct loads and phis nobody uses any more
		for {
			uses := useCounts(f)
			dead := map[ssa.Instruction]bool{}
			for _, b := range f.Blocks {
				for _, in := range b.Instrs {
					switch x := in.(type) {
					case *ssa.Phi:
						if _, isStruct := x.Type().Underlying().(*types.Struct); isStruct && uses[x] == 0 {
							dead[in] = true
						}
					case *ssa.UnOp:
						if _, isStruct := x.Type().Underlying().(*types.Struct); isStruct && x.Op == token.MUL && uses[x] == 0 {
							dead[in] = true
						}
					}
				}
			}
			if len(dead) == 0 {
				break
			}
			removeInstrs(f, dead)
		}
	}
	return n
}

// spokcheck decides structural necessary conditions of the properties in /verif/properties.jsonl
// from the type-checked SSA form of the spok repository. Nothing of the repository is executed.
package main

import (
	"flag"
	"fmt"
	"os"
	"path/filepath"
	"runtime/debug"
	"sort"
	"strconv"
	"strings"
	"time"
)

var verifDir = "/verif"

func main() {
	var (
		propID  = flag.String("property", "", "property id (C01...), or 'all'")
		tier    = flag.String("tier", "quick", "quick | thorough")
		repo    = flag.String("repo", "/repo", "repository to analyse")
		evdir   = flag.String("evidence", "", "evidence directory (default <verif>/evidence)")
		onlyR   = flag.String("rule", "", "only run this rule (diagnosis)")
		explain = flag.Bool("explain", false, "print every obligation")
		knownP  = flag.String("known", "", "known findings file (default <verif>/known_findings.json)")
		noEv    = flag.Bool("no-evidence", false, "do not write evidence (self-test on scratch copies)")
		list    = flag.Bool("list", false, "list properties and rules")
		dump    = flag.Bool("dump-effects", false, "print the inventory of file-mutating call sites and their entry conditions")
		dumpF   = flag.String("dump-fn", "", "print the canonical SSA form of a function (diagnosis)")
		vdir    = flag.String("verif", "", "verif directory (default: directory above the binary, else /verif)")
	)
	flag.Parse()
	if *vdir != "" {
		verifDir = *vdir
	} else if exe, err := os.Executable(); err == nil {
		d := filepath.Dir(filepath.Dir(exe))
		if _, err := os.Stat(filepath.Join(d, "properties.jsonl")); err == nil {
			verifDir = d
		}
	}
	if *evdir == "" {
		*evdir = filepath.Join(verifDir, "evidence")
	}
	if *knownP == "" {
		*knownP = filepath.Join(verifDir, "known_findings.json")
	}
	if t := os.Getenv("VERIF_TIER"); t != "" && !isFlagSet("tier") {
		*tier = t
	}
	seed := 0
	if s := os.Getenv("VERIF_SEED"); s != "" {
		seed, _ = strconv.Atoi(s)
	}
	if *dumpF != "" {
		c, err := load(*repo, "linux", "quick")
		if err != nil {
			fmt.Fprintln(os.Stderr, err)
			os.Exit(2)
		}
		dumpFn(c, *dumpF)
		return
	}
	if *dump {
		c, err := load(*repo, "linux", "quick")
		if err != nil {
			fmt.Fprintln(os.Stderr, err)
			os.Exit(2)
		}
		dumpEffects(c)
		return
	}
	props := registry()
	if *list {
		for _, p := range props {
			fmt.Printf("%s %s (%d rules)\n", p.ID, p.Title, len(p.Rules))
		}
		return
	}
	var todo []*propertySpec
	for _, p := range props {
		if *propID == "all" || p.ID == *propID {
			todo = append(todo, p)
		}
	}
	if len(todo) == 0 {
		fmt.Fprintf(os.Stderr, "unknown property %q\n", *propID)
		os.Exit(2)
	}
	os.Exit(runAll(todo, *tier, *repo, *evdir, *knownP, *onlyR, *explain, *noEv, seed))
}

func isFlagSet(name string) bool {
	set := false
	flag.Visit(func(f *flag.Flag) {
		if f.Name == name {
			set = true
		}
	})
	return set
}

func runAll(todo []*propertySpec, tier, repo, evdir, knownPath, onlyRule string, explain, noEv bool, seed int) (code int) {
	t0 := time.Now()
	known, err := loadKnown(knownPath)
	if err != nil {
		fmt.Fprintf(os.Stderr, "cannot read %s: %v\n", knownPath, err)
		return 2
	}
	goosList := []string{"linux"}
	if tier == "thorough" {
		goosList = []string{"linux", "darwin", "windows"}
	}
	var ctxs []*Ctx
	for _, g := range goosList {
		c, err := load(repo, g, tier)
		if err != nil {
			fmt.Fprintf(os.Stderr, "CHECKER-ERROR: cannot load %s (GOOS=%s): %v\n", repo, g, err)
			return 2
		}
		ctxs = append(ctxs, c)
	}
	fmt.Printf("loaded %s: %d packages, %d module functions, %d call-graph nodes, GOOS=%v in %.1fs\n",
		repo, len(ctxs[0].SSAPkgs), len(ctxs[0].ModFuncs), len(ctxs[0].CG.Nodes), goosList, time.Since(t0).Seconds())
	if ctxs[0].canon != nil {
		fmt.Printf("%s\n", describeCanon(ctxs[0].canon))
	}
	for _, prop := range todo {
		if c := runProperty(prop, ctxs, known, tier, evdir, onlyRule, explain, noEv, seed, t0); c > code {
			code = c
		}
	}
	return code
}

func runProperty(prop *propertySpec, ctxs []*Ctx, known *knownFile, tier, evdir, onlyRule string, explain, noEv bool, seed int, t0 time.Time) (code int) {
	p := *prop
	if onlyRule != "" {
		p.Rules = nil
		for _, rf := range prop.Rules {
			rf := rf
			p.Rules = append(p.Rules, func(c *Ctx) *rule {
				r := rf(c)
				if r != nil && r.ID == onlyRule {
					return r
				}
				return nil
			})
		}
	}
	var out *runOutcome
	func() {
		defer func() {
			if r := recover(); r != nil {
				if al, ok := r.(anchorLost); ok {
					fmt.Printf("%s\n", al.Error())
					fmt.Printf("CHECKER-ERROR property=%s: a trigger anchor of the rules no longer resolves; the check cannot decide\n", prop.ID)
				} else {
					fmt.Printf("CHECKER-PANIC property=%s: %v\n%s\n", prop.ID, r, debug.Stack())
				}
				code = 2
			}
		}()
		out = evaluate(&p, ctxs, known)
	}()
	if out == nil {
		return code
	}
	wall := time.Since(t0).Seconds()
	fmt.Printf("== %s %s (tier %s)\n", prop.ID, prop.Title, tier)
	for _, r := range out.rules {
		nOK, nBad, nUn := 0, 0, 0
		for _, in := range r.Instances {
			switch in.Verdict {
			case vOK:
				nOK++
			case vViolation:
				nBad++
			default:
				nUn++
			}
		}
		fmt.Printf("  rule %-5s %-7s obligations=%d discharged=%d violated=%d undecided=%d  %s\n", r.ID, r.Engine, len(r.Instances), nOK, nBad, nUn, r.Statement)
		if explain {
			for _, a := range r.Analysed {
				fmt.Printf("      analysed: %s\n", a)
			}
			for _, in := range r.Instances {
				fmt.Printf("      [%s] %s @ %s %s\n", in.Verdict, in.Key, in.Pos, in.Detail)
				for _, s := range in.Path {
					fmt.Printf("          %s\n", s)
				}
			}
		}
	}
	for _, k := range out.known {
		fmt.Printf("KNOWN-FINDING: property=%s %s — %s (%s)\n", prop.ID, k.in.Key, k.kf.What, k.in.Pos)
	}
	replayDir := filepath.Join(evdir, "replay")
	for n, v := range out.violations {
		rid := ruleIDOf(v.Key)
		rp := filepath.Join(replayDir, fmt.Sprintf("%s-%s-%d.json", prop.ID, rid, n+1))
		var rr *rule
		for _, r := range out.rules {
			if r.ID == rid {
				rr = r
			}
		}
		rep := map[string]any{"property": prop.ID, "rule": rid, "obligation": v,
			"explain_cmd": fmt.Sprintf("%s/bin/spokcheck -property %s -rule %s -explain", verifDir, prop.ID, rid)}
		if rr != nil {
			rep["rule_statement"] = rr.Statement
			rep["necessity"] = rr.Necessity
		}
		if !noEv {
			if err := writeJSON(rp, rep); err != nil {
				fmt.Fprintf(os.Stderr, "cannot write replay: %v\n", err)
			}
		}
		fmt.Printf("  violated: %s @ %s — %s\n", v.Key, v.Pos, v.Detail)
		for _, s := range v.Path {
			fmt.Printf("      %s\n", s)
		}
		fmt.Printf("VIOLATION property=%s replay=%s\n", prop.ID, rp)
		code = 1
	}
	for _, l := range out.lost {
		fmt.Printf("ANCHOR-LOST: %s\n", l)
	}
	if len(out.violations) == 0 && len(out.lost) > 0 {
		fmt.Printf("CHECKER-ERROR property=%s: a trigger anchor of the rules no longer resolves; the check cannot decide\n", prop.ID)
		code = 2
	}
	if len(out.violations) == 0 && (len(out.undecided) > 0 || len(out.vacuous) > 0) {
		for _, u := range out.undecided {
			fmt.Printf("UNDECIDED property=%s %s @ %s — %s\n", prop.ID, u.Key, u.Pos, u.Detail)
		}
		for _, v := range out.vacuous {
			fmt.Printf("VACUOUS property=%s %s\n", prop.ID, v)
		}
		fmt.Printf("CHECKER-ERROR property=%s: the check cannot decide on this tree (see above)\n", prop.ID)
		code = 2
	}
	var extra map[string]any
	if tier == "thorough" && onlyRule == "" && os.Getenv("SPOKCHECK_NO_SELFTEST") == "" {
		results, problems := runSelfTest(prop.ID, ctxs[0].Repo)
		nS, nSk, nN, nRep := 0, 0, 0, 0
		for _, r := range results {
			if r.Kind == "seeded" {
				nS++
				if strings.HasPrefix(r.Outcome, "reported") {
					nRep++
				}
			} else {
				nN++
			}
			if strings.HasPrefix(r.Outcome, "skipped") {
				nSk++
			}
		}
		fmt.Printf("  self-test: %d seeded changes expected to be reported by %s (%d reported, %d skipped), %d behaviour-preserving variants\n", nS, prop.ID, nRep, nSk, nN)
		for _, p := range problems {
			fmt.Printf("SELFTEST-WARNING property=%s %s\n", prop.ID, p)
		}
		extra = map[string]any{"self_test": results, "self_test_problems": problems,
			"self_test_note": "checker validation only: seeded changes (must be reported) and behaviour-preserving variants (must stay silent) applied to scratch copies of the analysed tree; it does not change the verdict on /repo"}
	}
	if !noEv && onlyRule == "" {
		if err := writeEvidence(evdir, prop, tier, seed, ctxs, out, wall, extra); err != nil {
			fmt.Fprintf(os.Stderr, "cannot write evidence: %v\n", err)
			if code == 0 {
				code = 2
			}
		}
	}
	if code == 0 {
		fmt.Printf("OK property=%s: %d rules, all obligations discharged\n", prop.ID, len(out.rules))
	}
	return code
}

func registry() []*propertySpec {
	ps := []*propertySpec{}
	ps = append(ps, cacheProperties()...)
	ps = append(ps, hashProperties()...)
	ps = append(ps, fsProperties()...)
	ps = append(ps, envProperties()...)
	ps = append(ps, graphProperties()...)
	ps = append(ps, appProperties()...)
	ps = append(ps, parseProperties()...)
	ps = append(ps, lexerProperties()...)
	for _, p := range ps {
		if sup := supporting[p.ID]; len(sup.rules) > 0 {
			p.Rules = append(p.Rules, sup.rules...)
			p.Explanation += " Supporting rules, shared with the sibling property whose subject they are and necessary for this one as well: " + sup.why
		}
	}
	sort.Slice(ps, func(i, j int) bool { return ps[i].ID < ps[j].ID })
	return ps
}

// supporting lists, per property, rules that are written for a sibling property but state a necessary condition of this
// one too: the same rule object, run again under this property's name, so that a change which breaks this property through
// the sibling's subject (a digest that no longer covers the content breaks "skipped means unchanged") is reported by this
// property's own check and not only by the sibling's.
var supporting = map[string]struct {
	rules []func(*Ctx) *rule
	why   string
}{
	"C01": {[]func(*Ctx) *rule{ruleHS2, ruleHS3, ruleHS5, ruleHS6, ruleHS7, ruleHS8, ruleHE1, ruleGL1, ruleGL2, ruleGL3, ruleGL4},
		"the digest compared by CP1 stands for 'paths and contents' only if every listed file's whole content and path reach it (HS2, HS3, HS5), a failed hashing stops the run (HE1), no digest is a constant that could equal the cache's 'never succeeded' (HS6), and every file matching a glob dependency is in the hashed list (GL1-GL4)."},
	"C02": {[]func(*Ctx) *rule{ruleHS1, ruleHS2, ruleHS5, ruleHS7, ruleHS8, ruleGL3, ruleTK5},
		"an unchanged input set is only skipped if it hashes to the recorded digest again: the digest must not depend on arrival order (HS1) or on anything but path and content (HS2, HS5), the expansion root and pattern must be the same every time (GL3), and a plain file must not be taken for a pattern that matches nothing (TK5)."},
	"C04": {[]func(*Ctx) *rule{ruleAB1, ruleAB2},
		"the digest is a function of (absolute path, content): the paths handed to the hasher are absolute because the project root is (AB1, AB2); with a relative root the same files hash differently from one invocation to the next."},
	"C05": {[]func(*Ctx) *rule{ruleTK5, ruleHS7},
		"which strings are globs at all (TK5); the remembered expansion of a pattern is handed to the hasher, which must leave it as it is (HS7)."},
	"C08": {[]func(*Ctx) *rule{ruleTL3, ruleTL4},
		"'every syntax error cites a line number between 1 and the number of lines' needs the lexer's line counter to move on newlines only (TL3) and the scan position not to jump over text without counting (TL4)."},
	"C09": {[]func(*Ctx) *rule{ruleCP1, ruleCP10, ruleHS6},
		"a failed task is 'not treated as up to date by later runs' because its digest is not recorded (CP8), the old one is only restored (CP10), and 'skipped' requires digest equality (CP1) with a digest that can never be the empty 'never succeeded' entry (HS6)."},
	"C10": {[]func(*Ctx) *rule{ruleHS6, ruleCP1},
		"the invalidation written before the commands start is the empty string: it only invalidates if no digest can be the empty string (HS6); and 'never skip a task whose inputs differ from its last successful completion' after a kill needs every skip to be a comparison with the cache at all - a progress file left by a killed run that skips 'finished' tasks bypasses it (CP1)."},
	"C12": {[]func(*Ctx) *rule{ruleGL1, ruleGL3, ruleTK5, ruleAB2, ruleFD4},
		"'files matching output globs' are those the shared expansion finds (GL1, GL3, TK5); 'the spokfile' and 'the directory containing it' are what discovery settled (AB2, FD4)."},
	"C18": {[]func(*Ctx) *rule{ruleHS3},
		"'a file that cannot be opened or read yields an error, never a digest': every job other than a directory found by this call's own Stat produces a result (HS3)."},
	"C15": {[]func(*Ctx) *rule{ruleFX2, ruleST9, ruleTL2},
		"what --fmt leaves in the file is the formatted text and nothing else (FX2: one write of Tree.String() that replaces the file); a docstring or comment used as a printf format is garbled wherever it contains a % (ST9); a comment is only kept if it is scanned at all: the lexer starts at offset 0 and its token start only ever moves up to the scan position (TL2)."},
	"C14": {[]func(*Ctx) *rule{ruleCP1, ruleCP3("CP3L"), ruleCP6, ruleGL4, ruleCP12, ruleHS6},
		"'a forced run does not damage the cache' is C01 after a forced run: the digest a forced run records must be the one of the inputs its commands ran on (CP1, CP3L), computed over all inputs, globs expanded (CP6, GL4), and the persisted file must be exactly that map (CP12)."},
	"C19": {[]func(*Ctx) *rule{ruleAB1, ruleAB2, ruleFD4, ruleGR5, ruleEN4, ruleEN3},
		"'its cache directory next to the spokfile' is the project root handed to file.New (AB1, AB2, FD4); '--fmt rewrites only when the spokfile loads' needs file.New to fail on what does not load (GR5 duplicate tasks, EN4 failing builtins, EN3 every command goes through the template, whose errors are load errors)."},
	"C20": {[]func(*Ctx) *rule{ruleGR8, ruleEN3, ruleTK4, ruleEN5, ruleEN4},
		"'a single JSON document' needs one SpokFile.Run per invocation (GR8); 'its interpolated text' is the text/template expansion of each command, one entry per command (EN3, TK4); '--vars lists every variable with its evaluated value' is the value file.New computed for that very assignment (EN4) by the builtin's own evaluation (EN5)."},
}

func join(ss []string) string { return strings.Join(ss, ", ") }

package main

import (
	"fmt"
	"go/token"
	"go/types"
	"strings"

	"golang.org/x/tools/go/ssa"
)

// runnerImpls: the Run methods of the module types implementing shell.Runner.
func (c *Ctx) runnerImpls() []*ssa.Function {
	n := c.namedType("shell", "Runner")
	iface, ok := n.Underlying().(*types.Interface)
	if !ok {
		lost("shell.Runner is not an interface")
	}
	var out []*ssa.Function
	for _, f := range c.ModFuncs {
		if f.Name() != "Run" || f.Signature.Recv() == nil || f.Synthetic != "" {
			continue
		}
		rt := f.Signature.Recv().Type()
		if types.Implements(rt, iface) || types.Implements(types.NewPointer(rt), iface) {
			out = append(out, f)
		}
	}
	if len(out) == 0 {
		lost("no implementation of shell.Runner in the module")
	}
	return out
}

func sliceParam(f *ssa.Function) *ssa.Parameter {
	var p *ssa.Parameter
	for _, q := range f.Params {
		if sl, ok := q.Type().Underlying().(*types.Slice); ok {
			if b, ok := sl.Elem().Underlying().(*types.Basic); ok && b.Kind() == types.String {
				p = q
			}
		}
	}
	return p
}

// flattenAppend lists, in order, the pieces a slice value is assembled from by nested append calls.
func flattenAppend(v ssa.Value) ([]ssa.Value, bool) {
	os := origins(v)
	if len(os) != 1 {
		return nil, false
	}
	v = os[0]
	if call, ok := v.(*ssa.Call); ok {
		if strings.HasPrefix(calleeName(call.Common()), "slices.Concat") {
			// slices.Concat(a, b, ...): the variadic argument is a slice literal of the pieces, in order
			var out []ssa.Value
			if sl, ok := call.Common().Args[0].(*ssa.Slice); ok {
				if a, ok := sl.X.(*ssa.Alloc); ok {
					type el struct {
						idx int64
						v   ssa.Value
					}
					var els []el
					for _, ref := range valueReferrers(a) {
						if ia, ok := ref.(*ssa.IndexAddr); ok {
							n, _ := constInt(ia.Index)
							for _, rr := range valueReferrers(ia) {
								if st, ok := rr.(*ssa.Store); ok && st.Addr == ssa.Value(ia) {
									els = append(els, el{n, st.Val})
								}
							}
						}
					}
					for i := 0; i < len(els); i++ {
						for _, e := range els {
							if e.idx == int64(i) {
								out = append(out, e.v)
							}
						}
					}
					return out, len(out) > 0
				}
			}
			return nil, false
		}
		if bi, ok := call.Call.Value.(*ssa.Builtin); ok && bi.Name() == "append" {
			base, ok := flattenAppend(call.Call.Args[0])
			if !ok {
				return nil, false
			}
			return append(base, call.Call.Args[1:]...), true
		}
	}
	if isNilConst(v) {
		return nil, true
	}
	return []ssa.Value{v}, true
}

func ruleEN1(c *Ctx) *rule {
	r := &rule{ID: "EN1", Engine: "E3", Floor: 1,
		Statement: "in the environment list handed to expand.ListEnviron, everything derived from os.Environ() precedes everything derived from the runner's env parameter (the spokfile's variables)",
		Necessity: "library contract (mvdan.cc/sh/v3/expand/environ.go): for duplicate names the last one wins; with the ambient environment after the spokfile's variables an exported FOO in the shell or in .env overrides FOO := ... of the spokfile"}
	for _, f := range c.runnerImpls() {
		env := sliceParam(f)
		sites := callsTo(f, "mvdan.cc/sh/v3/expand.ListEnviron")
		r.note("%s: %d ListEnviron call(s)", fname(f), len(sites))
		if env == nil || len(sites) == 0 {
			r.undecided(fname(f)+" ListEnviron", c.pos(f.Pos()), "the runner has no []string env parameter or no expand.ListEnviron call")
			continue
		}
		for i, site := range sites {
			key := fmt.Sprintf("%s ListEnviron#%d order", fname(f), i+1)
			comps, ok := flattenAppend(site.Common().Args[0])
			if !ok {
				r.undecided(key, c.ipos(site), "the environment list is not assembled by plain nested append calls")
				continue
			}
			lastAmbient, firstSpok := -1, -1
			for j, comp := range comps {
				sl := c.newSlicer()
				sl.depth = 0
				res := sl.run(comp)
				if res.hasCall("os.Environ") {
					lastAmbient = j
				}
				if res.has(env) && firstSpok < 0 {
					firstSpok = j
				}
			}
			reordered := c.sliceMutation(site.Common().Args[0], 2, map[ssa.Value]bool{}, "the environment list")
			switch {
			case reordered != "":
				r.bad(key, c.ipos(site), reordered+": which of two entries with the same name comes last (and therefore wins) no longer depends on where they came from")
			case firstSpok < 0:
				r.bad(key, c.ipos(site), "the runner's env parameter (the spokfile's variables) does not reach the interpreter's environment")
			case lastAmbient < 0:
				r.ok(key, c.ipos(site), "only the spokfile's variables are passed; nothing can override them")
			case lastAmbient < firstSpok:
				r.ok(key, c.ipos(site), "os.Environ() first, spokfile variables appended after it (last one wins)")
			default:
				r.bad(key, c.ipos(site), "os.Environ() is appended after the spokfile's variables: an ambient variable of the same name wins")
			}
		}
	}
	return r
}

func ruleEN2(c *Ctx) *rule {
	r := &rule{ID: "EN2", Engine: "E3", Floor: 4,
		Statement: "the chain SpokFile.Vars -> KEY=VALUE (key, \"=\", value of the same map entry) -> argument of Task.Run -> env parameter of Runner.Run -> ListEnviron -> interp.Env -> interp.New is unbroken",
		Necessity: "a broken link means commands do not see the spokfile's variables in their environment at all"}
	rl := c.runLoop()
	// (a) X's env argument
	var envArg ssa.Value
	for _, a := range rl.X.Common().Args {
		if sl, ok := a.Type().Underlying().(*types.Slice); ok {
			if b, ok := sl.Elem().Underlying().(*types.Basic); ok && b.Kind() == types.String {
				envArg = a
			}
		}
	}
	if envArg == nil {
		lost("(*task.Task).Run is not called with a []string environment")
	}
	sl := c.newSlicer()
	sl.depth = 2
	res := sl.run(envArg)
	key := fname(rl.fn) + " X.env<-range SpokFile.Vars"
	var rng *ssa.Range
	for _, v := range res.order {
		if rg, ok := v.(*ssa.Range); ok && isFieldLoad(rg.X, "file.SpokFile.Vars") {
			rng = rg
		}
	}
	if rng != nil {
		r.ok(key, c.ipos(rl.X), "the environment passed to the task is built by ranging over SpokFile.Vars")
	} else {
		r.bad(key, c.ipos(rl.X), "the environment passed to Task.Run is not built from a range over SpokFile.Vars")
	}
	// KEY=VALUE shape
	key = fname(rl.fn) + " KEY=VALUE"
	shape := false
	for _, v := range res.order {
		bo, ok := v.(*ssa.BinOp)
		if !ok || bo.Op != token.ADD {
			continue
		}
		inner, ok := bo.X.(*ssa.BinOp)
		if !ok || inner.Op != token.ADD {
			continue
		}
		eq, isC := constString(inner.Y)
		k, kok := inner.X.(*ssa.Extract)
		val, vok := bo.Y.(*ssa.Extract)
		if isC && eq == "=" && kok && vok && k.Tuple == val.Tuple && k.Index == 1 && val.Index == 2 {
			if nx, ok := k.Tuple.(*ssa.Next); ok && rng != nil && nx.Iter == ssa.Value(rng) {
				shape = true
			}
		}
	}
	if shape {
		r.ok(key, c.ipos(rl.X), "each element is key + \"=\" + value of the same map entry")
	} else {
		found := false
		for _, v := range res.order {
			if call, ok := v.(*ssa.Call); ok && (calleeName(call.Common()) == "fmt.Sprintf") {
				found = true
			}
		}
		if found {
			r.undecided(key, c.ipos(rl.X), "the KEY=VALUE strings are formatted in a way the checker does not model")
		} else {
			r.bad(key, c.ipos(rl.X), "the environment entries are not key + \"=\" + value of the same SpokFile.Vars entry")
		}
	}
	// (b) Task.Run passes env and the command on to runner.Run
	taskRun := c.method("task", "Task", "Run")
	envP := sliceParam(taskRun)
	n := 0
	for _, site := range callSites(taskRun) {
		cc := site.Common()
		if !cc.IsInvoke() || cc.Method.Name() != "Run" || !isNamed(cc.Value.Type(), pkgPath("shell"), "Runner") {
			continue
		}
		n++
		key := fmt.Sprintf("%s runner.Run#%d env", fname(taskRun), n)
		okEnv := false
		for _, a := range cc.Args {
			if envP != nil && len(origins(a)) == 1 && origins(a)[0] == ssa.Value(envP) {
				okEnv = true
			}
		}
		if okEnv {
			r.ok(key, c.ipos(site), "the env parameter is passed on unchanged")
		} else {
			r.bad(key, c.ipos(site), "Task.Run does not pass its env parameter on to the runner")
		}
		key = fmt.Sprintf("%s runner.Run#%d cmd", fname(taskRun), n)
		cs := c.newSlicer()
		cs.depth = 0
		cres := cs.run(cc.Args[0])
		if cres.hasField("task.Task.Commands") {
			r.ok(key, c.ipos(site), "the command is an element of Task.Commands")
		} else {
			r.bad(key, c.ipos(site), "the command handed to the runner is not an element of Task.Commands")
		}
		// every command, in order: the call sits in a range loop over Commands with no other exit than the error
		fi := c.info(taskRun)
		if l := fi.innermostLoop(site.Block()); l == nil {
			r.bad(fmt.Sprintf("%s runner.Run#%d loop", fname(taskRun), n), c.ipos(site), "the runner is not called in a loop over the commands")
		}
	}
	if n == 0 {
		r.bad(fname(taskRun)+" runner.Run", c.pos(taskRun.Pos()), "Task.Run never calls shell.Runner.Run")
	}
	// (c) ListEnviron -> interp.Env -> interp.New
	for _, f := range c.runnerImpls() {
		key := fname(f) + " ListEnviron->interp.Env->interp.New"
		okChain := false
		for _, site := range callsTo(f, "mvdan.cc/sh/v3/interp.New") {
			ns := c.newSlicer()
			ns.depth = 0
			nres := ns.run(site.Common().Args...)
			if nres.hasCall("mvdan.cc/sh/v3/interp.Env") && nres.hasCall("mvdan.cc/sh/v3/expand.ListEnviron") {
				for _, envCall := range nres.calls["mvdan.cc/sh/v3/interp.Env"] {
					es := c.newSlicer()
					es.depth = 0
					if es.run(envCall.Common().Args[0]).hasCall("mvdan.cc/sh/v3/expand.ListEnviron") {
						okChain = true
					}
				}
			}
		}
		custom := ""
		for _, site := range callsTo(f, "mvdan.cc/sh/v3/interp.Env") {
			for _, o := range append([]ssa.Value{site.Common().Args[0]}, origins(site.Common().Args[0])...) {
				if mi, isMI := o.(*ssa.MakeInterface); isMI {
					if n := namedOf(mi.X.Type()); n != nil && n.Obj().Pkg() != nil && strings.HasPrefix(n.Obj().Pkg().Path(), modPath) {
						custom = n.Obj().Name()
					}
				}
			}
		}
		if custom != "" {
			r.undecided(key, c.pos(f.Pos()), "the interpreter's environment is the module's own implementation of expand.Environ ("+custom+"): which of two entries with the same name a command and its child processes see is decided by its Get and Each methods at run time, not by the order of a list")
		} else if okChain {
			r.ok(key, c.pos(f.Pos()), "the assembled list becomes the interpreter's environment")
		} else {
			r.bad(key, c.pos(f.Pos()), "the result of expand.ListEnviron is not installed with interp.Env in interp.New")
		}
	}
	return r
}

func ruleEN3(c *Ctx) *rule {
	r := &rule{ID: "EN3", Engine: "E3", Floor: 3,
		Statement: "Task.Commands is produced by text/template (not html/template) executed on the command text of the AST with the variables map of the spokfile as data, and file.New evaluates string and builtin assignments into that map before the task is built",
		Necessity: "html/template escapes values (<, &, quotes) so the shell sees other text; a different data map or a map filled after the task is built leaves {{.NAME}} unexpanded or empty"}
	key := "task.Task.Commands"
	stores := c.fieldStores()[key]
	r.note("%d store(s) into task.Task.Commands", len(stores))
	n := 0
	for _, st := range stores {
		n++
		k := fmt.Sprintf("%s Commands<-template#%d", fname(st.Parent()), n)
		sl := c.newSlicer()
		sl.depth = 2
		sl.objFlow = true
		res := sl.run(st.Val)
		exec := res.calls["(*text/template.Template).Execute"]
		if res.hasCall("(*html/template.Template).Execute") {
			r.bad(k, c.ipos(st), "commands are expanded with html/template, which HTML-escapes the variable values")
			continue
		}
		if len(exec) == 0 {
			r.bad(k, c.ipos(st), "Task.Commands is not produced by (*text/template.Template).Execute")
			continue
		}
		r.ok(k, c.ipos(st), "produced by text/template Execute")
		for _, e := range exec {
			k2 := fmt.Sprintf("%s Execute data", fname(e.Parent()))
			ds := c.newSlicer()
			ds.depth = 3
			dres := ds.run(e.Common().Args[2])
			if dres.hasField("file.SpokFile.Vars") || hasMakeMapOfVars(c, dres) {
				r.ok(k2, c.ipos(e), "the data is the spokfile's variables map")
			} else {
				r.bad(k2, c.ipos(e), "the template is not executed with the spokfile's variables map as data (fields: "+join(dres.fieldKeys())+")")
			}
			// the template text
			k3 := fmt.Sprintf("%s template text", fname(e.Parent()))
			ts := c.newSlicer()
			ts.depth = 3
			ts.objFlow = true
			tres := ts.run(e.Common().Args[0])
			rewritten := ""
			for _, n := range tres.callNames() {
				switch n {
				case "(*strings.Replacer).Replace", "strings.ReplaceAll", "strings.Replace", "os.Expand", "os.ExpandEnv", "fmt.Sprintf", "(*regexp.Regexp).ReplaceAllString", "(*regexp.Regexp).ReplaceAllStringFunc":
					rewritten = n
				}
			}
			if rewritten != "" {
				r.bad(k3, c.ipos(e), "the template is parsed from text that has already been rewritten by "+rewritten+": if variable values were substituted first, a value that contains {{ is executed as part of the template (and a value's braces can break the parse)")
			} else if tres.hasField("ast.Command.Command") || tres.hasCall("(github.com/FollowTheProcess/spok/ast.Command).Literal") {
				r.ok(k3, c.ipos(e), "the template is parsed from the command text of the AST")
			} else {
				r.bad(k3, c.ipos(e), "the executed template is not parsed from ast.Command.Command")
			}
		}
	}
	if n == 0 {
		lost("no store into task.Task.Commands")
	}
	// every recorded command is the template's output: none is the raw text let through on a side path
	for _, cl := range c.taskClassLoops() {
		if cl.source != "Commands" {
			continue
		}
		for i, app := range cl.apps["Commands"] {
			k := fmt.Sprintf("task.New Commands append#%d is template output", i+1)
			var elems []ssa.Value
			if len(app.Call.Args) == 2 {
				if sl, isSl := app.Call.Args[1].(*ssa.Slice); isSl {
					if al, isAl := sl.X.(*ssa.Alloc); isAl && al.Referrers() != nil {
						for _, ref := range *al.Referrers() {
							if ia, isIA := ref.(*ssa.IndexAddr); isIA && ia.Referrers() != nil {
								for _, r2 := range *ia.Referrers() {
									if st, isSt := r2.(*ssa.Store); isSt && st.Addr == ssa.Value(ia) {
										elems = append(elems, st.Val)
									}
								}
							}
						}
					}
				}
			}
			if len(elems) == 0 {
				continue
			}
			raw := ""
			isRaw := func(o ssa.Value) bool {
				switch x := o.(type) {
				case *ssa.UnOp:
					return x.Op == token.MUL && fieldKey(x.X) == "ast.Command.Command"
				case *ssa.Field:
					return fieldKey(x) == "ast.Command.Command"
				case *ssa.Call:
					return calleeName(x.Common()) == "(github.com/FollowTheProcess/spok/ast.Command).Literal" // PS2: the field itself
				}
				return false
			}
			// a shortcut for text that holds no action delimiter at all is the template's own behaviour: the raw text may
			// flow in on an edge that is guarded by !strings.Contains(text, "{{") (or "{")
			noDelims := func(b *ssa.BasicBlock) bool {
				for _, g := range cl.fi.necessaryGuards(b) {
					call, isCall := g.cond.(*ssa.Call)
					if !isCall || g.pol || calleeName(call.Common()) != "strings.Contains" || len(call.Common().Args) != 2 {
						continue
					}
					if k, isC := constString(call.Common().Args[1]); isC && (k == "{{" || k == "{") {
						for _, o := range origins(call.Common().Args[0]) {
							if isRaw(o) {
								return true
							}
						}
					}
				}
				return false
			}
			seenV := map[ssa.Value]bool{}
			var walk func(v ssa.Value, via *ssa.BasicBlock)
			walk = func(v ssa.Value, via *ssa.BasicBlock) {
				if seenV[v] {
					return
				}
				seenV[v] = true
				if phi, isPhi := v.(*ssa.Phi); isPhi {
					for j, e := range phi.Edges {
						walk(e, phi.Block().Preds[j])
					}
					return
				}
				if isRaw(v) && (via == nil || !noDelims(via)) {
					raw = c.pos(v.Pos())
				}
			}
			for _, e := range elems {
				walk(e, nil)
			}
			if raw != "" {
				r.bad(k, c.ipos(app), "on some path the command text itself is recorded, not the output of the template: a command the shortcut misjudges is run and reported uninterpolated, and a malformed interpolation is no longer an error")
			} else {
				r.ok(k, c.ipos(app), "no origin of the recorded command is the raw command text")
			}
		}
	}
	return r
}

// hasMakeMapOfVars: the data map is the map stored into SpokFile.Vars (file.New builds the struct literal with a fresh map).
func hasMakeMapOfVars(c *Ctx, res *sliceResult) bool {
	for _, st := range c.fieldStores()["file.SpokFile.Vars"] {
		for _, o := range origins(st.Val) {
			if res.has(o) {
				return true
			}
		}
	}
	return false
}

func ruleEN4(c *Ctx) *rule {
	r := &rule{ID: "EN4", Engine: "E3", Floor: 2,
		Statement: "every update of SpokFile.Vars in file.New is keyed by the assignment's identifier and stores the string literal's Literal() or the result of the builtin looked up under the function's name; a failing builtin is an error",
		Necessity: "a variable filed under another name, or a builtin error that is swallowed, gives commands a value other than the one the spokfile defines"}
	newF := c.fn("file", "New")
	n := 0
	for _, b := range newF.Blocks {
		for _, in := range b.Instrs {
			mu, ok := in.(*ssa.MapUpdate)
			if !ok {
				continue
			}
			if !isVarsMap(c, mu.Map) {
				continue
			}
			n++
			key := fmt.Sprintf("%s Vars[name]=value#%d", fname(newF), n)
			ks := c.newSlicer()
			ks.depth = 0
			kres := ks.run(mu.Key)
			vs := c.newSlicer()
			vs.depth = 0
			vres := vs.run(mu.Value)
			if !kres.hasField("ast.Ident.Name") || !kres.hasField("ast.Assign.Name") {
				r.bad(key, c.ipos(mu), "the variable is not stored under the assignment's identifier")
				continue
			}
			isLit := vres.hasCall("(github.com/FollowTheProcess/spok/ast.Node).Literal") && vres.hasField("ast.Assign.Value")
			isBuiltin := false
			for _, v := range vres.order {
				if call, ok := v.(*ssa.Call); ok && call.Common().StaticCallee() == nil && !call.Common().IsInvoke() {
					// dynamic call of the looked-up builtin
					fs := c.newSlicer()
					fs.depth = 0
					if fs.run(call.Common().Value).hasCall("github.com/FollowTheProcess/spok/builtins.Get") {
						isBuiltin = true
						ev := errOfCall(call)
						if ev == nil {
							r.bad(key+" err", c.ipos(call), "the error of the builtin is discarded")
						} else if ok, why := c.errEdgeDischarged(ev); !ok {
							r.bad(key+" err", c.ipos(call), "a failing builtin does not stop the load: "+why)
						} else {
							r.ok(key+" err", c.ipos(call), "a failing builtin is an error")
						}
					}
				}
			}
			constOrigin := ""
			for _, o := range origins(mu.Value) {
				if cst, isC := o.(*ssa.Const); isC {
					sv, _ := constString(cst)
					constOrigin = fmt.Sprintf("%q", sv)
				}
			}
			if (isLit || isBuiltin) && constOrigin != "" {
				r.bad(key, c.ipos(mu), "on some path the variable is given the constant "+constOrigin+" instead of the literal / the result of its builtin: the builtin is not called (and cannot fail) there, so a spokfile that does not load is accepted")
			} else if isLit || isBuiltin {
				r.ok(key, c.ipos(mu), "keyed by the identifier, value from the literal / builtin")
			} else {
				r.bad(key, c.ipos(mu), "the stored value is neither the string literal of the assignment nor the result of its builtin call")
			}
		}
	}
	if n == 0 {
		lost("file.New never updates the variables map")
	}
	return r
}

func isVarsMap(c *Ctx, m ssa.Value) bool {
	if isFieldLoad(m, "file.SpokFile.Vars") {
		return true
	}
	// the map literal stored into the struct's Vars field
	for _, st := range c.fieldStores()["file.SpokFile.Vars"] {
		if sameOrigins(st.Val, m) {
			return true
		}
	}
	return false
}

// ---- SH1 (C09) and ST3 (C20) ------------------------------------------------------------------------------------------------

func ruleSH1(c *Ctx) *rule {
	r := &rule{ID: "SH1", Engine: "E2+E3", Floor: 1,
		Statement: "in every implementation of shell.Runner.Run the error of the interpreter's Run flows either into the returned error or, through interp.IsExitStatus, into Result.Status of the returned value",
		Necessity: "an exit status that is dropped leaves Status == 0: the failing command is indistinguishable from a successful one everywhere downstream"}
	for _, f := range c.runnerImpls() {
		sites := callsTo(f, "(*mvdan.cc/sh/v3/interp.Runner).Run")
		if len(sites) == 0 {
			r.undecided(fname(f)+" interp.Run", c.pos(f.Pos()), "the runner does not call (*interp.Runner).Run")
			continue
		}
		for i, site := range sites {
			key := fmt.Sprintf("%s interp.Run#%d error", fname(f), i+1)
			ev := errOfCall(site)
			if ev == nil {
				r.bad(key, c.ipos(site), "the error (which carries the exit status) of the interpreter is discarded")
				continue
			}
			if ok, _ := c.errEdgeDischarged(ev); ok {
				r.ok(key, c.ipos(site), "every non-nil error is returned as an error")
				continue
			}
			// exit-status shape
			var isx *ssa.Call
			for _, s2 := range callsTo(f, "mvdan.cc/sh/v3/interp.IsExitStatus") {
				if call, ok := s2.(*ssa.Call); ok && sameOrigins(call.Common().Args[0], ev) {
					isx = call
				}
			}
			if isx == nil {
				r.bad(key, c.ipos(site), "the interpreter's error neither ends the call with an error nor is decoded with interp.IsExitStatus")
				continue
			}
			var status, okv ssa.Value
			for _, ref := range valueReferrers(isx) {
				if ex, ok := ref.(*ssa.Extract); ok {
					if ex.Index == 0 {
						status = ex
					} else {
						okv = ex
					}
				}
			}
			problems := []string{}
			// !ok edge ends in error
			okTested := false
			if okv != nil {
				for _, ref := range valueReferrers(okv) {
					if iff, isIf := ref.(*ssa.If); isIf {
						okTested = true
						if good, why := c.edgeEndsInError(edge{iff.Block(), 1}); !good {
							problems = append(problems, "an error that is not an exit status does not end in an error: "+why)
						}
					}
					if u, isU := ref.(*ssa.UnOp); isU && u.Op == token.NOT {
						for _, rr := range valueReferrers(u) {
							if iff, isIf := rr.(*ssa.If); isIf {
								okTested = true
								if good, why := c.edgeEndsInError(edge{iff.Block(), 0}); !good {
									problems = append(problems, "an error that is not an exit status does not end in an error: "+why)
								}
							}
						}
					}
				}
			}
			if !okTested {
				problems = append(problems, "the ok result of IsExitStatus is not tested")
			}
			// status stored into Result.Status of the returned value
			stored := false
			for _, st := range c.fieldStores()["shell.Result.Status"] {
				if st.Parent() != f || status == nil {
					continue
				}
				ss := c.newSlicer()
				ss.depth = 0
				if ss.run(st.Val).has(status) {
					// returned?
					a := baseAlloc(st.Addr)
					for _, ret := range returnsOf(f) {
						if rerr := returnedErr(ret); rerr != nil && isNilConst(rerr) {
							for _, o := range origins(ret.Results[0]) {
								if u, ok := o.(*ssa.UnOp); ok && u.Op == token.MUL && a != nil && u.X == ssa.Value(a) {
									stored = true
								}
							}
						}
					}
				}
			}
			if !stored {
				problems = append(problems, "the decoded exit status is not stored into Result.Status of the returned result")
			}
			if len(problems) == 0 {
				r.ok(key, c.ipos(site), "exit statuses land in Result.Status of the returned result, other errors are returned")
			} else {
				r.bad(key, c.ipos(site), strings.Join(problems, "; "))
			}
		}
	}
	// Result.Ok is Status == 0, Results.Ok the conjunction
	for _, spec := range [][2]string{{"shell", "Result"}, {"shell", "Results"}, {"task", "Result"}, {"task", "Results"}} {
		f := c.methodOpt(spec[0], spec[1], "Ok")
		key := fmt.Sprintf("%s.%s.Ok", spec[0], spec[1])
		if f == nil {
			r.bad(key, "?", "method Ok is missing")
			continue
		}
		ok, why := okMethodSound(c, f)
		if ok {
			r.ok(key, c.pos(f.Pos()), why)
		} else {
			r.bad(key, c.pos(f.Pos()), why)
		}
	}
	return r
}

// isNotOkPredicate: every return of the predicate is `!elem.Ok()` (a module Ok method) or `elem.Status != 0`.
func isNotOkPredicate(pred *ssa.Function) bool {
	elem := predElem(pred)
	if elem == nil {
		return false
	}
	rets := returnsOf(pred)
	if len(rets) == 0 {
		return false
	}
	for _, pr := range rets {
		if len(pr.Results) != 1 {
			return false
		}
		pv, ppol := normCond(pr.Results[0], true)
		isNotOk := false
		if cl, ok := pv.(*ssa.Call); ok && !ppol {
			if cf := cl.Common().StaticCallee(); cf != nil && cf.Name() == "Ok" && inModule(cf) && len(cl.Common().Args) > 0 && sameOrigins(cl.Common().Args[0], elem) {
				isNotOk = true
			}
		}
		if bo, ok := pv.(*ssa.BinOp); ok && ((ppol && bo.Op == token.NEQ) || (!ppol && bo.Op == token.EQL)) {
			if n, isC := constInt(bo.Y); isC && n == 0 && loadedField(bo.X) == "shell.Result.Status" {
				isNotOk = true
			}
		}
		if !isNotOk {
			return false
		}
	}
	return true
}

// okMethodSound: Result.Ok returns Status == 0; the collection forms return false as soon as an element's Ok is false
// (inside a full range over the receiver) and true only after the loop; task.Result.Ok delegates to CommandResults.Ok.
func okMethodSound(c *Ctx, f *ssa.Function) (bool, string) {
	recv := f.Params[0]
	rets := returnsOf(f)
	if _, isStruct := recv.Type().Underlying().(*types.Struct); isStruct {
		if len(rets) != 1 {
			return false, "Ok of a single result has several returns"
		}
		v := rets[0].Results[0]
		if bo, ok := v.(*ssa.BinOp); ok && bo.Op == token.EQL {
			if n, isC := constInt(bo.Y); isC && n == 0 {
				if loadedField(bo.X) == "shell.Result.Status" {
					return true, "Status == 0"
				}
			}
		}
		if call, ok := v.(*ssa.Call); ok {
			if cf := call.Common().StaticCallee(); cf != nil && cf.Name() == "Ok" && inModule(cf) {
				if loadedField(call.Common().Args[0]) == "task.Result.CommandResults" {
					return true, "delegates to CommandResults.Ok()"
				}
			}
		}
		return false, "Ok is not `Status == 0` / `CommandResults.Ok()`"
	}
	// slice receiver
	fi := c.info(f)
	if len(fi.loops) == 0 {
		// every way of returning true is under "no element of the receiver is not-Ok" (a search that found nothing), every way of
		// returning false under "some element is"
		judge := func(want bool) bool {
			sets := c.resultGuardSets(f, want)
			if len(sets) == 0 {
				return false
			}
			for _, set := range sets {
				has := false
				for _, g := range set {
					coll, pred, found, isSearch := searchTest(g.cond, g.pol)
					if isSearch && sameOrigins(coll, recv) && found == !want && isNotOkPredicate(pred) {
						has = true
					}
				}
				if !has {
					return false
				}
			}
			return true
		}
		if judge(true) && judge(false) {
			return true, "true exactly when a search over the whole collection finds no element that is not Ok"
		}
	}
	if len(fi.loops) == 0 && len(rets) == 1 {
		// !slices.ContainsFunc(recv, notOk)  /  slices.IndexFunc(recv, notOk) < 0
		v, pol := normCond(rets[0].Results[0], true)
		var call *ssa.Call
		if bo, ok := v.(*ssa.BinOp); ok {
			if cl, ok := bo.X.(*ssa.Call); ok && strings.HasPrefix(calleeName(cl.Common()), "slices.IndexFunc") {
				if n, isC := constInt(bo.Y); isC && ((bo.Op == token.LSS && n == 0) || (bo.Op == token.EQL && n == -1)) && pol {
					call = cl
					pol = false
				}
			}
		} else if cl, ok := v.(*ssa.Call); ok && strings.HasPrefix(calleeName(cl.Common()), "slices.ContainsFunc") {
			call = cl
		}
		if call != nil && !pol && len(call.Common().Args) == 2 && sameOrigins(call.Common().Args[0], recv) {
			var pred *ssa.Function
			for _, o := range origins(call.Common().Args[1]) {
				switch x := o.(type) {
				case *ssa.Function:
					pred = x
				case *ssa.MakeClosure:
					pred = x.Fn.(*ssa.Function)
				}
			}
			if pred != nil && len(pred.Params) == 1 {
				okPred := true
				for _, pr := range returnsOf(pred) {
					pv, ppol := normCond(pr.Results[0], true)
					isNotOk := false
					if cl, ok := pv.(*ssa.Call); ok && !ppol {
						if cf := cl.Common().StaticCallee(); cf != nil && cf.Name() == "Ok" && inModule(cf) && sameOrigins(cl.Common().Args[0], pred.Params[0]) {
							isNotOk = true
						}
					}
					if bo, ok := pv.(*ssa.BinOp); ok && ppol && bo.Op == token.NEQ {
						if n, isC := constInt(bo.Y); isC && n == 0 && loadedField(bo.X) == "shell.Result.Status" {
							isNotOk = true
						}
					}
					if !isNotOk {
						okPred = false
					}
				}
				if okPred {
					return true, "no element satisfies 'not Ok' (slices.ContainsFunc / IndexFunc over the whole collection)"
				}
			}
		}
	}
	if len(fi.loops) != 1 {
		return false, "Ok of a collection is not a single loop"
	}
	l := fi.loops[0]
	for _, ret := range rets {
		b, isC := constBool(ret.Results[0])
		if !isC {
			return false, "Ok of a collection returns a non-constant"
		}
		gs := fi.necessaryGuards(ret.Block())
		if b {
			// only after the loop is exhausted
			exhausted := false
			for _, g := range gs {
				if g.e.from == l.header && !l.body[g.e.to()] {
					exhausted = true
				}
			}
			if !exhausted {
				return false, "returns true before all elements were examined"
			}
		} else {
			has := false
			for _, g := range gs {
				if call, ok := g.cond.(*ssa.Call); ok && !g.pol {
					if cf := call.Common().StaticCallee(); cf != nil && cf.Name() == "Ok" {
						// element of the receiver
						es := c.newSlicer()
						es.depth = 0
						if es.run(call.Common().Args[0]).has(recv) {
							has = true
						}
					}
				}
			}
			if !has {
				return false, "returns false without an element's Ok() being false"
			}
		}
	}
	// the loop ranges over the whole receiver
	whole := false
	for _, b := range f.Blocks {
		for _, in := range b.Instrs {
			if call, ok := in.(*ssa.Call); ok {
				if bi, ok := call.Call.Value.(*ssa.Builtin); ok && bi.Name() == "len" {
					for _, o := range append([]ssa.Value{call.Call.Args[0]}, origins(call.Call.Args[0])...) {
						if o == ssa.Value(recv) {
							whole = true // also through a conversion of the named collection to its slice type
						}
					}
				}
			}
		}
	}
	if !whole {
		return false, "the loop does not range over the whole collection"
	}
	return true, "false iff some element is not Ok, examined over the whole collection"
}

// ---- SH2: the interpreter stops a command line at its first failing statement -----------------------------------------------------

// ---- SH3: an exec handler of the module never answers a command with success on its own --------------------------------------------

func ruleSH3(c *Ctx) *rule {
	r := &rule{ID: "SH3", Engine: "E2+E3", Floor: 0,
		Statement: "every function of the module that has the shape of an interpreter exec handler (func(context.Context, []string) error) returns, on every path, the error of the handler it delegates to or an error of its own making, never a constant nil",
		Necessity: "the interpreter turns the handler's error into the command's exit status; a handler that prints a hint and returns nil (for a program that is not installed, say) makes that command exit 0: the invocation succeeds and the task is recorded as up to date"}
	n := 0
	for _, f := range c.ModFuncs {
		sig := f.Signature
		if sig.Params().Len() != 2 || sig.Results().Len() != 1 || !isErrorType(sig.Results().At(0).Type()) {
			continue
		}
		if nm := namedOf(sig.Params().At(0).Type()); nm == nil || nm.Obj().Pkg() == nil || nm.Obj().Pkg().Path() != "context" || nm.Obj().Name() != "Context" {
			continue
		}
		sl, isSl := sig.Params().At(1).Type().Underlying().(*types.Slice)
		if !isSl {
			continue
		}
		if b, isB := sl.Elem().Underlying().(*types.Basic); !isB || b.Kind() != types.String {
			continue
		}
		if len(f.Blocks) == 0 {
			continue
		}
		n++
		for i, ret := range returnsOf(f) {
			key := fmt.Sprintf("%s return#%d", fname(f), i+1)
			ev := returnedErr(ret)
			constNil := false
			if ev == nil {
				constNil = true
			} else {
				for _, o := range append([]ssa.Value{ev}, origins(ev)...) {
					if isNilConst(o) {
						constNil = true
					}
				}
			}
			// a nil that is only returned where a delegated call's error was tested nil is that call's own verdict
			if constNil && ev != nil {
				if _, isPhi := ev.(*ssa.Phi); !isPhi && !isNilConst(ev) {
					constNil = false
				}
			}
			if constNil {
				delegated := false
				for _, g := range c.info(f).necessaryGuards(ret.Block()) {
					if x, nonNilWhenTrue, isTest := errNilTest(g.cond); isTest && nonNilWhenTrue != g.pol {
						if ex, isEx := x.(*ssa.Extract); isEx {
							_ = ex
							delegated = true
						} else if _, isCall := x.(*ssa.Call); isCall {
							delegated = true
						}
					}
				}
				if delegated {
					r.ok(key, c.ipos(ret), "nil only where the delegated call reported nil")
				} else {
					r.bad(key, c.ipos(ret), "the handler answers the command itself and returns nil: the command counts as exit status 0 whatever happened")
				}
			} else {
				r.ok(key, c.ipos(ret), "returns a delegated or constructed error")
			}
		}
	}
	if n == 0 {
		r.ok("module exec handlers", "-", "the module defines no exec handler of its own (the library's default handler runs the commands)")
	}
	return r
}

func ruleSH2(c *Ctx) *rule {
	r := &rule{ID: "SH2", Engine: "E3", Floor: 1,
		Statement: "every implementation of shell.Runner.Run that builds an mvdan.cc/sh interpreter passes interp.Params with the constant \"-e\" (or \"-o\", \"errexit\") to interp.New",
		Necessity: "without errexit the status of a command line is that of its last statement: `cd nowhere; make` or `false; true` exit 0, so a failing command neither fails the invocation nor keeps the task out of the cache"}
	for _, f := range c.runnerImpls() {
		news := callsTo(f, "mvdan.cc/sh/v3/interp.New")
		if len(news) == 0 {
			continue // a runner that is not built on the interpreter (a test double)
		}
		for i, site := range news {
			key := fmt.Sprintf("%s interp.New#%d errexit", fname(f), i+1)
			sl := c.newSlicer()
			sl.depth = 0
			res := sl.run(site.Common().Args...)
			errexit := false
			for _, p := range res.calls["mvdan.cc/sh/v3/interp.Params"] {
				ps := c.newSlicer()
				ps.depth = 0
				var consts []string
				for _, k := range ps.run(p.Common().Args...).consts {
					if s, ok := constString(k); ok {
						consts = append(consts, s)
					}
				}
				for _, s := range consts {
					if s == "errexit" || (strings.HasPrefix(s, "-") && !strings.HasPrefix(s, "--") && strings.Contains(s, "e") && s != "-o") {
						errexit = true
					}
				}
			}
			if errexit {
				r.ok(key, c.ipos(site), "the interpreter runs with errexit")
			} else {
				r.bad(key, c.ipos(site), "the interpreter is created without errexit (-e): a statement that fails in the middle of a command line is ignored")
			}
		}
	}
	return r
}

func ruleST3(c *Ctx) *rule {
	r := &rule{ID: "ST3", Engine: "E3", Floor: 5,
		Statement: "in Runner.Run the interpreter's stdout (stderr) writer is a MultiWriter over a buffer B1 (B2) and the stream's Stdout (Stderr); Result.Stdout is B1.String(), Result.Stderr is B2.String(), B1 != B2; Result.Cmd and the executed program both come from the cmd parameter",
		Necessity: "swapped or shared buffers, or a result text other than what was executed, make the JSON report attribute output to the wrong stream or command"}
	for _, f := range c.runnerImpls() {
		sites := callsTo(f, "mvdan.cc/sh/v3/interp.StdIO")
		if len(sites) == 0 {
			r.undecided(fname(f)+" StdIO", c.pos(f.Pos()), "the runner does not call interp.StdIO")
			continue
		}
		site := sites[0]
		var bufs [2]ssa.Value
		for idx, want := range []string{"Stdout", "Stderr"} {
			key := fmt.Sprintf("%s StdIO.%s=MultiWriter(buffer, stream.%s)", fname(f), strings.ToLower(want), want)
			arg := site.Common().Args[idx+1]
			var mw *ssa.Call
			for _, o := range origins(arg) {
				if call, ok := o.(*ssa.Call); ok && calleeName(call.Common()) == "io.MultiWriter" {
					mw = call
				}
			}
			if mw == nil {
				r.bad(key, c.ipos(site), "the interpreter's "+want+" is not an io.MultiWriter")
				continue
			}
			sl := c.newSlicer()
			sl.depth = 0
			res := sl.run(mw.Common().Args...)
			var buf ssa.Value
			for _, v := range res.order {
				if a, ok := v.(*ssa.Alloc); ok && isNamed(a.Type(), "bytes", "Buffer") {
					buf = a
				}
				// a Buffer that is a field of a local struct (`var out capture; io.MultiWriter(&out.stdout, …)`)
				if fa, ok := v.(*ssa.FieldAddr); ok && isNamed(fa.Type(), "bytes", "Buffer") && baseAlloc(fa) != nil {
					buf = fa
				}
			}
			other := "Stderr"
			if want == "Stderr" {
				other = "Stdout"
			}
			switch {
			case buf == nil:
				r.bad(key, c.ipos(mw), "no capture buffer among the writers")
			case !res.hasField("iostream.IOStream." + want):
				r.bad(key, c.ipos(mw), "the stream's "+want+" is not among the writers (command output would not be echoed, or echoed to the wrong stream)")
			case res.hasField("iostream.IOStream." + other):
				r.bad(key, c.ipos(mw), "the stream's "+other+" is among the writers of the command's "+want)
			default:
				bufs[idx] = buf
				r.ok(key, c.ipos(mw), "capture buffer + stream."+want)
			}
		}
		for idx, want := range []string{"Stdout", "Stderr"} {
			key := fmt.Sprintf("%s Result.%s=buffer.String()", fname(f), want)
			okStore := false
			n := 0
			for _, st := range c.fieldStores()["shell.Result."+want] {
				if st.Parent() != f {
					continue
				}
				n++
				for _, o := range origins(st.Val) {
					if call, ok := o.(*ssa.Call); ok && calleeName(call.Common()) == "(*bytes.Buffer).String" {
						if bufs[idx] != nil && len(origins(call.Common().Args[0])) == 1 && (origins(call.Common().Args[0])[0] == bufs[idx] || sameCell(origins(call.Common().Args[0])[0], bufs[idx])) {
							okStore = true
						}
					}
				}
			}
			switch {
			case bufs[idx] == nil:
				r.bad(key, c.pos(f.Pos()), "no capture buffer identified for "+want)
			case okStore && n == 1:
				r.ok(key, c.pos(f.Pos()), "the captured text of the matching buffer, unmodified")
			default:
				r.bad(key, c.pos(f.Pos()), "Result."+want+" is not exactly the String() of the buffer that captured the command's "+want)
			}
		}
		if bufs[0] != nil && bufs[1] != nil && (bufs[0] == bufs[1] || sameCell(bufs[0], bufs[1])) {
			r.bad(fname(f)+" distinct buffers", c.pos(f.Pos()), "stdout and stderr are captured into the same buffer")
		}
		// Cmd and program
		key := fname(f) + " Result.Cmd=cmd=program"
		cmdP := f.Params[1]
		okCmd := false
		for _, st := range c.fieldStores()["shell.Result.Cmd"] {
			if st.Parent() == f && len(origins(st.Val)) == 1 && origins(st.Val)[0] == ssa.Value(cmdP) {
				okCmd = true
			}
		}
		okProg := false
		for _, rs := range callsTo(f, "(*mvdan.cc/sh/v3/interp.Runner).Run") {
			ps := c.newSlicer()
			ps.depth = 0
			ps.objFlow = true
			if ps.run(rs.Common().Args...).has(cmdP) {
				okProg = true
			}
		}
		if okCmd && okProg {
			r.ok(key, c.pos(f.Pos()), "the reported text is the executed text")
		} else {
			r.bad(key, c.pos(f.Pos()), "Result.Cmd is not the cmd parameter, or the program run is not parsed from it")
		}
	}
	return r
}

func envProperties() []*propertySpec {
	return []*propertySpec{
		{ID: "C13", Title: "Variables reach commands with their spokfile value, by template and environment",
			Explanation: "Static data-flow analysis: EN1 flattens the nested append that builds the argument of expand.ListEnviron and proves that the os.Environ()-derived part precedes the part derived from the runner's env parameter (library contract: last duplicate wins); EN2 proves the chain SpokFile.Vars -> key+\"=\"+value of the same map entry -> Task.Run -> Runner.Run -> ListEnviron -> interp.Env -> interp.New link by link; EN3 proves by backward slicing (with object flow through the template and buffer objects) that Task.Commands is the output of text/template Execute over the AST command text with the variables map as data; EN4 that file.New files each variable under its identifier with the literal/builtin value and that a builtin error is propagated.",
			NotCovered:  []string{"value semantics of join/exec (unit-tested) and of text/template itself", "quoting of values inside the shell"},
			Assumptions: []string{"mvdan.cc/sh/v3/expand.ListEnviron: for duplicate names the last one wins (environ.go)", "godotenv.Load never overrides an ambient variable and only touches the process environment"},
			Rules:       []func(*Ctx) *rule{ruleEN1, ruleEN2, ruleEN3, ruleEN4, ruleEN5, ruleEN6, ruleTK4, rulePS1, rulePS2}},
	}
}

// loadedField names the struct field a value is loaded from ("shell.Result.Status"), or "".
func loadedField(v ssa.Value) string {
	switch x := v.(type) {
	case *ssa.UnOp:
		if x.Op == token.MUL {
			return fieldKey(x.X)
		}
	case *ssa.Field:
		return fieldKey(x)
	}
	return ""
}

package main

import "fmt"

// dumpEffects prints the inventory of file-mutating sites with their entry conditions (diagnosis aid).
func dumpEffects(c *Ctx) {
	for _, m := range c.mutatingSites() {
		fmt.Printf("%-28s %-40s %s %s\n", m.callee, fname(m.fn), c.ipos(m.site), atomList(c.condsAt(m.site)))
	}
}

func dumpFn(c *Ctx, name string) {
	for _, f := range c.ModFuncs {
		if fname(f) == name {
			f.WriteTo(osStdout{})
		}
	}
}

type osStdout struct{}

func (osStdout) Write(p []byte) (int, error) { fmt.Print(string(p)); return len(p), nil }

package main

import (
	"go/token"
	"go/types"
	"sort"
	"strings"

	"golang.org/x/tools/go/ssa"
)

// slicer computes a backward data slice over SSA values. Memory is modelled per local allocation
// (a load depends on every store into the allocation or a part of it) and, when fieldMem is set,
// field-based for struct fields of module types (a load of T.f depends on every store to T.f in the module).
type slicer struct {
	c         *Ctx
	depth     int                        // inter-procedural depth (into callees' returns, out to callers' arguments)
	fieldMem  bool                       // follow stores to the same struct field across the module
	stop      func(v ssa.Value) bool     // values at which the walk stops (they are still recorded)
	noCallee  func(f *ssa.Function) bool // callees that are not entered
	seen      map[ssa.Value]bool
	order     []ssa.Value
	control   bool                                    // also follow the conditions selecting phi operands
	objFlow   bool                                    // a call on an object (interface / pointer receiver) depends on what other calls fed into that object
	fieldStop bool                                    // a field of a non-local struct is a root: its base pointer is not followed (provenance queries)
	entered   map[*ssa.Function][]ssa.CallInstruction // call sites through which a callee was entered (parameters bind to those only)
}

func (c *Ctx) newSlicer() *slicer {
	return &slicer{c: c, depth: c.Depth, seen: map[ssa.Value]bool{}}
}

type sliceResult struct {
	vals   map[ssa.Value]bool
	order  []ssa.Value
	fields map[string][]ssa.Value // "file.SpokFile.Globs" -> FieldAddr/Field values
	calls  map[string][]*ssa.Call // callee full name -> calls whose result is in the slice
	params []*ssa.Parameter
	consts []*ssa.Const
	phis   []*ssa.Phi
	globs  []*ssa.Global
}

func (s *slicer) run(roots ...ssa.Value) *sliceResult {
	for _, r := range roots {
		s.visit(r, s.depth)
	}
	res := &sliceResult{vals: s.seen, order: s.order, fields: map[string][]ssa.Value{}, calls: map[string][]*ssa.Call{}}
	for _, v := range s.order {
		switch x := v.(type) {
		case *ssa.FieldAddr, *ssa.Field:
			k := fieldKey(v)
			if s.fieldStop && s.c.ephemeralField(k) {
				continue // a field of a helper struct that only lives in locals: not a root, its stores were followed
			}
			if fa, isFA := v.(*ssa.FieldAddr); isFA && s.fieldStop && s.c.inConstTable(fa) {
				continue // an entry of a package-level table of constants
			}
			if fa, isFA := v.(*ssa.FieldAddr); isFA && s.fieldStop && s.c.copyOfConstRow(fa) {
				continue // a field of a local copy of such an entry (a value receiver spilled to a local)
			}
			if fl, isF := v.(*ssa.Field); isF && s.fieldStop {
				// the same through a copy of the entry (a value receiver, `row := table[i]`)
				if u, isLoad := fl.X.(*ssa.UnOp); isLoad && u.Op == token.MUL && s.c.inConstTable(u.X) {
					continue
				}
			}
			if s.fieldStop && strings.HasPrefix(k, ".") {
				continue // a field of an unnamed struct type (a local row of a table): where its value comes from has been followed
			}
			res.fields[k] = append(res.fields[k], v)
		case *ssa.Call:
			n := calleeName(x.Common())
			res.calls[n] = append(res.calls[n], x)
		case *ssa.Parameter:
			res.params = append(res.params, x)
		case *ssa.Const:
			res.consts = append(res.consts, x)
		case *ssa.Phi:
			res.phis = append(res.phis, x)
		case *ssa.Global:
			res.globs = append(res.globs, x)
		}
	}
	return res
}

func (r *sliceResult) has(v ssa.Value) bool { return r.vals[v] }

func (r *sliceResult) hasField(k string) bool { return len(r.fields[k]) > 0 }

func (r *sliceResult) hasCall(name string) bool { return len(r.calls[name]) > 0 }

func (r *sliceResult) fieldKeys() []string {
	var out []string
	for k := range r.fields {
		out = append(out, k)
	}
	sort.Strings(out)
	return out
}

func (r *sliceResult) callNames() []string {
	var out []string
	for k := range r.calls {
		out = append(out, k)
	}
	sort.Strings(out)
	return out
}

func (s *slicer) visit(v ssa.Value, depth int) {
	if v == nil || s.seen[v] {
		return
	}
	s.seen[v] = true
	s.order = append(s.order, v)
	if s.stop != nil && s.stop(v) {
		return
	}
	switch x := v.(type) {
	case *ssa.Const, *ssa.Global, *ssa.Builtin, *ssa.Function:
	case *ssa.Parameter:
		s.param(x, depth)
	case *ssa.FreeVar:
		s.freeVar(x, depth)
	case *ssa.Phi:
		for _, e := range x.Edges {
			s.visit(e, depth)
		}
		if s.control {
			fi := s.c.info(x.Parent())
			for i, p := range x.Block().Preds {
				for _, g := range fi.guardsOfEdge(edge{p, succIndex(p, x.Block())}) {
					_ = i
					s.visit(g.cond, depth)
				}
			}
		}
	case *ssa.Alloc:
		s.allocStores(x, depth)
	case *ssa.UnOp:
		if x.Op == token.MUL { // load
			s.load(x, depth)
		} else {
			s.visit(x.X, depth)
		}
	case *ssa.BinOp:
		s.visit(x.X, depth)
		s.visit(x.Y, depth)
	case *ssa.Call:
		s.call(x, depth)
	case *ssa.Extract:
		if call, ok := x.Tuple.(*ssa.Call); ok && !s.seen[call] {
			s.seen[call] = true
			s.order = append(s.order, call)
			if s.stop == nil || !s.stop(call) {
				s.callResult(call, depth, x.Index)
			}
			return
		}
		s.visit(x.Tuple, depth)
	case *ssa.Lookup:
		s.visit(x.X, depth)
		s.visit(x.Index, depth)
	case *ssa.Index:
		s.visit(x.X, depth)
		s.visit(x.Index, depth)
	case *ssa.IndexAddr:
		s.visit(x.X, depth)
		s.visit(x.Index, depth)
	case *ssa.FieldAddr:
		if s.fieldStop && baseAlloc(x) == nil {
			if k := fieldKey(x); s.c.ephemeralField(k) {
				for _, st := range s.c.fieldStores()[k] {
					if isModuleStructPtr(st.Val.Type()) {
						continue // a handle on a long-lived object, not data: what is read from it is accounted for at the read
					}
					s.visit(st.Val, depth)
				}
			}
			return
		}
		s.visit(x.X, depth)
	case *ssa.Field:
		s.visit(x.X, depth)
	case *ssa.Slice:
		s.visit(x.X, depth)
	case *ssa.MakeInterface:
		s.visit(x.X, depth)
	case *ssa.ChangeType:
		s.visit(x.X, depth)
	case *ssa.Convert:
		s.visit(x.X, depth)
	case *ssa.ChangeInterface:
		s.visit(x.X, depth)
	case *ssa.MultiConvert:
		s.visit(x.X, depth)
	case *ssa.SliceToArrayPointer:
		s.visit(x.X, depth)
	case *ssa.TypeAssert:
		s.visit(x.X, depth)
	case *ssa.MakeClosure:
		s.visit(x.Fn, depth)
		for _, b := range x.Bindings {
			s.visit(b, depth)
		}
	case *ssa.MakeSlice:
		s.visit(x.Len, depth)
	case *ssa.MakeMap, *ssa.MakeChan:
		// contents arrive through MapUpdate / Send: follow them
		for _, r := range valueReferrers(v) {
			switch u := r.(type) {
			case *ssa.MapUpdate:
				if u.Map == v {
					s.visit(u.Key, depth)
					s.visit(u.Value, depth)
				}
			case *ssa.Send:
				if u.Chan == v {
					s.visit(u.X, depth)
				}
			}
		}
	case *ssa.Range:
		s.visit(x.X, depth)
	case *ssa.Next:
		s.visit(x.Iter, depth)
	case *ssa.Select:
		for _, st := range x.States {
			s.visit(st.Chan, depth)
		}
	}
}

// derivedAddrs returns a and every address computed from it by FieldAddr / IndexAddr / Slice.
func derivedAddrs(a ssa.Value) []ssa.Value {
	out := []ssa.Value{a}
	for i := 0; i < len(out); i++ {
		for _, r := range valueReferrers(out[i]) {
			switch u := r.(type) {
			case *ssa.FieldAddr:
				if u.X == out[i] {
					out = append(out, u)
				}
			case *ssa.IndexAddr:
				if u.X == out[i] {
					out = append(out, u)
				}
			}
		}
	}
	return out
}

func (s *slicer) allocStores(a *ssa.Alloc, depth int) {
	for _, addr := range derivedAddrs(a) {
		for _, r := range valueReferrers(addr) {
			if st, ok := r.(*ssa.Store); ok && st.Addr == addr {
				s.visit(st.Val, depth)
			}
		}
	}
}

// baseAlloc walks FieldAddr/IndexAddr chains back to a local allocation, if any.
func baseAlloc(addr ssa.Value) *ssa.Alloc {
	for {
		switch x := addr.(type) {
		case *ssa.Alloc:
			return x
		case *ssa.FieldAddr:
			addr = x.X
		case *ssa.IndexAddr:
			addr = x.X
		default:
			return nil
		}
	}
}

func (s *slicer) load(u *ssa.UnOp, depth int) {
	addr := u.X
	if fa, ok := addr.(*ssa.FieldAddr); ok {
		if a, isAlloc := fa.X.(*ssa.Alloc); isAlloc {
			// a field of a local struct: only what is stored into that field matters (below), not its sibling fields
			for _, v := range []ssa.Value{fa, a} {
				if !s.seen[v] {
					s.seen[v] = true
					s.order = append(s.order, v)
				}
			}
		}
	}
	s.visit(addr, depth)
	if a := baseAlloc(addr); a != nil {
		// precise for the exact sub-address when it is a field of a local struct
		if fa, ok := addr.(*ssa.FieldAddr); ok && fa.X == ssa.Value(a) {
			found := false
			for _, r := range valueReferrers(a) {
				if fb, ok := r.(*ssa.FieldAddr); ok && fb.Field == fa.Field {
					for _, rr := range valueReferrers(fb) {
						if st, ok := rr.(*ssa.Store); ok && st.Addr == ssa.Value(fb) {
							s.visit(st.Val, depth)
							found = true
						}
					}
				}
			}
			// whole-struct stores
			for _, r := range valueReferrers(a) {
				if st, ok := r.(*ssa.Store); ok && st.Addr == ssa.Value(a) {
					s.visit(st.Val, depth)
					found = true
				}
			}
			_ = found
			// a helper struct whose address is handed to its methods (a collector, a builder): they store into the field too
			if k := fieldKey(fa); s.c.ephemeralField(k) {
				for _, st := range s.c.fieldStores()[k] {
					if s.fieldStop && isModuleStructPtr(st.Val.Type()) {
						continue
					}
					s.visit(st.Val, depth)
				}
			}
			return
		}
		s.allocStores(a, depth)
		return
	}
	if fa, ok := addr.(*ssa.FieldAddr); ok && s.fieldMem {
		key := fieldKey(fa)
		for _, st := range s.c.fieldStores()[key] {
			s.visit(st.Val, depth)
		}
	}
	if g, ok := addr.(*ssa.Global); ok && s.fieldMem {
		for _, st := range s.c.globalStores()[g] {
			s.visit(st.Val, depth)
		}
	}
}

// objectFeeds visits the arguments of every call that takes (an interface/conversion alias of) obj: what was written
// into a hash, builder or buffer object is part of what a later call on it returns.
func (s *slicer) objectFeeds(obj ssa.Value, depth int) {
	roots := origins(obj)
	al := map[ssa.Value]bool{}
	var grow func(v ssa.Value)
	grow = func(v ssa.Value) {
		if al[v] {
			return
		}
		al[v] = true
		for _, ref := range valueReferrers(v) {
			switch r := ref.(type) {
			case *ssa.ChangeInterface:
				grow(r)
			case *ssa.MakeInterface:
				grow(r)
			case *ssa.ChangeType:
				grow(r)
			case *ssa.Phi:
				grow(r)
			}
		}
	}
	for _, r := range roots {
		grow(r)
	}
	for a := range al {
		for _, ref := range valueReferrers(a) {
			if ci, ok := ref.(ssa.CallInstruction); ok {
				if cv, isVal := ci.(*ssa.Call); isVal && !s.seen[cv] {
					// the feeding call itself is part of the slice (recorded, its other arguments followed below)
					s.seen[cv] = true
					s.order = append(s.order, cv)
				}
				if ci.Common().IsInvoke() && !al[ci.Common().Value] {
					s.visit(ci.Common().Value, depth)
				}
				for _, arg := range ci.Common().Args {
					if !al[arg] {
						s.visit(arg, depth)
					}
				}
			}
		}
	}
}

func (s *slicer) call(x *ssa.Call, depth int) { s.callResult(x, depth, -1) }

// callResult follows a call for its result number idx (-1: all results).
func (s *slicer) callResult(x *ssa.Call, depth int, idx int) {
	cc := x.Common()
	if cc.IsInvoke() {
		s.visit(cc.Value, depth)
		if s.objFlow {
			s.objectFeeds(cc.Value, depth)
		}
	} else if _, ok := cc.Value.(*ssa.Function); !ok {
		s.visit(cc.Value, depth)
	} else if s.objFlow && cc.Signature().Recv() != nil && len(cc.Args) > 0 {
		if _, isPtr := cc.Args[0].Type().Underlying().(*types.Pointer); isPtr {
			s.objectFeeds(cc.Args[0], depth)
		}
	}
	for _, a := range cc.Args {
		if s.fieldStop && isModuleStructPtr(a.Type()) {
			continue // the object's state is accounted for by the fields read in the callee
		}
		s.visit(a, depth)
	}
	if depth <= 0 {
		return
	}
	for _, f := range s.c.callees(x) {
		if !inModule(f) || len(f.Blocks) == 0 {
			continue
		}
		if s.noCallee != nil && s.noCallee(f) {
			continue
		}
		if s.entered == nil {
			s.entered = map[*ssa.Function][]ssa.CallInstruction{}
		}
		s.entered[f] = append(s.entered[f], x)
		for _, r := range returnsOf(f) {
			for i, rv := range r.Results {
				if idx >= 0 && i != idx {
					continue
				}
				s.visit(rv, depth-1)
			}
		}
	}
}

func (s *slicer) param(p *ssa.Parameter, depth int) {
	if depth <= 0 {
		return
	}
	fn := p.Parent()
	idx := -1
	for i, q := range fn.Params {
		if q == p {
			idx = i
		}
	}
	if idx < 0 {
		return
	}
	sites := s.c.callersOf(fn)
	if es := s.entered[fn]; len(es) > 0 {
		sites = es // entered through these call sites: bind the parameter in their context only
		depth++    // coming back out of a callee does not consume depth
	}
	for _, site := range sites {
		cc := site.Common()
		args := cc.Args
		if cc.IsInvoke() {
			// receiver is cc.Value, Args are the rest
			if idx == 0 {
				s.visit(cc.Value, depth-1)
				continue
			}
			if idx-1 < len(args) {
				s.visit(args[idx-1], depth-1)
			}
			continue
		}
		// calls through a closure value pass bindings separately; parameters line up with Args
		if idx < len(args) {
			s.visit(args[idx], depth-1)
		}
	}
}

func (s *slicer) freeVar(fv *ssa.FreeVar, depth int) {
	fn := fv.Parent()
	idx := -1
	for i, q := range fn.FreeVars {
		if q == fv {
			idx = i
		}
	}
	if idx < 0 || fn.Parent() == nil {
		return
	}
	// the closure may be created in any canonical body (the creating helper may have been inlined into its callers)
	for _, mc := range s.c.closureSites()[fn] {
		if idx < len(mc.Bindings) {
			s.visit(mc.Bindings[idx], depth)
		}
	}
}

// closureSites indexes the MakeClosure instructions of the canonical module functions by the closure they create.
func (c *Ctx) closureSites() map[*ssa.Function][]*ssa.MakeClosure {
	e := c.ensureEffects()
	if e.closureSites != nil {
		return e.closureSites
	}
	m := map[*ssa.Function][]*ssa.MakeClosure{}
	for _, f := range c.ModFuncs {
		for _, b := range f.Blocks {
			for _, i := range b.Instrs {
				if mc, ok := i.(*ssa.MakeClosure); ok {
					if g, ok := mc.Fn.(*ssa.Function); ok {
						m[g] = append(m[g], mc)
					}
				}
			}
		}
	}
	e.closureSites = m
	return m
}

// fieldStores indexes every store to a struct field in the module: "pkg.T.f" -> stores.
func (c *Ctx) fieldStores() map[string][]*ssa.Store {
	if c.effects != nil && c.effects.fieldStores != nil {
		return c.effects.fieldStores
	}
	m := map[string][]*ssa.Store{}
	for _, fn := range c.ModFuncs {
		for _, b := range fn.Blocks {
			for _, i := range b.Instrs {
				if st, ok := i.(*ssa.Store); ok {
					if fa, ok := st.Addr.(*ssa.FieldAddr); ok {
						k := fieldKey(fa)
						m[k] = append(m[k], st)
					}
				}
			}
		}
	}
	c.ensureEffects().fieldStores = m
	return m
}

func (c *Ctx) globalStores() map[*ssa.Global][]*ssa.Store {
	e := c.ensureEffects()
	if e.globalStores != nil {
		return e.globalStores
	}
	m := map[*ssa.Global][]*ssa.Store{}
	for _, fn := range c.ModFuncs {
		for _, b := range fn.Blocks {
			for _, i := range b.Instrs {
				if st, ok := i.(*ssa.Store); ok {
					if g, ok := st.Addr.(*ssa.Global); ok {
						m[g] = append(m[g], st)
					}
				}
			}
		}
	}
	e.globalStores = m
	return m
}

// origins follows only value-preserving steps (extract, phi, conversions between identical underlying
// types, loads of local single-purpose cells) and returns the set of values v can be a copy of.
func origins(v ssa.Value) []ssa.Value {
	seen := map[ssa.Value]bool{}
	var out []ssa.Value
	var walk func(v ssa.Value)
	walk = func(v ssa.Value) {
		if v == nil || seen[v] {
			return
		}
		seen[v] = true
		switch x := v.(type) {
		case *ssa.Phi:
			for _, e := range x.Edges {
				walk(e)
			}
		case *ssa.ChangeType:
			walk(x.X)
		case *ssa.Convert:
			if types.Identical(x.Type().Underlying(), x.X.Type().Underlying()) {
				walk(x.X)
			} else {
				out = append(out, v)
			}
		case *ssa.MakeInterface:
			walk(x.X)
		case *ssa.ChangeInterface:
			walk(x.X)
		case *ssa.UnOp:
			if x.Op == token.MUL {
				if a, ok := x.X.(*ssa.Alloc); ok {
					n := 0
					for _, r := range valueReferrers(a) {
						if st, ok := r.(*ssa.Store); ok && st.Addr == ssa.Value(a) {
							walk(st.Val)
							n++
						}
					}
					if n > 0 {
						return
					}
				}
			}
			out = append(out, v)
		default:
			out = append(out, v)
		}
	}
	walk(v)
	return out
}

// extractOf returns (call, index) when v is `extract call #index` or the call itself (index 0 for single results).
func extractOf(v ssa.Value) (*ssa.Call, int) {
	switch x := v.(type) {
	case *ssa.Extract:
		if c, ok := x.Tuple.(*ssa.Call); ok {
			return c, x.Index
		}
	case *ssa.Call:
		return x, 0
	}
	return nil, -1
}

// resultOf reports whether every origin of v is result #idx of call.
func isResultOf(v ssa.Value, call *ssa.Call, idx int) bool {
	os := origins(v)
	n := 0
	for _, o := range os {
		if isNilConst(o) {
			continue // the error path of an inlined helper hands out a nil value
		}
		n++
		c, i := extractOf(o)
		if c != call || i != idx {
			return false
		}
	}
	return n > 0
}

// someOriginIsResultOf: at least one origin of v is result #idx of call.
func someOriginIsResultOf(v ssa.Value, call *ssa.Call, idx int) bool {
	for _, o := range origins(v) {
		c, i := extractOf(o)
		if c == call && i == idx {
			return true
		}
	}
	return false
}

func constString(v ssa.Value) (string, bool) {
	c, ok := v.(*ssa.Const)
	if !ok || c.Value == nil {
		return "", false
	}
	if b, ok := c.Type().Underlying().(*types.Basic); !ok || b.Info()&types.IsString == 0 {
		return "", false
	}
	return constantStringVal(c), true
}

func constBool(v ssa.Value) (bool, bool) {
	c, ok := v.(*ssa.Const)
	if !ok || c.Value == nil {
		return false, false
	}
	if b, ok := c.Type().Underlying().(*types.Basic); !ok || b.Info()&types.IsBoolean == 0 {
		return false, false
	}
	return constantBoolVal(c), true
}

func constInt(v ssa.Value) (int64, bool) {
	c, ok := v.(*ssa.Const)
	if !ok || c.Value == nil {
		return 0, false
	}
	if b, ok := c.Type().Underlying().(*types.Basic); !ok || b.Info()&types.IsInteger == 0 {
		return 0, false
	}
	return c.Int64(), true
}

func isModuleStructPtr(t types.Type) bool {
	p, ok := t.Underlying().(*types.Pointer)
	if !ok {
		return false
	}
	n, ok := p.Elem().(*types.Named)
	if !ok || n.Obj().Pkg() == nil {
		return false
	}
	if _, isStruct := n.Underlying().(*types.Struct); !isStruct {
		return false
	}
	path := n.Obj().Pkg().Path()
	return path == modPath || len(path) > len(modPath) && path[:len(modPath)+1] == modPath+"/"
}

// originsKeepPhi is origins(), except that the given phi is kept as an origin instead of being looked through.
func originsKeepPhi(v ssa.Value, keep *ssa.Phi) []ssa.Value {
	seen := map[ssa.Value]bool{}
	var out []ssa.Value
	var walk func(v ssa.Value)
	walk = func(v ssa.Value) {
		if v == nil || seen[v] {
			return
		}
		seen[v] = true
		if v == ssa.Value(keep) {
			out = append(out, v)
			return
		}
		if phi, ok := v.(*ssa.Phi); ok {
			for _, e := range phi.Edges {
				walk(e)
			}
			return
		}
		out = append(out, origins(v)...)
	}
	walk(v)
	return out
}

// ephemeralField: key names a field of a module struct type that only ever lives in local variables and parameters: the type
// is unexported and is not (transitively) the type of a field of an exported module struct, nor of a package-level variable.
// Such structs are bundles of locals (a collector, a builder, a session); their fields are not places where data rests
// between calls, so provenance queries look through them.
func (c *Ctx) ephemeralField(key string) bool {
	i := strings.LastIndexByte(key, '.')
	if i < 0 {
		return false
	}
	return c.ephemeralTypes()[key[:i]]
}

func (c *Ctx) ephemeralTypes() map[string]bool {
	if c.ephemeral != nil {
		return c.ephemeral
	}
	longLived := map[*types.Named]bool{}
	var mark func(t types.Type, depth int)
	mark = func(t types.Type, depth int) {
		if depth > 8 || t == nil {
			return
		}
		switch x := t.(type) {
		case *types.Named:
			if longLived[x] {
				return
			}
			if x.Obj().Pkg() == nil || !strings.HasPrefix(x.Obj().Pkg().Path(), modPath) {
				return
			}
			longLived[x] = true
			mark(x.Underlying(), depth+1)
		case *types.Pointer:
			mark(x.Elem(), depth+1)
		case *types.Slice:
			mark(x.Elem(), depth+1)
		case *types.Array:
			mark(x.Elem(), depth+1)
		case *types.Chan:
			mark(x.Elem(), depth+1)
		case *types.Map:
			mark(x.Key(), depth+1)
			mark(x.Elem(), depth+1)
		case *types.Struct:
			for i := 0; i < x.NumFields(); i++ {
				mark(x.Field(i).Type(), depth+1)
			}
		}
	}
	var all []*types.Named
	for _, p := range c.SSAPkgs {
		if p == nil || !strings.HasPrefix(p.Pkg.Path(), modPath) {
			continue
		}
		for _, m := range p.Members {
			switch x := m.(type) {
			case *ssa.Type:
				if n, ok := x.Type().(*types.Named); ok {
					all = append(all, n)
					if x.Object().Exported() {
						mark(n, 0)
					}
				}
			case *ssa.Global:
				mark(x.Type(), 0)
			}
		}
	}
	c.ephemeral = map[string]bool{}
	for _, n := range all {
		if _, isStruct := n.Underlying().(*types.Struct); isStruct && !longLived[n] {
			c.ephemeral[shortPkg(n.Obj().Pkg().Path())+"."+n.Obj().Name()] = true
		}
	}
	return c.ephemeral
}

// copyOfConstRow: the field belongs to a local variable that is only ever assigned whole entries of constant tables.
func (c *Ctx) copyOfConstRow(fa *ssa.FieldAddr) bool {
	al, ok := fa.X.(*ssa.Alloc)
	if !ok || al.Referrers() == nil {
		return false
	}
	n := 0
	for _, ref := range *al.Referrers() {
		switch x := ref.(type) {
		case *ssa.Store:
			if x.Addr != ssa.Value(al) {
				return false
			}
			u, isLoad := x.Val.(*ssa.UnOp)
			if !isLoad || u.Op != token.MUL || !c.inConstTable(u.X) {
				return false
			}
			n++
		case *ssa.FieldAddr:
			// stores into single fields make it something else
			if x.Referrers() != nil {
				for _, r2 := range *x.Referrers() {
					if st, isSt := r2.(*ssa.Store); isSt && st.Addr == ssa.Value(x) {
						return false
					}
				}
			}
		case *ssa.UnOp, *ssa.DebugRef:
		default:
			return false
		}
	}
	return n > 0
}

// inConstTable: the address lies inside a package-level variable of the module that is only ever written by its package
// initialiser, with constants (a table such as `var markers = [...]struct{name, contents string}{…}`).
func (c *Ctx) inConstTable(addr ssa.Value) bool {
	var g *ssa.Global
	for v := addr; g == nil; {
		switch x := v.(type) {
		case *ssa.FieldAddr:
			v = x.X
		case *ssa.IndexAddr:
			v = x.X
		case *ssa.Global:
			g = x
		default:
			return false
		}
	}
	if g.Pkg == nil || !strings.HasPrefix(g.Pkg.Pkg.Path(), modPath) {
		return false
	}
	if c.constTables == nil {
		c.constTables = map[*ssa.Global]bool{}
		written := map[*ssa.Global]bool{} // written outside init or with a non-constant
		seen := map[*ssa.Global]bool{}
		for _, p := range c.SSAPkgs {
			if p == nil || !strings.HasPrefix(p.Pkg.Path(), modPath) {
				continue
			}
			var fns []*ssa.Function
			for _, m := range p.Members {
				if f, ok := m.(*ssa.Function); ok {
					fns = append(fns, f)
					fns = append(fns, f.AnonFuncs...)
				}
			}
			fns = append(fns, c.ModFuncs...)
			for _, f := range fns {
				for _, b := range f.Blocks {
					for _, in := range b.Instrs {
						st, ok := in.(*ssa.Store)
						if !ok {
							continue
						}
						var base *ssa.Global
						for v := st.Addr; base == nil; {
							switch x := v.(type) {
							case *ssa.FieldAddr:
								v = x.X
							case *ssa.IndexAddr:
								v = x.X
							case *ssa.Global:
								base = x
							default:
								v = nil
							}
							if v == nil {
								break
							}
						}
						if base == nil {
							continue
						}
						seen[base] = true
						if _, isC := st.Val.(*ssa.Const); !isC || f.Name() != "init" {
							written[base] = true
						}
					}
				}
			}
		}
		for gl := range seen {
			if !written[gl] {
				c.constTables[gl] = true
			}
		}
	}
	return c.constTables[g]
}

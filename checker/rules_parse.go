package main

import (
	"fmt"
	"go/ast"
	"go/token"
	"go/types"
	"sort"
	"strings"

	"golang.org/x/tools/go/packages"
	"golang.org/x/tools/go/ssa"
)

// ---- C08: typed-syntax rules PR1 / PR2 ---------------------------------------------------------------------------------

func (c *Ctx) typPkg(short string) *packages.Package {
	p := c.TypPkgs[modPath+"/"+short]
	if p == nil {
		lost("package %s (syntax)", short)
	}
	return p
}

// isTokenIsCall recognises X.Is(token.<name>) with X an identifier; returns X's object.
func isTokenIsCall(info *types.Info, e ast.Expr, name string) (types.Object, *ast.Ident, bool) {
	call, ok := e.(*ast.CallExpr)
	if !ok || len(call.Args) != 1 {
		return nil, nil, false
	}
	sel, ok := call.Fun.(*ast.SelectorExpr)
	if !ok || sel.Sel.Name != "Is" {
		return nil, nil, false
	}
	fn, ok := info.Uses[sel.Sel].(*types.Func)
	if !ok || fn.Pkg() == nil || fn.Pkg().Path() != modPath+"/token" {
		return nil, nil, false
	}
	var argObj types.Object
	switch a := call.Args[0].(type) {
	case *ast.SelectorExpr:
		argObj = info.Uses[a.Sel]
	case *ast.Ident:
		argObj = info.Uses[a]
	}
	cst, ok := argObj.(*types.Const)
	if !ok || cst.Name() != name || cst.Pkg() == nil || cst.Pkg().Path() != modPath+"/token" {
		return nil, nil, false
	}
	id, ok := sel.X.(*ast.Ident)
	if !ok {
		return nil, nil, true // e.g. p.next().Is(...): matched, but no identifier
	}
	return info.Uses[id], id, true
}

// valueSelectorsOf collects the objects Y of every `Y.Value` selector below n.
func valueSelectorsOf(info *types.Info, n ast.Node) []types.Object {
	var out []types.Object
	ast.Inspect(n, func(x ast.Node) bool {
		sel, ok := x.(*ast.SelectorExpr)
		if !ok || sel.Sel.Name != "Value" {
			return true
		}
		if id, ok := sel.X.(*ast.Ident); ok {
			if v, ok := info.Uses[sel.Sel].(*types.Var); ok && v.IsField() {
				out = append(out, info.Uses[id])
			}
		}
		return true
	})
	return out
}

func enclosingFunc(file *ast.File, pos token.Pos) string {
	name := "?"
	for _, d := range file.Decls {
		if fd, ok := d.(*ast.FuncDecl); ok && fd.Pos() <= pos && pos <= fd.End() {
			name = fd.Name.Name
			if fd.Recv != nil && len(fd.Recv.List) > 0 {
				t := fd.Recv.List[0].Type
				if st, ok := t.(*ast.StarExpr); ok {
					t = st.X
				}
				if id, ok := t.(*ast.Ident); ok {
					name = id.Name + "." + name
				}
			}
		}
	}
	return name
}

func rulePR1(c *Ctx) *rule {
	r := &rule{ID: "PR1", Engine: "E6", Floor: 1,
		Statement: "wherever the parser tests X.Is(token.ERROR), the error returned from that arm is built from X.Value — the value of the very token that was tested — and the arm does return",
		Necessity: "the lexer's ERROR token is the only carrier of 'Line n' and the quoted line; substituting another token's Value loses the location (the whole message becomes e.g. '(')"}
	p := c.typPkg("parser")
	info := p.TypesInfo
	nSite := map[string]int{}
	for _, file := range p.Syntax {
		ast.Inspect(file, func(n ast.Node) bool {
			var cond ast.Expr
			var body []ast.Stmt
			switch x := n.(type) {
			case *ast.CaseClause:
				for _, e := range x.List {
					if _, _, ok := isTokenIsCall(info, e, "ERROR"); ok {
						cond = e
					}
				}
				body = x.Body
			case *ast.IfStmt:
				if _, _, ok := isTokenIsCall(info, x.Cond, "ERROR"); ok {
					cond = x.Cond
					body = x.Body.List
				}
			}
			if cond == nil {
				return true
			}
			obj, id, _ := isTokenIsCall(info, cond, "ERROR")
			fn := enclosingFunc(file, cond.Pos())
			nSite[fn]++
			key := fmt.Sprintf("parser.%s ERROR-arm#%d", fn, nSite[fn])
			pos := c.pos(cond.Pos())
			if obj == nil || id == nil {
				r.undecided(key, pos, "the tested token is not a plain identifier")
				return true
			}
			var rets []*ast.ReturnStmt
			for _, s := range body {
				ast.Inspect(s, func(y ast.Node) bool {
					if rs, ok := y.(*ast.ReturnStmt); ok {
						rets = append(rets, rs)
					}
					_, isFn := y.(*ast.FuncLit)
					return !isFn
				})
			}
			if len(rets) == 0 {
				r.bad(key, pos, "the arm for an ERROR token does not return: parsing continues past a lexer error")
				return true
			}
			for _, rs := range rets {
				objs := valueSelectorsOf(info, rs)
				// the tested token handed as a whole to a helper that builds the error also carries its Value
				ast.Inspect(rs, func(y ast.Node) bool {
					if call, ok := y.(*ast.CallExpr); ok {
						for _, a := range call.Args {
							if aid, ok := a.(*ast.Ident); ok && info.Uses[aid] == obj {
								objs = append(objs, obj)
							}
						}
					}
					return true
				})
				same, other := false, ""
				for _, o := range objs {
					if o == obj {
						same = true
					} else if o != nil {
						other = o.Name()
					}
				}
				switch {
				case same && other == "":
					r.ok(key, c.pos(rs.Pos()), "returns the tested token's own message ("+id.Name+".Value)")
				case other != "":
					r.bad(key, c.pos(rs.Pos()), fmt.Sprintf("the arm tests %s.Is(token.ERROR) but reports %s.Value: the lexer's located message is replaced by the text of another token", id.Name, other))
				default:
					r.bad(key, c.pos(rs.Pos()), "the arm for an ERROR token returns without the token's Value: the lexer's located message is lost")
				}
			}
			return true
		})
	}
	return r
}

func rulePR2(c *Ctx) *rule {
	r := &rule{ID: "PR2", Engine: "E6", Floor: 1,
		Statement: "in every illegalToken{encountered: X, line: getLine(Y)} literal, X and Y are the same token",
		Necessity: "the message cites encountered.Line and quotes `line`; if they come from different tokens the quoted text is not the cited line"}
	p := c.typPkg("parser")
	info := p.TypesInfo
	nSite := map[string]int{}
	for _, file := range p.Syntax {
		ast.Inspect(file, func(n ast.Node) bool {
			cl, ok := n.(*ast.CompositeLit)
			if !ok {
				return true
			}
			t := info.TypeOf(cl)
			nt, ok := t.(*types.Named)
			if !ok || nt.Obj().Name() != "illegalToken" {
				return true
			}
			fn := enclosingFunc(file, cl.Pos())
			nSite[fn]++
			key := fmt.Sprintf("parser.%s illegalToken#%d", fn, nSite[fn])
			var enc, line types.Object
			var encName, lineName string
			for _, el := range cl.Elts {
				kv, ok := el.(*ast.KeyValueExpr)
				if !ok {
					continue
				}
				k, _ := kv.Key.(*ast.Ident)
				if k == nil {
					continue
				}
				switch k.Name {
				case "encountered":
					if id, ok := kv.Value.(*ast.Ident); ok {
						enc, encName = info.Uses[id], id.Name
					}
				case "line":
					if call, ok := kv.Value.(*ast.CallExpr); ok && len(call.Args) == 1 {
						if id, ok := call.Args[0].(*ast.Ident); ok {
							line, lineName = info.Uses[id], id.Name
						}
					}
				}
			}
			switch {
			case enc == nil || line == nil:
				r.undecided(key, c.pos(cl.Pos()), "encountered / line are not of the form X / getLine(Y) with identifiers")
			case enc == line:
				r.ok(key, c.pos(cl.Pos()), "encountered and quoted line come from the same token "+encName)
			default:
				r.bad(key, c.pos(cl.Pos()), fmt.Sprintf("the error cites the line number of %s but quotes the line of %s", encName, lineName))
			}
			return true
		})
	}
	return r
}

// ---- E4: lexer state graph -------------------------------------------------------------------------------------------------

type lexState struct {
	fn    *ssa.Function
	next  map[*ssa.Function]bool
	emits map[int64]bool
	nil_  []*ssa.Return // returns of a constant nil state
	errs  int           // returns of l.error(...)
}

func (c *Ctx) lexStates() (map[*ssa.Function]*lexState, *ssa.Function, *ssa.Function) {
	lexPkg := c.pkg("lexer")
	lexFnT, ok := lexPkg.Members["lexFn"].(*ssa.Type)
	if !ok {
		lost("type lexer.lexFn")
	}
	emit := c.method("lexer", "Lexer", "emit")
	errM := c.method("lexer", "Lexer", "error")
	states := map[*ssa.Function]*lexState{}
	isState := func(f *ssa.Function) bool {
		if f == nil || f.Signature.Recv() != nil || f.Signature.Params().Len() != 1 || f.Signature.Results().Len() != 1 {
			return false
		}
		// a state takes the lexer and nothing else; a helper that classifies a rune and answers with a state (or nil for "none") is not one
		if pt, isPtr := f.Signature.Params().At(0).Type().(*types.Pointer); !isPtr || namedOf(pt.Elem()) == nil || namedOf(pt.Elem()).Obj().Name() != "Lexer" {
			return false
		}
		return types.Identical(f.Signature.Results().At(0).Type(), lexFnT.Type()) && fnPkgPath(f) == modPath+"/lexer"
	}
	for _, f := range c.ModFuncs {
		if isState(f) && f.Parent() == nil {
			states[f] = &lexState{fn: f, next: map[*ssa.Function]bool{}, emits: map[int64]bool{}}
		}
	}
	for f, st := range states {
		for _, site := range callSites(f) {
			if site.Common().StaticCallee() == emit {
				if n, ok := constInt(site.Common().Args[1]); ok {
					st.emits[n] = true
				}
			}
		}
		for _, ret := range returnsOf(f) {
			for _, o := range origins(ret.Results[0]) {
				switch x := o.(type) {
				case *ssa.Function:
					st.next[x] = true
				case *ssa.Const:
					if x.Value == nil {
						st.nil_ = append(st.nil_, ret)
					}
				case *ssa.Call:
					if x.Common().StaticCallee() == errM {
						st.errs++
					} else if callee := x.Common().StaticCallee(); callee != nil && states[callee] != nil {
						// a state called directly and its result returned
						st.next[callee] = true
					}
				case *ssa.ChangeType:
					if fn, ok := x.X.(*ssa.Function); ok {
						st.next[fn] = true
					}
				}
			}
		}
	}
	return states, emit, errM
}

func tokenConst(c *Ctx, name string) int64 {
	m, ok := c.pkg("token").Members[name].(*ssa.NamedConst)
	if !ok {
		lost("token.%s", name)
	}
	n, _ := constInt(m.Value)
	return n
}

func ruleLX1(c *Ctx) *rule {
	r := &rule{ID: "LX1", Engine: "E4", Floor: 8,
		Statement: "a lexer state ends the scan (returns a nil next state) only as the result of l.error(...), which sends an ERROR token, or directly after emit(token.EOF); the run loop closes the token channel only then",
		Necessity: "a scan that stops silently hands the parser zero-value (EOF) tokens: truncated input is accepted as a complete spokfile, or the parser waits for a closing token that never comes"}
	states, emit, errM := c.lexStates()
	eof := tokenConst(c, "EOF")
	var fns []*ssa.Function
	for f := range states {
		fns = append(fns, f)
	}
	sort.Slice(fns, func(i, j int) bool { return fns[i].Name() < fns[j].Name() })
	r.note("%d lexer states", len(fns))
	for _, f := range fns {
		st := states[f]
		key := "lexer." + f.Name() + " end-of-scan"
		bad := ""
		for _, ret := range st.nil_ {
			// emit(EOF) earlier in the same block, or in a block that dominates with nothing but straight-line flow
			ok := false
			for _, in := range ret.Block().Instrs {
				if site, isCall := in.(ssa.CallInstruction); isCall && site.Common().StaticCallee() == emit {
					if n, isC := constInt(site.Common().Args[1]); isC && n == eof {
						ok = true
					}
				}
			}
			if !ok {
				bad = c.ipos(ret)
			}
		}
		if bad != "" {
			r.bad(key, bad, "the state returns a nil next state without an ERROR token or emit(token.EOF): the scan ends silently")
		} else {
			r.ok(key, c.pos(f.Pos()), fmt.Sprintf("%d next states, %d error exits, %d EOF exits", len(st.next), st.errs, len(st.nil_)))
		}
	}
	// l.error sends an ERROR token and returns nil
	{
		key := "lexer.(*Lexer).error sends ERROR"
		okSend := false
		errTok := tokenConst(c, "ERROR")
		// through a helper shared with emit: a module callee that sends, called with the constant ERROR
		for _, site := range callSites(errM) {
			callee := site.Common().StaticCallee()
			if callee == nil || !inModule(callee) {
				continue
			}
			sends := false
			for _, b := range callee.Blocks {
				for _, in := range b.Instrs {
					if _, ok := in.(*ssa.Send); ok {
						sends = true
					}
				}
			}
			if !sends {
				continue
			}
			for _, a := range site.Common().Args {
				if n, ok := constInt(a); ok && n == errTok && isNamed(a.Type(), modPath+"/token", "Type") {
					okSend = true
				}
			}
		}
		for _, b := range errM.Blocks {
			for _, in := range b.Instrs {
				if sd, ok := in.(*ssa.Send); ok {
					sl := c.newSlicer()
					sl.depth = 0
					res := sl.run(sd.X)
					for _, cst := range res.consts {
						if n, ok := constInt(cst); ok && n == errTok && isNamed(cst.Type(), modPath+"/token", "Type") {
							okSend = true
						}
					}
				}
			}
		}
		if okSend {
			r.ok(key, c.pos(errM.Pos()), "sends a token of type ERROR")
		} else {
			r.bad(key, c.pos(errM.Pos()), "l.error does not send a token of type token.ERROR")
		}
	}
	// run: loop until nil, then close
	runM := c.method("lexer", "Lexer", "run")
	{
		key := "lexer.(*Lexer).run closes-after-loop"
		var closeCall ssa.CallInstruction
		for _, site := range callSites(runM) {
			if b, ok := site.Common().Value.(*ssa.Builtin); ok && b.Name() == "close" {
				closeCall = site
			}
		}
		fi := c.info(runM)
		closedByCaller := false
		if closeCall == nil {
			// the goroutine that calls run closes the channel when run returns: go func() { l.run(start); close(ch) }()
			callers := c.callersOf(runM)
			n := 0
			for _, site := range callers {
				host := site.Parent()
				for _, cs := range callSites(host) {
					if b, ok := cs.Common().Value.(*ssa.Builtin); ok && b.Name() == "close" && before(site, cs) && c.info(host).innermostLoop(cs.Block()) == nil {
						if _, isDefer := cs.(*ssa.Defer); !isDefer {
							closeCall = cs
							n++
						}
					}
				}
			}
			if len(callers) == 0 || n != len(callers) {
				closeCall = nil
			} else {
				closedByCaller = true
			}
		}
		switch {
		case closeCall == nil:
			r.bad(key, c.pos(runM.Pos()), "the token channel is never closed: the parser blocks forever after the last token")
		case !closedByCaller && fi.innermostLoop(closeCall.Block()) != nil:
			r.bad(key, c.ipos(closeCall), "the token channel is closed inside the state loop")
		case len(fi.loops) != 1:
			r.undecided(key, c.pos(runM.Pos()), "the run function is not a single state loop")
		default:
			// loop exit condition is state == nil
			l := fi.loops[0]
			okExit := false
			for _, b := range runM.Blocks {
				if !l.body[b] && b != runM.Blocks[0] {
					continue
				}
				if iff, ok := lastInstr(b).(*ssa.If); ok {
					if bo, ok := iff.Cond.(*ssa.BinOp); ok && (bo.Op == token.NEQ || bo.Op == token.EQL) && (isNilConst(bo.X) || isNilConst(bo.Y)) {
						okExit = true
					}
				}
			}
			if okExit {
				r.ok(key, c.ipos(closeCall), "the state loop runs until the next state is nil, then the channel is closed")
			} else {
				r.bad(key, c.ipos(closeCall), "the state loop is not terminated by the nil state")
			}
		}
	}
	return r
}

func ruleLX2(c *Ctx) *rule {
	r := &rule{ID: "LX2", Engine: "E4", Floor: 1,
		Statement: "in the lexer's state graph every path from the state that emits LBRACE to a state that emits EOF passes through the state that emits RBRACE (or ends in an error exit)",
		Necessity: "the parser's command loop only stops at RBRACE or ERROR; a task body that can run into EOF without either makes the parser spin on zero-value tokens forever"}
	states, _, _ := c.lexStates()
	lb, rb, eof := tokenConst(c, "LBRACE"), tokenConst(c, "RBRACE"), tokenConst(c, "EOF")
	var from []*ssa.Function
	for f, st := range states {
		if st.emits[lb] {
			from = append(from, f)
		}
	}
	if len(from) == 0 {
		lost("no lexer state emits LBRACE")
	}
	for _, f := range from {
		key := "lexer." + f.Name() + " body-closed"
		seen := map[*ssa.Function]bool{}
		var path []string
		bad := ""
		var dfs func(g *ssa.Function, trail []string)
		dfs = func(g *ssa.Function, trail []string) {
			if bad != "" || seen[g] {
				return
			}
			seen[g] = true
			trail = append(trail, g.Name())
			st := states[g]
			if st == nil {
				return
			}
			if g != f && st.emits[rb] {
				return // closed
			}
			if st.emits[eof] {
				bad = "EOF can be emitted"
				path = append([]string{}, trail...)
				return
			}
			var nx []*ssa.Function
			for h := range st.next {
				nx = append(nx, h)
			}
			sort.Slice(nx, func(i, j int) bool { return nx[i].Name() < nx[j].Name() })
			for _, h := range nx {
				dfs(h, trail)
			}
		}
		dfs(f, nil)
		if bad == "" {
			r.ok(key, c.pos(f.Pos()), fmt.Sprintf("every state path from %s reaches the RBRACE state or an error before EOF (%d states explored)", f.Name(), len(seen)))
		} else {
			r.bad(key, c.pos(f.Pos()), "a task body can run into end of input without RBRACE or an error token: "+strings.Join(path, " -> "), path...)
		}
	}
	return r
}

func rulePR3(c *Ctx) *rule {
	r := &rule{ID: "PR3", Engine: "E2", Floor: 4,
		Statement: "every parser loop that pulls tokens calls next() on every way round the loop and leaves the loop when the token is ERROR (an explicit arm that leaves, or a default arm that returns)",
		Necessity: "a way round the loop without next() re-examines the same token forever; an ERROR token that does not end the loop is followed by zero-value tokens from the closed channel, forever"}
	nextM := c.method("parser", "Parser", "next")
	errTok := tokenConst(c, "ERROR")
	var fns []*ssa.Function
	for _, f := range c.ModFuncs {
		if fnPkgPath(f) == modPath+"/parser" {
			fns = append(fns, f)
		}
	}
	for _, f := range fns {
		fi := c.info(f)
		for li, l := range fi.loops {
			pulls := false
			for _, b := range f.Blocks {
				if !l.body[b] {
					continue
				}
				for _, in := range b.Instrs {
					if site, ok := in.(ssa.CallInstruction); ok && (site.Common().StaticCallee() == nextM || isNextTokenCall(site)) {
						pulls = true
					}
				}
			}
			// the for-init form pulls the first token before the loop: the header phi is fed by next()
			for _, p := range l.headerPhis() {
				for _, e := range p.Edges {
					if call, ok := e.(*ssa.Call); ok && call.Common().StaticCallee() == nextM {
						pulls = true
					}
				}
			}
			if !pulls {
				continue
			}
			key := fmt.Sprintf("parser.%s loop#%d", f.Name(), li+1)
			// (a) progress
			reg := fi.regionOf(l)
			type st struct {
				b *ssa.BasicBlock
				n bool
			}
			seen := map[st]bool{}
			bad := ""
			var dfs func(b *ssa.BasicBlock, n bool)
			dfs = func(b *ssa.BasicBlock, n bool) {
				if bad != "" || seen[st{b, n}] {
					return
				}
				seen[st{b, n}] = true
				for _, in := range b.Instrs {
					if site, ok := in.(ssa.CallInstruction); ok && (site.Common().StaticCallee() == nextM || isNextTokenCall(site)) {
						n = true
					}
				}
				for i, s := range b.Succs {
					_ = i
					if s == l.header && l.body[b] {
						if !n {
							bad = "a way round the loop ending at " + c.bpos(b) + " does not call next()"
						}
						continue
					}
					if !l.body[s] {
						continue
					}
					dfs(s, n)
				}
			}
			dfs(l.header, false)
			_ = reg
			if bad != "" {
				r.bad(key+" progress", c.bpos(l.header), bad)
			} else {
				r.ok(key+" progress", c.bpos(l.header), "next() is called on every way round")
			}
			// (b) ERROR leaves
			leaves := false
			hasErrArm := false
			for _, b := range f.Blocks {
				if !l.body[b] {
					continue
				}
				iff, ok := lastInstr(b).(*ssa.If)
				if !ok {
					continue
				}
				cond, pol := normCond(iff.Cond, true)
				k, eqWhenTrue, ok := tokenTypeTest(cond)
				if !ok || k != errTok {
					continue
				}
				hasErrArm = true
				idx := 0
				if pol != eqWhenTrue {
					idx = 1
				}
				if rs := reach(b.Succs[idx], nil, nil); !rs[l.header] || !feasiblyReaches(fi, edge{b, idx}, l.header) {
					leaves = true
				}
			}
			if !hasErrArm {
				// the all-false path of the Is tests must leave the loop
				b := l.header
				seenB := map[*ssa.BasicBlock]bool{}
				for steps := 0; steps < 64 && b != nil && !seenB[b]; steps++ {
					seenB[b] = true
					if !l.body[b] {
						leaves = true
						break
					}
					if _, ok := lastInstr(b).(*ssa.Return); ok {
						leaves = true
						break
					}
					if iff, ok := lastInstr(b).(*ssa.If); ok {
						cond, pol := normCond(iff.Cond, true)
						if _, eqWhenTrue, ok := tokenTypeTest(cond); ok {
							// take the edge on which the token is not of the tested type
							if pol == eqWhenTrue {
								b = b.Succs[1]
							} else {
								b = b.Succs[0]
							}
							// the loop condition `!next.Is(RPAREN)`: false Is means stay in loop
							continue
						}
						break
					}
					if len(b.Succs) == 1 {
						b = b.Succs[0]
						if b == l.header {
							break
						}
						continue
					}
					break
				}
			}
			// a loop that hands every token to a function value (the yield of an iterator over tokens, a visitor) leaves the
			// decision to that function: whether an ERROR ends the loop is then not visible here
			callback := false
			for _, lb := range f.Blocks {
				if !l.body[lb] {
					continue
				}
				for _, lin := range lb.Instrs {
					if cs, isCall := lin.(ssa.CallInstruction); isCall && !cs.Common().IsInvoke() && cs.Common().StaticCallee() == nil {
						if _, isBuiltin := cs.Common().Value.(*ssa.Builtin); !isBuiltin {
							callback = true
						}
					}
				}
			}
			if leaves {
				r.ok(key+" ERROR-leaves", c.bpos(l.header), "an ERROR token ends the loop")
			} else if callback {
				r.undecided(key+" ERROR-leaves", c.bpos(l.header), "the loop hands each token to a function value: whether an ERROR token ends it is decided there")
			} else {
				r.bad(key+" ERROR-leaves", c.bpos(l.header), "an ERROR token does not end this token loop")
			}
		}
	}
	return r
}

// ---- C15 ----------------------------------------------------------------------------------------------------------------------

// mayBeEmpty: the string value can be "" on some path (conservatively true when unknown).
// mayBeEmpty: can the string value be ""? sure tells whether a "yes" is backed by a witness (an explicit "" constant, or a
// builder none of whose writes is certain while every one of them is visible); a "yes" without it only means the analysis
// cannot follow how the string is built (writes inside loops, a builder handed to other code).
func (c *Ctx) mayBeEmpty(v ssa.Value, at *ssa.Return, seen map[ssa.Value]bool) (may bool, sure bool) {
	if seen[v] {
		return false, true
	}
	seen[v] = true
	switch x := v.(type) {
	case *ssa.Const:
		s, ok := constString(x)
		return !ok || s == "", true
	case *ssa.Phi:
		may, sure = false, true
		for _, e := range x.Edges {
			m, s := c.mayBeEmpty(e, at, seen)
			if m && s {
				return true, true
			}
			if m {
				may, sure = true, false
			}
		}
		return may, sure
	case *ssa.BinOp:
		if x.Op == token.ADD {
			m1, s1 := c.mayBeEmpty(x.X, at, seen)
			m2, s2 := c.mayBeEmpty(x.Y, at, seen)
			return m1 && m2, s1 && s2
		}
	case *ssa.Call:
		n := calleeName(x.Common())
		if n == "(*strings.Builder).String" || n == "(*bytes.Buffer).String" {
			// non-empty if a WriteString of a non-empty constant on the same builder dominates
			recv := x.Common().Args[0]
			fi := c.info(x.Parent())
			visible := true
			for _, site := range callSites(x.Parent()) {
				onBuilder := false
				for _, a := range site.Common().Args {
					if sameCell(a, recv) {
						onBuilder = true
					}
				}
				if !onBuilder {
					continue
				}
				wn := calleeName(site.Common())
				if wn != "(*strings.Builder).WriteString" && wn != "(*bytes.Buffer).WriteString" {
					if site != ssa.CallInstruction(x) && !strings.HasSuffix(wn, ").String") && !strings.HasSuffix(wn, ").Len") {
						visible = false // written by other means (WriteByte, Fprintf, a helper that takes the builder)
					}
					continue
				}
				if s, ok := constString(site.Common().Args[1]); ok && s != "" && before(site, x) {
					return false, true
				}
				if fi.innermostLoop(site.Block()) != nil {
					visible = false // how often a write in a loop happens is not known here
				}
			}
			return true, visible
		}
		if f := x.Common().StaticCallee(); f != nil && inModule(f) && f.Name() == "String" {
			may, sure = false, true
			for _, ret := range returnsOf(f) {
				m, s := c.mayBeEmpty(ret.Results[0], ret, seen)
				if m && s {
					return true, true
				}
				if m {
					may, sure = true, false
				}
			}
			return may, sure
		}
	}
	return true, false
}

// sameCell: the two addresses name the same variable: identical, same origins, or the same field of the same cell.
func sameCell(a, b ssa.Value) bool {
	if a == b || sameOrigins(a, b) {
		return true
	}
	fa, ok1 := a.(*ssa.FieldAddr)
	fb, ok2 := b.(*ssa.FieldAddr)
	return ok1 && ok2 && fa.Field == fb.Field && sameCell(fa.X, fb.X)
}

func (c *Ctx) appendedNodeTypes() map[string]ssa.CallInstruction {
	out := map[string]ssa.CallInstruction{}
	appendM := c.method("ast", "Tree", "Append")
	for _, site := range c.callersOf(appendM) {
		if fnPkgPath(site.Parent()) != modPath+"/parser" {
			continue
		}
		for _, a := range site.Common().Args[1:] {
			for _, o := range origins(a) {
				t := o.Type()
				if mi, ok := a.(*ssa.MakeInterface); ok {
					t = mi.X.Type()
				}
				if _, isIface := t.Underlying().(*types.Interface); isIface {
					continue // the nil node of a failing path
				}
				if n := namedOf(t); n != nil && n.Obj().Pkg() != nil && n.Obj().Pkg().Path() == modPath+"/ast" {
					out[n.Obj().Name()] = site
				}
			}
		}
	}
	if len(out) == 0 {
		lost("the parser never calls ast.Tree.Append")
	}
	return out
}

func ruleFM1(c *Ctx) *rule {
	r := &rule{ID: "FM1", Engine: "E6+E2", Floor: 3,
		Statement: "no node type the parser appends to the tree prints as the empty string on any return path of its String() method",
		Necessity: "docstrings are defined by adjacency: a top-level node that vanishes when printed (an empty `#` line) between a comment and a task makes that comment the task's docstring when the formatted text is parsed again"}
	types_ := c.appendedNodeTypes()
	var names []string
	for n := range types_ {
		names = append(names, n)
	}
	sort.Strings(names)
	for _, n := range names {
		f := c.methodOpt("ast", n, "String")
		if f == nil {
			r.bad("ast."+n+".String", "?", "no String method")
			continue
		}
		for i, ret := range returnsOf(f) {
			key := fmt.Sprintf("ast.%s.String return#%d", n, i+1)
			switch may, sure := c.mayBeEmpty(ret.Results[0], ret, map[ssa.Value]bool{}); {
			case may && sure:
				r.bad(key, c.ipos(ret), "this return can yield the empty string: the node disappears from the formatted text")
			case may:
				r.undecided(key, c.ipos(ret), "cannot follow how the returned string is built (writes in loops or by other code): neither a certain non-empty fragment nor an empty result was found")
			default:
				r.ok(key, c.ipos(ret), "always prints at least a constant, non-empty fragment")
			}
		}
	}
	// Tree.String / Write print every node in order
	wf := c.methodOpt("ast", "Tree", "Write")
	sf := c.methodOpt("ast", "Tree", "String")
	if wf != nil && sf != nil {
		key := "ast.Tree.Write prints every node in order"
		fi := c.info(wf)
		okLoop := false
		if len(fi.loops) == 1 {
			l := fi.loops[0]
			for _, b := range wf.Blocks {
				if !l.body[b] {
					continue
				}
				for _, in := range b.Instrs {
					if site, ok := in.(ssa.CallInstruction); ok && site.Common().IsInvoke() && (site.Common().Method.Name() == "Write" || site.Common().Method.Name() == "String") {
						// unconditional within the iteration
						uncond := true
						for _, g := range fi.necessaryGuards(b) {
							if l.body[g.e.from] && g.e.from != l.header {
								uncond = false
							}
						}
						// and no way round the loop avoids it (a `continue` under `a && b` leaves no single necessary guard)
						seenB := map[*ssa.BasicBlock]bool{}
						var walk func(x *ssa.BasicBlock)
						walk = func(x *ssa.BasicBlock) {
							if x == b || seenB[x] || !l.body[x] {
								return
							}
							seenB[x] = true
							for _, sx := range x.Succs {
								if sx == l.header {
									uncond = false
									continue
								}
								walk(sx)
							}
						}
						for _, sx := range l.header.Succs {
							if l.body[sx] {
								walk(sx)
							}
						}
						sl := c.newSlicer()
						sl.depth = 0
						if uncond && sl.run(site.Common().Value).hasField("ast.Tree.Nodes") {
							okLoop = true
						}
					}
				}
			}
			// forward full range
			for _, p := range l.headerPhis() {
				if !l.isInduction(p) {
					okLoop = false
				}
			}
		}
		if okLoop {
			r.ok(key, c.pos(wf.Pos()), "one unconditional Write per element of Nodes, front to back")
		} else {
			r.bad(key, c.pos(wf.Pos()), "Tree.Write does not print every element of Nodes exactly once in order")
		}
	}
	return r
}

func ruleFM2(c *Ctx) *rule {
	r := &rule{ID: "FM2", Engine: "E2+E3", Floor: 3,
		Statement: "the docstring handed to the task parser is either an empty Comment literal or the comment parsed in the same arm, under the necessary guard that the very next token Is(token.TASK) (and, if tested, that it has text); Task.String writes the docstring before the task keyword, and only then",
		Necessity: "a comment remembered from an earlier statement, or attached without the adjacency test, becomes the docstring of a task it did not document; a docstring printed elsewhere moves past a statement on re-parse"}
	parseTask := c.method("parser", "Parser", "parseTask")
	parseComment := c.methodOpt("parser", "Parser", "parseComment")
	nextM := c.method("parser", "Parser", "next")
	taskTok := tokenConst(c, "TASK")
	sites := c.callersOf(parseTask)
	if len(sites) == 0 {
		lost("parseTask has no caller")
	}
	for i, site := range sites {
		key := fmt.Sprintf("%s parseTask#%d docstring", fname(site.Parent()), i+1)
		doc := site.Common().Args[1]
		fi := c.info(site.Parent())
		// literal?
		isLit := false
		var fromComment *ssa.Call
		for _, o := range origins(doc) {
			switch x := o.(type) {
			case *ssa.Const:
				isLit = true
			case *ssa.UnOp:
				if a, ok := x.X.(*ssa.Alloc); ok {
					lit := true
					for _, addr := range derivedAddrs(a) {
						for _, ref := range valueReferrers(addr) {
							if st, ok := ref.(*ssa.Store); ok && st.Addr == addr {
								if _, isC := st.Val.(*ssa.Const); !isC {
									lit = false
								}
							}
						}
					}
					isLit = lit
				}
			case *ssa.Call:
				if parseComment != nil && x.Common().StaticCallee() == parseComment {
					fromComment = x
				}
			}
		}
		switch {
		case isLit && fromComment == nil:
			r.ok(key, c.ipos(site), "an empty Comment literal (the task has no docstring)")
		case fromComment != nil:
			// necessary guard: Is(next(), TASK) true, where next() is called after parseComment
			okGuard := false
			for _, g := range fi.necessaryGuards(site.Block()) {
				call, ok := g.cond.(*ssa.Call)
				if !ok || !g.pol || !strings.HasSuffix(calleeName(call.Common()), "token.Token).Is") {
					continue
				}
				if n, ok := constInt(call.Common().Args[1]); !ok || n != taskTok {
					continue
				}
				for _, o := range origins(call.Common().Args[0]) {
					if nc, ok := o.(*ssa.Call); ok && nc.Common().StaticCallee() == nextM && before(fromComment, nc) {
						okGuard = true
					}
				}
			}
			// not loop-carried
			carried := false
			if l := fi.innermostLoop(site.Block()); l != nil {
				sl := c.newSlicer()
				sl.depth = 0
				res := sl.run(doc)
				for _, p := range l.headerPhis() {
					if res.has(p) && !l.isInduction(p) {
						// the token phi of the for-init form is fine only if the comment is parsed in this iteration
						if !l.body[fromComment.Block()] {
							carried = true
						}
					}
				}
				if !l.body[fromComment.Block()] {
					carried = true
				}
			}
			// between parsing the comment and attaching it, the decision looks at nothing but the next token's type and the
			// comment's text: the printed form reproduces those two and nothing else (not blank lines, not columns)
			layout := ""
			after := reachFromInstr(fromComment)
			for _, g := range fi.expandGuards(fi.necessaryGuards(site.Block())) {
				if !after[g.e.from] && g.e.from != fromComment.Block() {
					continue
				}
				if _, isPhi := g.cond.(*ssa.Phi); isPhi {
					continue
				}
				if _, _, isTok := tokenTypeTest(g.cond); isTok {
					continue
				}
				gs := c.newSlicer()
				gs.depth = 0
				gres := gs.run(g.cond)
				if gres.hasField("token.Token.Line") || gres.hasField("token.Token.Pos") {
					layout = condText(g.cond)
				}
			}
			switch {
			case layout != "":
				r.bad(key, c.ipos(site), "whether the comment becomes the docstring also depends on where the tokens are in the file ("+layout+"): the formatter does not reproduce blank lines or columns, so formatting changes which comments are docstrings")
			case carried:
				r.bad(key, c.ipos(site), "the docstring is a comment remembered from an earlier iteration of the parse loop")
			case !okGuard:
				r.bad(key, c.ipos(site), "a parsed comment becomes a docstring without the guard that the very next token is the task keyword", describeGuards(c, fi.necessaryGuards(site.Block()))...)
			default:
				r.ok(key, c.ipos(site), "the comment parsed in this arm, immediately followed by the task keyword")
			}
		default:
			r.bad(key, c.ipos(site), "the docstring is neither an empty literal nor the comment parsed in the same arm")
		}
	}
	// Task.String: docstring first
	ts := c.method("ast", "Task", "String")
	{
		key := "ast.Task.String docstring-before-keyword"
		var docWrite, kwWrite ssa.CallInstruction
		for _, site := range callSites(ts) {
			if calleeName(site.Common()) != "(*strings.Builder).WriteString" {
				continue
			}
			arg := site.Common().Args[1]
			if s, ok := constString(arg); ok && strings.HasPrefix(s, "task") && kwWrite == nil {
				kwWrite = site
			}
			sl := c.newSlicer()
			sl.depth = 0
			if sl.run(arg).hasField("ast.Task.Docstring") && docWrite == nil {
				docWrite = site
			}
		}
		switch {
		case kwWrite == nil:
			r.undecided(key, c.pos(ts.Pos()), "cannot find the write of the task keyword")
		case docWrite == nil:
			r.bad(key, c.pos(ts.Pos()), "Task.String never prints the docstring: every docstring is lost by formatting")
		case !beforeOrGuarded(docWrite, kwWrite):
			r.bad(key, c.ipos(docWrite), "the docstring is printed after the task keyword")
		default:
			r.ok(key, c.ipos(docWrite), "printed before the task keyword")
		}
	}
	return r
}

// beforeOrGuarded: a is executed before b whenever a is executed at all (a's block reaches b, b does not reach a).
func beforeOrGuarded(a, b ssa.Instruction) bool {
	if before(a, b) {
		return true
	}
	ra := reachFromInstr(a)
	rb := reachFromInstr(b)
	return (ra[b.Block()] || a.Block() == b.Block()) && !rb[a.Block()]
}

func ruleFM3(c *Ctx) *rule {
	r := &rule{ID: "FM3", Engine: "E2", Floor: 1,
		Statement: "every way round the top-level parse loop that does not return appends exactly one node to the tree, and the node appended in an arm is the one parsed in that arm",
		Necessity: "zero appends lose a comment or statement, two duplicate it; both change what the formatter writes back"}
	appendM := c.method("ast", "Tree", "Append")
	var parse *ssa.Function
	var appendAt *ssa.BasicBlock
	for _, site := range c.callersOf(appendM) {
		f := site.Parent()
		if fnPkgPath(f) == modPath+"/parser" && c.info(f).innermostLoop(site.Block()) != nil {
			parse, appendAt = f, site.Block()
		}
	}
	if parse == nil {
		lost("no parser function appends to the tree inside a loop")
	}
	fi := c.info(parse)
	// the outermost loop around the append
	var l *loopInfo
	for _, x := range fi.loopsContaining(appendAt) {
		if l == nil {
			l = x
		}
	}
	key := "parser.Parse one-append-per-statement"
	type st struct {
		b, prev *ssa.BasicBlock
		n       int
	}
	seen := map[st]bool{}
	bad := ""
	var dfs func(b, prev *ssa.BasicBlock, n int)
	dfs = func(b, prev *ssa.BasicBlock, n int) {
		if bad != "" || seen[st{b, prev, n}] {
			return
		}
		seen[st{b, prev, n}] = true
		for _, in := range b.Instrs {
			if site, ok := in.(ssa.CallInstruction); ok && site.Common().StaticCallee() == appendM {
				n++
			}
		}
		if n > 2 {
			n = 2
		}
		for i, s := range b.Succs {
			if _, _, feasible := branchCond(b, prev, i); !feasible {
				continue
			}
			if s == l.header && l.body[b] {
				if n != 1 {
					bad = fmt.Sprintf("a way round the parse loop ending at %s appends %d nodes", c.bpos(b), n)
				}
				continue
			}
			if !l.body[s] {
				continue
			}
			dfs(s, b, n)
		}
	}
	for _, s := range l.header.Succs {
		if l.body[s] {
			dfs(s, l.header, 0)
		}
	}
	if bad == "" {
		r.ok(key, c.bpos(l.header), "exactly one Tree.Append on every way round")
	} else {
		r.bad(key, c.bpos(l.header), bad)
	}
	return r
}

// tokenTypeTest recognises a test of a token's type against a constant: X.Is(K), or X.Type ==/!= K. eqWhenTrue tells whether
// the condition being true means the token is of type K.
func tokenTypeTest(cond ssa.Value) (k int64, eqWhenTrue bool, ok bool) {
	if call, isCall := cond.(*ssa.Call); isCall && strings.HasSuffix(calleeName(call.Common()), "token.Token).Is") && len(call.Common().Args) == 2 {
		if n, isC := constInt(call.Common().Args[1]); isC {
			return n, true, true
		}
		return 0, false, false
	}
	bo, isB := cond.(*ssa.BinOp)
	if !isB || (bo.Op != token.EQL && bo.Op != token.NEQ) {
		return 0, false, false
	}
	for _, pair := range [][2]ssa.Value{{bo.X, bo.Y}, {bo.Y, bo.X}} {
		n, isC := constInt(pair[1])
		if !isC {
			continue
		}
		for _, o := range origins(pair[0]) {
			var key string
			switch x := o.(type) {
			case *ssa.UnOp:
				key = fieldKey(x.X)
			case *ssa.Field:
				key = fieldKey(x)
			}
			if key == "token.Token.Type" {
				return n, bo.Op == token.EQL, true
			}
		}
	}
	return 0, false, false
}

// ---- FM5: a parsed comment is never dropped ---------------------------------------------------------------------------------------

func ruleFM5(c *Ctx) *rule {
	r := &rule{ID: "FM5", Engine: "E2+E3", Floor: 1,
		Statement: "on every path from a call of parseComment that does not end in an error, the comment it returned is appended to the tree or handed to parseTask as the docstring",
		Necessity: "a comment that was parsed and then neither appended nor attached is missing from the tree, so the formatter writes the file back without it"}
	parseComment := c.methodOpt("parser", "Parser", "parseComment")
	parseTask := c.method("parser", "Parser", "parseTask")
	appendM := c.method("ast", "Tree", "Append")
	if parseComment == nil {
		r.undecided("parser parseComment", "-", "the parser has no parseComment method")
		return r
	}
	for i, site := range c.callersOf(parseComment) {
		call, ok := site.(*ssa.Call)
		if !ok {
			continue
		}
		f := site.Parent()
		fi := c.info(f)
		key := fmt.Sprintf("%s parseComment#%d conserved", fname(f), i+1)
		sinkArgs := func(in ssa.Instruction) []ssa.Value {
			cs, ok := in.(ssa.CallInstruction)
			if !ok {
				return nil
			}
			switch cs.Common().StaticCallee() {
			case appendM:
				return cs.Common().Args[1:]
			case parseTask:
				if len(cs.Common().Args) > 1 {
					return cs.Common().Args[1:2]
				}
			}
			return nil
		}
		// which node is appended is followed along the path (a helper's result phi is resolved to the operand of this path)
		for _, cs := range callSites(f) {
			for _, a := range sinkArgs(cs) {
				registerControlValue(a, cs)
				if mi, isMI := a.(*ssa.MakeInterface); isMI {
					registerControlValue(mi.X, cs)
				}
			}
		}
		keeps := func(in ssa.Instruction, ps *pathState) bool {
			for _, a := range sinkArgs(in) {
				v := ps.resolve(a)
				if mi, isMI := v.(*ssa.MakeInterface); isMI {
					v = ps.resolve(mi.X)
				}
				sl := c.newSlicer()
				sl.depth = 0
				if sl.run(v).has(call) {
					return true
				}
			}
			return false
		}
		loop := fi.innermostLoop(call.Block())
		seen := map[string]bool{}
		bad := ""
		var dfs func(b *ssa.BasicBlock, idx int, ps *pathState)
		dfs = func(b *ssa.BasicBlock, idx int, ps *pathState) {
			if bad != "" {
				return
			}
			if idx == 0 {
				k := fmt.Sprintf("%d|%s", b.Index, ps.key())
				if seen[k] {
					return
				}
				seen[k] = true
			}
			for _, in := range b.Instrs[idx:] {
				if keeps(in, ps) {
					return
				}
				if ret, isRet := in.(*ssa.Return); isRet {
					if ev := returnedErr(ret); ev == nil || ps.mayBeNil(ev) {
						bad = "the comment is dropped on a path that returns without error at " + c.ipos(ret)
					}
					return
				}
			}
			for i2, s := range b.Succs {
				_, _, next, feasible := ps.branch(b, i2)
				if !feasible {
					continue
				}
				if loop != nil && s == loop.header && loop.body[b] {
					bad = "the comment is dropped on a way round the parse loop ending at " + c.bpos(b)
					return
				}
				dfs(s, 0, next.enter(s, b))
			}
		}
		pos := 0
		for k, in := range call.Block().Instrs {
			if in == ssa.Instruction(call) {
				pos = k + 1
			}
		}
		dfs(call.Block(), pos, newPathStateFor(f).seedFromGuards(call.Block()))
		if bad == "" {
			r.ok(key, c.ipos(call), "appended or attached as a docstring on every path that does not fail")
		} else {
			r.bad(key, c.ipos(call), bad)
		}
	}
	return r
}

// ---- FM6: the parser sees the file as it was read -----------------------------------------------------------------------------------

func ruleFM6(c *Ctx) *rule {
	r := &rule{ID: "FM6", Engine: "E3", Floor: 1,
		Statement: "the text handed to parser.New in the CLI is the content returned by os.ReadFile, converted to a string and nothing else; a line scanner whose Err() is never consulted is a violation, any other pre-processing is beyond this rule",
		Necessity: "--fmt writes back the tree that was parsed: text that is dropped or cut before parsing (a bufio.Scanner stops silently at a line longer than its buffer) is removed from the user's file"}
	newP := c.fn("parser", "New")
	n := 0
	for _, site := range c.callersOf(newP) {
		f := site.Parent()
		if shortPkg(fnPkgPath(f)) == "parser" || len(site.Common().Args) == 0 {
			continue
		}
		n++
		key := fmt.Sprintf("%s parser.New#%d input", fname(f), n)
		sl := c.newSlicer()
		sl.depth = 1
		sl.objFlow = true
		res := sl.run(site.Common().Args[0])
		if !res.hasCall("os.ReadFile") {
			r.undecided(key, c.ipos(site), "the parsed text does not come from os.ReadFile")
			continue
		}
		var other []string
		scanner := false
		for _, name := range res.callNames() {
			switch {
			case name == "os.ReadFile" || name == "builtin.len":
			case strings.HasPrefix(name, "bufio.NewScanner") || strings.HasPrefix(name, "(*bufio.Scanner)"):
				scanner = true
			case strings.HasPrefix(name, modPath) || strings.HasPrefix(name, "("+modPath) || strings.HasPrefix(name, "(*"+modPath):
			default:
				other = append(other, name)
			}
		}
		errChecked := false
		for _, g := range closuresOf(f) {
			if len(callsTo(g, "(*bufio.Scanner).Err")) > 0 {
				errChecked = true
			}
		}
		// the argument is the file content itself: every origin is (a string conversion of) the bytes returned by ReadFile
		var direct func(v ssa.Value, depth int) bool
		direct = func(v ssa.Value, depth int) bool {
			if depth > 4 {
				return false
			}
			os := origins(v)
			if len(os) == 0 {
				return false
			}
			for _, o := range os {
				switch x := o.(type) {
				case *ssa.Extract:
					call, isCall := x.Tuple.(*ssa.Call)
					if !isCall || calleeName(call.Common()) != "os.ReadFile" || x.Index != 0 {
						return false
					}
				case *ssa.Convert:
					if !direct(x.X, depth+1) {
						return false
					}
				default:
					return false
				}
			}
			return true
		}
		if !scanner && len(other) == 0 && !direct(site.Common().Args[0], 0) {
			other = append(other, "cutting / choosing between alternatives")
		}
		switch {
		case scanner && !errChecked:
			r.bad(key, c.ipos(site), "the file is re-assembled line by line with a bufio.Scanner whose Err() is never consulted: a line longer than the scanner's buffer ends the scan silently and everything after it is missing from what is parsed (and from what --fmt writes back)")
		case scanner || len(other) > 0:
			r.undecided(key, c.ipos(site), "the text is pre-processed ("+strings.Join(other, ", ")+") before it is parsed; whether that keeps every comment is beyond this rule")
		default:
			r.ok(key, c.ipos(site), "string(os.ReadFile(...)) unchanged")
		}
	}
	if n == 0 {
		r.undecided("module parser.New", "-", "parser.New is not called outside the parser package")
	}
	return r
}

// ---- PR5: no line scanner over the input whose error is ignored ----------------------------------------------------------------------

// ---- PR6: nothing in the scanner, the parser or the printer depends on the iteration order of a map ---------------------------------

func rulePR6(c *Ctx) *rule {
	r := &rule{ID: "PR6", Engine: "E2", Floor: 0,
		Statement: "in the lexer, parser, ast and token packages no loop over a map is left from inside its body (return, break, goto) and none sends a token from inside it: what such a loop produces would depend on Go's randomised map iteration order",
		Necessity: "parsing the same text twice must give the same tree or the same error text; a 'first match wins' search through a map (a table of hints, of keywords) picks a different match from run to run when two keys apply"}
	n := 0
	for _, f := range c.ModFuncs {
		switch shortPkg(fnPkgPath(f)) {
		case "lexer", "parser", "ast", "token":
		default:
			continue
		}
		fi := c.info(f)
		for _, b := range f.Blocks {
			for _, in := range b.Instrs {
				rg, ok := in.(*ssa.Range)
				if !ok {
					continue
				}
				if _, isMap := rg.X.Type().Underlying().(*types.Map); !isMap {
					continue
				}
				// the loop whose header pulls from this iterator
				var loop *loopInfo
				for _, l := range fi.loops {
					for _, hin := range l.header.Instrs {
						if nx, isNext := hin.(*ssa.Next); isNext && nx.Iter == ssa.Value(rg) {
							loop = l
						}
					}
				}
				n++
				key := fmt.Sprintf("%s map-range#%d", fname(f), n)
				if loop == nil {
					r.undecided(key, c.ipos(rg), "cannot find the loop that consumes this map iterator")
					continue
				}
				bad := ""
				for _, lb := range f.Blocks {
					if !loop.body[lb] || lb == loop.header {
						continue
					}
					for _, sx := range lb.Succs {
						if !loop.body[sx] {
							bad = "the loop is left from inside its body at " + c.bpos(lb) + ": which entry gets there first depends on the map's iteration order"
						}
					}
					for _, lin := range lb.Instrs {
						switch lin.(type) {
						case *ssa.Send:
							bad = "a value is sent from inside the loop at " + c.ipos(lin) + ": the order of what is sent depends on the map's iteration order"
						case *ssa.Return:
							bad = "the function returns from inside the loop at " + c.ipos(lin) + ": which entry is returned depends on the map's iteration order"
						}
					}
				}
				if bad == "" {
					r.ok(key, c.ipos(rg), "the loop always runs over the whole map and sends nothing")
				} else {
					r.bad(key, c.ipos(rg), bad)
				}
			}
		}
	}
	if n == 0 {
		r.ok("syntax packages map ranges", "-", "no loop over a map in lexer, parser, ast or token")
	}
	return r
}

// ---- KW1: the task keyword is recognised as a whole word ------------------------------------------------------------------------

func ruleKW1(c *Ctx) *rule {
	r := &rule{ID: "KW1", Engine: "E4+E2", Floor: 1,
		Statement: "wherever a lexer state hands over to the state that emits the task keyword because the rest of the input starts with the keyword's spelling, the hand-over also has the necessary guard that the character after the keyword is not an identifier character (isValidIdent / unicode.IsLetter false)",
		Necessity: "identifiers are made of the same characters as the keyword: without the boundary test `tasks := \"x\"` is read as the keyword followed by `s` and rejected, and a variable whose name starts with task that the formatter moves to the start of a line turns a working spokfile into one that no longer parses"}
	states, _, _ := c.lexStates()
	taskK := tokenConst(c, "TASK")
	var kwState *ssa.Function
	for f, st := range states {
		if st.emits[taskK] {
			kwState = f
		}
	}
	if kwState == nil {
		lost("no lexer state emits token.TASK")
	}
	isKeywordPrefixTest := func(cond ssa.Value) bool {
		for _, o := range append([]ssa.Value{cond}, origins(cond)...) {
			var call *ssa.Call
			switch x := o.(type) {
			case *ssa.Call:
				call = x
			case *ssa.Extract:
				call, _ = x.Tuple.(*ssa.Call)
			}
			if call == nil {
				continue
			}
			n := calleeName(call.Common())
			if n != "strings.HasPrefix" && n != "strings.CutPrefix" {
				continue
			}
			args := call.Common().Args
			if len(args) != 2 {
				continue
			}
			for _, po := range append([]ssa.Value{args[1]}, origins(args[1])...) {
				if sc, ok := po.(*ssa.Call); ok && strings.HasSuffix(calleeName(sc.Common()), "token.Type).String") && len(sc.Common().Args) == 1 {
					if k, isC := constInt(sc.Common().Args[0]); isC && k == taskK {
						return true
					}
				}
				if sv, ok := constString(po); ok && sv == "task" {
					return true
				}
			}
		}
		return false
	}
	isIdentCharTest := func(cond ssa.Value) bool {
		call, ok := cond.(*ssa.Call)
		if !ok {
			return false
		}
		switch n := calleeName(call.Common()); {
		case n == "unicode.IsLetter":
			return true
		case strings.HasSuffix(n, "lexer.isValidIdent"):
			return true
		}
		return false
	}
	n := 0
	for f := range states {
		fi := c.info(f)
		for _, ret := range returnsOf(f) {
			hands := false
			for _, o := range origins(ret.Results[0]) {
				if fn, ok := o.(*ssa.Function); ok && fn == kwState {
					hands = true
				}
				if ct, ok := o.(*ssa.ChangeType); ok {
					if fn, ok := ct.X.(*ssa.Function); ok && fn == kwState {
						hands = true
					}
				}
			}
			if !hands {
				continue
			}
			gs := fi.expandGuards(fi.necessaryGuards(ret.Block()))
			prefix, boundary := false, false
			for _, g := range gs {
				if g.pol && isKeywordPrefixTest(g.cond) {
					prefix = true
				}
				if !g.pol && isIdentCharTest(g.cond) {
					boundary = true
				}
			}
			if !prefix {
				continue // reached some other way (a keyword table, a switch on a scanned word): not this rule's shape
			}
			n++
			key := fmt.Sprintf("%s -> %s keyword boundary#%d", fname(f), fname(kwState), n)
			if boundary {
				r.ok(key, c.ipos(ret), "the keyword must be followed by something that is not an identifier character")
			} else {
				r.bad(key, c.ipos(ret), "the keyword is recognised by its prefix alone: an identifier that merely starts with it (tasks, task_dir, taskfile) is cut in two")
			}
		}
	}
	if n == 0 {
		r.undecided("lexer keyword recognition", "-", "no state hands over to the keyword state on a prefix test of the keyword's spelling: the keyword is recognised in a way this rule does not model")
	}
	return r
}

// ---- WR1: the printers of compound nodes write every field and every list element ---------------------------------------------------

func ruleWR1(c *Ctx) *rule {
	r := &rule{ID: "WR1", Engine: "E2+E3", Floor: 6,
		Statement: "the printer of every compound node type (the String or the Write method of Task, Function, Assign - whichever does the work) reads every field of the node into the text; every list field is consumed by a loop that indexes it with its own induction variable from front to back, and on every way round that loop the element at hand is handed to an append or a write: no element is filtered out, and the list is not sorted or re-sliced",
		Necessity: "a dependency, output, command or argument that the printer leaves out (a de-duplication, a skip of empty entries, a cap) is gone from the file --fmt writes back: the formatted spokfile defines a different task"}
	isEmitCall := func(cn string) bool {
		return cn == "builtin.append" || strings.HasSuffix(cn, ").WriteString") || strings.HasSuffix(cn, ").Write") || strings.HasPrefix(cn, "fmt.Fprint") || strings.HasSuffix(cn, ").WriteByte") || strings.HasSuffix(cn, ").WriteRune")
	}
	// judge one method for one field: "unread", "ok", "filtered", "read" (read, flow not followed), "noloop"
	judge := func(f *ssa.Function, fk string, isList bool, noun string) (string, string) {
		fi := c.info(f)
		rs := c.newSlicer()
		rs.depth = 1
		var roots []ssa.Value
		for _, ret := range returnsOf(f) {
			roots = append(roots, ret.Results...)
		}
		for _, site := range callSites(f) {
			if isEmitCall(calleeName(site.Common())) {
				if site.Common().IsInvoke() {
					roots = append(roots, site.Common().Value)
				}
				roots = append(roots, site.Common().Args...)
			}
		}
		rres := rs.run(roots...)
		var vals []ssa.Value
		for _, b := range f.Blocks {
			for _, in := range b.Instrs {
				if v, isV := in.(ssa.Value); isV {
					if _, isAddr := v.(*ssa.FieldAddr); isAddr {
						continue
					}
					if fieldKey(v) == fk || isFieldLoad(v, fk) {
						vals = append(vals, v)
					}
				}
			}
		}
		if len(vals) == 0 {
			return "unread", ""
		}
		if !rres.hasField(fk) {
			return "read", ""
		}
		if !isList {
			return "ok", ""
		}
		isVal := map[ssa.Value]bool{}
		for _, v := range vals {
			isVal[v] = true
		}
		verdict, detail := "noloop", ""
		for _, l := range fi.loops {
			var elems []ssa.Value
			for _, b := range f.Blocks {
				if !l.body[b] {
					continue
				}
				for _, in := range b.Instrs {
					var x, idx ssa.Value
					switch ia := in.(type) {
					case *ssa.IndexAddr:
						x, idx = ia.X, ia.Index
					case *ssa.Index:
						x, idx = ia.X, ia.Index
					}
					if x == nil || !isVal[x] {
						continue
					}
					if p, isPhi := idx.(*ssa.Phi); isPhi && p.Block() == l.header && l.isInduction(p) {
						elems = append(elems, in.(ssa.Value))
					} else if bo, isBin := idx.(*ssa.BinOp); isBin {
						if p, isPhi := bo.X.(*ssa.Phi); isPhi && p.Block() == l.header && l.isInduction(p) {
							elems = append(elems, in.(ssa.Value))
						}
					}
				}
			}
			if len(elems) == 0 {
				continue
			}
			var uses []*ssa.BasicBlock
			for _, b := range f.Blocks {
				if !l.body[b] || fi.innermostLoop(b) != l {
					continue
				}
				for _, in := range b.Instrs {
					site, isCall := in.(ssa.CallInstruction)
					if !isCall || !isEmitCall(calleeName(site.Common())) {
						continue
					}
					us := c.newSlicer()
					us.depth = 0
					var ops []ssa.Value
					if site.Common().IsInvoke() {
						ops = append(ops, site.Common().Value)
					}
					ops = append(ops, site.Common().Args...)
					ures := us.run(ops...)
					for _, e := range elems {
						if ures.has(e) {
							uses = append(uses, b)
						}
					}
				}
			}
			every := false
			for _, ub := range uses {
				avoidable := false
				seenB := map[*ssa.BasicBlock]bool{}
				var walk func(x *ssa.BasicBlock)
				walk = func(x *ssa.BasicBlock) {
					if x == ub || seenB[x] || !l.body[x] {
						return
					}
					seenB[x] = true
					for _, sx := range x.Succs {
						if sx == l.header || !l.body[sx] {
							avoidable = true
							continue
						}
						walk(sx)
					}
				}
				for _, sx := range l.header.Succs {
					if l.body[sx] {
						walk(sx)
					}
				}
				if !avoidable {
					every = true
				}
			}
			if every {
				verdict = "ok"
			} else if verdict != "ok" {
				verdict, detail = "filtered", "the loop at "+c.bpos(l.header)+" can go round without handing the element at hand to anything: entries are left out under a condition"
			}
		}
		for _, v := range vals {
			if why := c.sliceMutation(v, 1, map[ssa.Value]bool{}, "the "+noun+" of the node"); why != "" {
				verdict, detail = "filtered", why
			}
		}
		return verdict, detail
	}
	for _, tn := range []string{"Task", "Function", "Assign"} {
		var methods []*ssa.Function
		for _, mn := range []string{"String", "Write"} {
			if m := c.methodOpt("ast", tn, mn); m != nil && len(m.Blocks) > 0 {
				methods = append(methods, m)
			}
		}
		if len(methods) == 0 {
			r.bad("ast."+tn+".String", "?", "no String method")
			continue
		}
		obj := c.pkg("ast").Pkg.Scope().Lookup(tn)
		if obj == nil {
			lost("type ast.%s", tn)
		}
		st, ok := obj.Type().Underlying().(*types.Struct)
		if !ok {
			lost("ast.%s is not a struct", tn)
		}
		for i := 0; i < st.NumFields(); i++ {
			fld := st.Field(i)
			if fld.Embedded() {
				continue
			}
			fk := "ast." + tn + "." + fld.Name()
			key := "ast." + tn + " printer writes " + fld.Name()
			_, isList := fld.Type().Underlying().(*types.Slice)
			best, detail, pos := "unread", "", c.pos(methods[0].Pos())
			rank := map[string]int{"unread": 0, "read": 1, "noloop": 2, "filtered": 3, "ok": 4}
			for _, m := range methods {
				v, d := judge(m, fk, isList, fld.Name())
				if rank[v] > rank[best] {
					best, detail, pos = v, d, c.pos(m.Pos())
				}
			}
			switch best {
			case "ok":
				if isList {
					r.ok(key, pos, "every element is consumed on every way round a front-to-back loop over the field")
				} else {
					r.ok(key, pos, "read into the text")
				}
			case "filtered":
				r.bad(key, pos, detail)
			case "unread":
				r.bad(key, pos, "neither String nor Write of the node reads the field: it cannot be in the text")
			case "read":
				r.undecided(key, pos, "the field is read, but how it gets into the text is not followed (an iterator, a callback)")
			default:
				r.undecided(key, pos, "the list is not consumed by a loop that indexes it with its own induction variable (a library call, an iterator): not followed")
			}
		}
	}
	return r
}

// ---- PL1: the parser keeps every element it reads ----------------------------------------------------------------------------------

func rulePL1(c *Ctx) *rule {
	r := &rule{ID: "PL1", Engine: "E2+E3", Floor: 4,
		Statement: "in the parser's token loops every append of a node built from the token at hand (a dependency, an output, an argument, a command) is conditioned, inside the loop, on nothing but tests of token types: no element is left out because of what its text is or of what was seen before",
		Necessity: "a list that drops repeated or 'empty' entries while it is parsed no longer is the list that was written: `join(\"..\", \"..\", \"bin\")` becomes `join(\"..\", \"bin\")`, and the formatter then writes the shortened list back"}
	n := 0
	for _, f := range c.ModFuncs {
		if shortPkg(fnPkgPath(f)) != "parser" {
			continue
		}
		fi := c.info(f)
		for _, b := range f.Blocks {
			l := fi.innermostLoop(b)
			if l == nil {
				continue
			}
			for _, in := range b.Instrs {
				call, ok := in.(*ssa.Call)
				if !ok {
					continue
				}
				if bi, isB := call.Call.Value.(*ssa.Builtin); !isB || bi.Name() != "append" || len(call.Call.Args) < 2 {
					continue
				}
				vs := c.newSlicer()
				vs.depth = 0
				if !vs.run(call.Call.Args[1]).hasField("token.Token.Value") {
					continue
				}
				n++
				key := fmt.Sprintf("%s element append#%d", fname(f), n)
				bad := ""
				for _, g := range fi.expandGuards(fi.necessaryGuards(b)) {
					if !l.body[g.e.from] {
						continue
					}
					if _, _, isTT := tokenTypeTest(g.cond); isTT {
						continue
					}
					if tc, isCall := g.cond.(*ssa.Call); isCall && strings.HasSuffix(calleeName(tc.Common()), "token.Token).Is") {
						continue // a test of the token's type against a type that is a parameter here (a shared list parser)
					}
					if isRangeFuncProtocol(g.cond) || isErrCond(g.cond) || isLoopCond(fi, g) {
						continue
					}
					bad = "the element is only kept under " + condText(g.cond) + " at " + c.bpos(g.e.from)
				}
				if bad == "" {
					r.ok(key, c.ipos(call), "kept whenever a token of its kind is read")
				} else {
					r.bad(key, c.ipos(call), bad+": entries that were written are missing from the parsed list")
				}
			}
		}
	}
	if n == 0 {
		r.undecided("parser element appends", "-", "no append of a token-derived node inside a loop was found in the parser: lists are built in a way this rule does not model")
	}
	return r
}

func rulePR5(c *Ctx) *rule {
	r := &rule{ID: "PR5", Engine: "E3", Floor: 1,
		Statement: "in the lexer, parser, ast and token packages every bufio.Scanner has its Err() consulted (or no scanner is used at all: the pinned tree splits the input with strings functions)",
		Necessity: "a bufio.Scanner stops silently at a line longer than its buffer (64 KiB by default): a line lookup built on one returns an empty quote for every error after such a line, so a syntax error no longer quotes its line"}
	fns, scanners := 0, 0
	seenAt := map[string]bool{}
	for _, f := range c.ModFuncs {
		switch shortPkg(fnPkgPath(f)) {
		case "lexer", "parser", "ast", "token":
		default:
			continue
		}
		fns++
		for _, site := range callSites(f) {
			if calleeName(site.Common()) != "bufio.NewScanner" {
				continue
			}
			sc, isVal := site.(ssa.Value)
			if !isVal {
				continue
			}
			// one obligation per scanner of the source: inlined copies of a helper share its position
			if seenAt[c.ipos(site)] {
				continue
			}
			seenAt[c.ipos(site)] = true
			scanners++
			key := fmt.Sprintf("bufio.NewScanner#%d (seen in %s)", scanners, fname(f))
			errSeen, bufSet := false, false
			for _, g := range closuresOf(f) {
				for _, cs := range callSites(g) {
					n := calleeName(cs.Common())
					if (n != "(*bufio.Scanner).Err" && n != "(*bufio.Scanner).Buffer") || len(cs.Common().Args) == 0 {
						continue
					}
					for _, o := range origins(cs.Common().Args[0]) {
						if o == sc {
							if n == "(*bufio.Scanner).Err" {
								errSeen = true
							} else {
								bufSet = true
							}
						}
					}
				}
			}
			switch {
			case errSeen:
				r.ok(key, c.ipos(site), "Err() of this scanner is consulted")
			case bufSet:
				r.undecided(key, c.ipos(site), "the scanner's buffer is sized by hand and Err() is never consulted: whether every line fits is a value-level question")
			default:
				r.bad(key, c.ipos(site), "Err() of this scanner is never consulted: the scan ends silently at a line longer than 64 KiB and every later line is missing from what is looked up")
			}
		}
	}
	if scanners == 0 {
		r.ok("lexer/parser/ast/token line scanners", "-", fmt.Sprintf("%d functions inspected: no bufio.Scanner is used", fns))
	}
	return r
}

// ---- PR4: lexer and parser look at the same text ---------------------------------------------------------------------------------------

func rulePR4(c *Ctx) *rule {
	r := &rule{ID: "PR4", Engine: "E3", Floor: 2,
		Statement: "the text the lexer scans and the text the parser quotes from are the same string: Lexer.input is lexer.New's parameter unchanged, and parser.New hands its own parameter both to lexer.New and to Parser.input",
		Necessity: "token line numbers are counted by the lexer and looked up by the parser: if one of them works on a normalised copy (line endings, trimming) the cited line and the quoted line differ, or the lookup indexes past the end"}
	paramOnly := func(v ssa.Value, f *ssa.Function) (*ssa.Parameter, bool) {
		os := origins(v)
		if len(os) != 1 {
			return nil, false
		}
		p, ok := os[0].(*ssa.Parameter)
		if !ok || p.Parent() != f {
			return nil, false
		}
		return p, true
	}
	lexNew := c.fn("lexer", "New")
	n := 0
	for _, st := range c.fieldStores()["lexer.Lexer.input"] {
		n++
		key := fmt.Sprintf("%s Lexer.input#%d", fname(st.Parent()), n)
		if _, ok := paramOnly(st.Val, st.Parent()); ok && st.Parent() == lexNew {
			r.ok(key, c.ipos(st), "the parameter of lexer.New, unchanged")
		} else {
			r.bad(key, c.ipos(st), "the lexer scans a rewritten copy of the text it was given (or its input is replaced later): line numbers no longer refer to the caller's text")
		}
	}
	parNew := c.fn("parser", "New")
	var toLexer, toField *ssa.Parameter
	for _, site := range callSites(parNew) {
		if site.Common().StaticCallee() == lexNew && len(site.Common().Args) == 1 {
			toLexer, _ = paramOnly(site.Common().Args[0], parNew)
		}
	}
	for _, st := range c.fieldStores()["parser.Parser.input"] {
		if st.Parent() == parNew {
			toField, _ = paramOnly(st.Val, parNew)
		}
	}
	key := "parser.New same text for lexer and parser"
	if toLexer != nil && toLexer == toField {
		r.ok(key, c.pos(parNew.Pos()), "one parameter feeds both")
	} else {
		r.bad(key, c.pos(parNew.Pos()), "the parser keeps a different string than the one it gives to the lexer")
	}
	return r
}

// ---- FM7: the parsed tree is not rearranged before it is printed --------------------------------------------------------------------

func ruleFM7(c *Ctx) *rule {
	r := &rule{ID: "FM7", Engine: "E3", Floor: 1,
		Statement: "outside the parser and ast packages nothing stores into, sorts, reverses or appends over the node list of a syntax tree or a list inside one of its nodes (a slice loaded from ast.Tree.Nodes, ast.Task.Dependencies / Outputs / Commands, ast.Function.Arguments, through any alias)",
		Necessity: "the tree handed to file.New and the tree the formatter prints share one backing array: re-ordering the nodes while loading the spokfile moves statements away from their comments in what --fmt writes back"}
	n := 0
	for _, f := range c.ModFuncs {
		pkg := shortPkg(fnPkgPath(f))
		if pkg == "parser" || pkg == "ast" {
			continue
		}
		for _, b := range f.Blocks {
			for _, in := range b.Instrs {
				v, ok := in.(ssa.Value)
				if !ok {
					continue
				}
				var nodes ssa.Value
				// the node list of the tree and the lists inside its nodes (a Task value copied out of the tree shares them)
				treeLists := map[string]bool{"ast.Tree.Nodes": true, "ast.Task.Dependencies": true, "ast.Task.Outputs": true, "ast.Task.Commands": true, "ast.Function.Arguments": true}
				switch x := in.(type) {
				case *ssa.Field:
					if treeLists[fieldKey(x)] {
						nodes = x
					}
				case *ssa.UnOp:
					if x.Op == token.MUL && treeLists[fieldKey(x.X)] {
						nodes = x
					}
				}
				_ = v
				if nodes == nil {
					continue
				}
				n++
				key := fmt.Sprintf("%s tree nodes#%d unmodified", fname(f), n)
				if why := c.sliceMutation(nodes, 3, map[ssa.Value]bool{}, "the node list of the tree"); why != "" {
					r.bad(key, c.ipos(in), why)
				} else {
					r.ok(key, c.ipos(in), "read only")
				}
			}
		}
	}
	if n == 0 {
		r.ok("module tree nodes", "-", "the node list is not accessed outside the parser and the printer")
	}
	return r
}

func parseProperties() []*propertySpec {
	return []*propertySpec{
		{ID: "C08", Title: "Parsing any input terminates, deterministically, with a tree or located error",
			Explanation: "Only the error-reporting and scan-termination clauses are structural and are what this check decides: PR1/PR2 (typed syntax tree, object identity of identifiers) prove that every ERROR arm of the parser reports the tested token's own Value and that every illegalToken quotes the line of the token it cites; LX1 proves on the lexer's state-function graph (recovered from the function constants each state can return) that a scan ends only through l.error (which sends an ERROR token) or directly after emit(EOF), and that run closes the channel after the state loop; LX2 proves every state path from the LBRACE state reaches the RBRACE state or an error before any EOF-emitting state; PR3 proves every token loop of the parser calls next() on every way round and is left on ERROR. Totality / absence of panics over all byte strings is NOT decided.",
			NotCovered:  []string{"totality and absence of panics (index arithmetic in getLine, rune decoding) over all byte strings", "that each lexer state consumes input (cursor arithmetic)", "that cited line numbers are within 1..lines"},
			Assumptions: []string{"a receive from the closed token channel yields the zero token, whose type is token.EOF"},
			Rules:       []func(*Ctx) *rule{rulePR1, rulePR2, rulePR3, rulePR4, rulePR5, rulePR6, ruleLX1, ruleLX2, ruleFM6}},
		{ID: "C06", Title: "Parsing recovers exactly the structure written, in every admissible layout",
			Explanation: "Only the clauses of parse fidelity that are visible in the shape of the code are decided: KW1 (state graph + edge dominance) proves the task keyword is recognised as a whole word, so that names beginning with it stay names; PS1/PS2 prove a string literal's text is the token text minus the quotes and that Literal() hands the field out unchanged ('the same strings verbatim'); TL1/TL2 prove a token's text is the input between the cursor cells; PR4/FM6 prove lexer and parser work on the file as read; FM3/FM5 prove one tree node per statement and that no parsed comment is dropped; TK4 proves one command per command token. Equality between the written structure and the parse result for all layouts is NOT decided.",
			NotCovered:  []string{"the lexer's cursor arithmetic for every layout (whitespace, CRLF line ends - commands keep a trailing \\r on CRLF input today, observed by a sub-agent, value-level), trailing commas, one-line bodies, non-ASCII letters", "that the parser puts each element into the right list"},
			Assumptions: []string{"identifiers are letters and underscores (lexer.isValidIdent)"},
			Rules:       []func(*Ctx) *rule{ruleKW1, rulePL1, rulePS1, rulePS2, ruleTL1, ruleTL2, rulePR4, ruleFM6, ruleFM3, ruleFM5, ruleTK4}},
		{ID: "C07", Title: "Formatting never changes what a spokfile does, and its output always parses",
			Explanation: "Only the structural necessary conditions of the round trip are decided: KW1 proves the keyword is a whole word (a name starting with 'task' that the printer moves to the start of a line must still be a name); WR1 proves every printer of a compound node writes every field, and every element of every list field by a full forward range (or by the indices a length test pins down), unconditionally and unsorted; FM1 proves no top-level node prints as nothing and Tree.Write prints each node once in order; FM7 proves nobody outside parser/ast overwrites the tree (or the lists inside its nodes) between Parse and String; FX2 proves --fmt writes exactly Tree.String() of the parse result and only when parsing and loading succeeded; PS1/PS2 prove string text is token text minus quotes and Literal() returns the field; ST9 proves no spokfile text is used as a format string. That the printed text re-parses to an equal tree for every input is NOT decided.",
			NotCovered:  []string{"re-lexing of the printed form for every input (quotes inside strings, trailing blanks of commands, CRLF): value-level", "equality of the re-parsed tree"},
			Assumptions: []string{"the printed punctuation is what the existing ast tests pin"},
			Rules:       []func(*Ctx) *rule{ruleKW1, ruleWR1, rulePL1, ruleFM1, ruleFM7, ruleFX2, rulePS1, rulePS2, ruleFM6, ruleST9}},
		{ID: "C15", Title: "Formatting keeps every comment and every task's docstring",
			Explanation: "FM1 proves by a may-be-empty analysis over the SSA form of every String() method of the node types the parser appends (Comment, Assign, Task) that no return path prints the empty string, and that Tree.Write prints every node once, in order; FM2 proves by edge dominance that a parsed comment becomes a docstring only under the guard that the very next token is the task keyword, is never carried over from another iteration, and that Task.String prints it before the keyword; FM3 proves by path enumeration that every way round the parse loop appends exactly one node.",
			NotCovered:  []string{"preservation of the comment text itself and of order (value-level)", "comments inside task bodies (the lexer rejects them)"},
			Assumptions: []string{"docstring = comment immediately followed by the task keyword (parser definition)"},
			Rules:       []func(*Ctx) *rule{ruleFM1, ruleFM2, ruleFM3, ruleFM4, ruleFM5, ruleFM6, ruleFM7}},
	}
}

// isNextTokenCall: a direct pull from the lexer (Tokeniser.NextToken), bypassing the parser's buffer.
func isNextTokenCall(site ssa.CallInstruction) bool {
	cc := site.Common()
	if cc.IsInvoke() {
		return cc.Method.Name() == "NextToken"
	}
	f := cc.StaticCallee()
	return f != nil && f.Name() == "NextToken"
}

package main

import (
	"go/constant"
	"fmt"
	"go/token"
	"go/types"
	"regexp"
	"sort"
	"strings"

	"golang.org/x/tools/go/ssa"
)

// ---- the run-loop model (events X H G S D L K) ---------------------------------------------------------------

type sEvent struct {
	call *ssa.Call
	key  ssa.Value
	val  ssa.Value
}

type kEvent struct {
	at     *ssa.BasicBlock // block whose execution means "reported as skipped"
	guards []guard
	pos    string
	desc   string
}

type runLoop struct {
	c       *Ctx
	fn      *ssa.Function
	fi      *fnInfo
	X       *ssa.Call
	Xs      []*ssa.Call // every place where the commands of a task are executed (X is one of them)
	recv    ssa.Value   // the iterated task (X's receiver)
	loop    *loopInfo
	reg     *region
	H       []*ssa.Call
	G       []*ssa.Call
	S       []sEvent
	D       []*ssa.Call // in fn, inside or after the loop
	L       []*ssa.Call
	K       []kEvent
	force   *ssa.Parameter
	cacheTy *types.Named
	mapFld  string
}

func pkgPath(short string) string { return modPath + "/" + short }

// cacheMapField finds the single map field of cache.Cache.
func (c *Ctx) cacheMapField() (*types.Named, string) {
	n := c.namedType("cache", "Cache")
	st, ok := n.Underlying().(*types.Struct)
	if !ok {
		lost("cache.Cache is not a struct")
	}
	name := ""
	for i := 0; i < st.NumFields(); i++ {
		if _, ok := st.Field(i).Type().Underlying().(*types.Map); ok {
			if name != "" {
				lost("cache.Cache has more than one map field")
			}
			name = st.Field(i).Name()
		}
	}
	if name == "" {
		lost("cache.Cache has no map field")
	}
	return n, name
}

func isCacheMapLoad(v ssa.Value, key string) bool {
	u, ok := v.(*ssa.UnOp)
	if !ok || u.Op != token.MUL {
		return false
	}
	return fieldKey(u.X) == key
}

// setSummary: which parameters of f end up as key / value of an update of the cache map (directly or through
// module callees).
type setSummary struct{ key, val int }

func (c *Ctx) cacheSummaries() (getFns map[*ssa.Function]bool, setFns map[*ssa.Function]setSummary, delFns map[*ssa.Function]int) {
	_, fld := c.cacheMapField()
	key := "cache.Cache." + fld
	getFns = map[*ssa.Function]bool{}
	setFns = map[*ssa.Function]setSummary{}
	delFns = map[*ssa.Function]int{}
	paramIndex := func(f *ssa.Function, v ssa.Value) int {
		for _, o := range origins(v) {
			for i, p := range f.Params {
				if o == ssa.Value(p) {
					return i
				}
			}
		}
		return -1
	}
	for _, f := range c.ModFuncs {
		for _, b := range f.Blocks {
			for _, in := range b.Instrs {
				switch x := in.(type) {
				case *ssa.MapUpdate:
					if isCacheMapLoad(x.Map, key) {
						k, v := paramIndex(f, x.Key), paramIndex(f, x.Value)
						if k >= 0 && v >= 0 {
							setFns[f] = setSummary{k, v}
						}
					}
				case *ssa.Call:
					if bi, ok := x.Call.Value.(*ssa.Builtin); ok && bi.Name() == "delete" && isCacheMapLoad(x.Call.Args[0], key) {
						if k := paramIndex(f, x.Call.Args[1]); k >= 0 {
							delFns[f] = k
						}
					}
				}
			}
		}
	}
	// one level of wrappers
	for _, f := range c.ModFuncs {
		if _, ok := setFns[f]; ok {
			continue
		}
		for _, site := range callSites(f) {
			callee := site.Common().StaticCallee()
			if s, ok := setFns[callee]; ok && callee != nil {
				args := site.Common().Args
				if s.key < len(args) && s.val < len(args) {
					k, v := paramIndex(f, args[s.key]), paramIndex(f, args[s.val])
					if k >= 0 && v >= 0 {
						setFns[f] = setSummary{k, v}
					}
				}
			}
		}
	}
	// G: functions whose results slice to a lookup in the cache map
	for _, f := range c.ModFuncs {
		if f.Signature.Results().Len() == 0 {
			continue
		}
		sl := c.newSlicer()
		sl.depth = 1
		var rs []ssa.Value
		for _, r := range returnsOf(f) {
			rs = append(rs, r.Results...)
		}
		res := sl.run(rs...)
		for v := range res.vals {
			if lk, ok := v.(*ssa.Lookup); ok && isCacheMapLoad(lk.X, key) {
				// only string results count (Get), not the whole cache
				getFns[f] = true
			}
		}
	}
	return
}

func (c *Ctx) hasherIface() *types.Interface {
	n := c.namedType("hash", "Hasher")
	i, ok := n.Underlying().(*types.Interface)
	if !ok {
		lost("hash.Hasher is not an interface")
	}
	return i
}

// isHashCall: invocation of hash.Hasher.Hash, or a static call of the Hash method of an implementation.
func (c *Ctx) isHashCall(call *ssa.Call) bool {
	cc := call.Common()
	if cc.IsInvoke() {
		return cc.Method.Name() == "Hash" && isNamed(cc.Value.Type(), pkgPath("hash"), "Hasher")
	}
	f := cc.StaticCallee()
	if f == nil || f.Name() != "Hash" || f.Signature.Recv() == nil {
		return false
	}
	return types.Implements(f.Signature.Recv().Type(), c.hasherIface())
}

func (c *Ctx) takesCache(call *ssa.Call) bool {
	for _, a := range call.Common().Args {
		if isNamed(a.Type(), pkgPath("cache"), "Cache") {
			return true
		}
	}
	return false
}

type runLoopKey struct {
	c  *Ctx
	xi int
}

var runLoopCache = map[runLoopKey]*runLoop{}

// runSites: the calls of (*task.Task).Run in the module ("the commands of a task are executed here"). The run-loop rules are
// stated per execution of the commands; when a function executes them at more than one place (a special-cased branch of the
// loop), every rule is evaluated once for each place (see evaluate) and c.xIndex selects which one rl.X stands for.
func (c *Ctx) runSites() []*ssa.Call {
	taskRun := c.method("task", "Task", "Run")
	var xs []*ssa.Call
	for _, f := range c.ModFuncs {
		for _, site := range callSites(f) {
			if call, ok := site.(*ssa.Call); ok && call.Common().StaticCallee() == taskRun {
				xs = append(xs, call)
			}
		}
	}
	sort.Slice(xs, func(i, j int) bool { return xs[i].Pos() < xs[j].Pos() })
	return xs
}

// precedesInIteration: b can be reached from a without going round the task loop.
func (rl *runLoop) precedesInIteration(a, b ssa.Instruction) bool {
	if a.Block() == b.Block() {
		return before(a, b)
	}
	seen := map[*ssa.BasicBlock]bool{}
	work := []*ssa.BasicBlock{a.Block()}
	for len(work) > 0 {
		x := work[len(work)-1]
		work = work[:len(work)-1]
		for _, s := range x.Succs {
			if rl.loop != nil && s == rl.loop.header {
				continue
			}
			if s == b.Block() {
				return true
			}
			if !seen[s] {
				seen[s] = true
				work = append(work, s)
			}
		}
	}
	return false
}

// runSitesQuiet is runSites for callers outside a rule (no anchor error when the method is missing).
func (c *Ctx) runSitesQuiet() (xs []*ssa.Call) {
	defer func() {
		if recover() != nil {
			xs = nil
		}
	}()
	return c.runSites()
}

func (c *Ctx) runLoop() *runLoop {
	if rl, ok := runLoopCache[runLoopKey{c, c.xIndex}]; ok {
		return rl
	}
	xs := c.runSites()
	if len(xs) == 0 {
		lost("no call of (*task.Task).Run in the module")
	}
	for _, x := range xs[1:] {
		if x.Parent() != xs[0].Parent() {
			lost("(*task.Task).Run is called from %d different functions (%s, %s): the run loop cannot be identified", 2, fname(xs[0].Parent()), fname(x.Parent()))
		}
	}
	xi := c.xIndex
	if xi >= len(xs) {
		xi = 0
	}
	rl := &runLoop{c: c, X: xs[xi], Xs: xs, fn: xs[xi].Parent()}
	rl.fi = c.info(rl.fn)
	rl.recv = rl.X.Common().Args[0]
	rl.loop = rl.fi.innermostLoop(rl.X.Block())
	// the task loop is the outermost loop containing X whose header dominates... use the innermost loop that
	// ranges over tasks: the innermost loop containing X is the one in every shape seen so far.
	rl.reg = rl.fi.regionOf(rl.loop)
	rl.cacheTy, rl.mapFld = c.cacheMapField()
	getFns, setFns, _ := c.cacheSummaries()
	for _, p := range rl.fn.Params {
		if b, ok := p.Type().Underlying().(*types.Basic); ok && b.Kind() == types.Bool {
			if rl.force != nil {
				rl.force = nil // more than one bool: resolved below through SpokFile.Run
				break
			}
			rl.force = p
		}
	}
	for _, site := range callSites(rl.fn) {
		call, ok := site.(*ssa.Call)
		if !ok {
			continue
		}
		callee := call.Common().StaticCallee()
		switch {
		case c.isHashCall(call):
			rl.H = append(rl.H, call)
		case callee != nil && getFns[callee] && !isNamed(call.Type(), pkgPath("cache"), "Cache"):
			rl.G = append(rl.G, call)
		}
		if callee != nil {
			if s, ok := setFns[callee]; ok {
				args := call.Common().Args
				rl.S = append(rl.S, sEvent{call, args[s.key], args[s.val]})
			}
			if inModule(callee) && c.takesCache(call) && c.reachesMutation(callee) {
				rl.D = append(rl.D, call)
			}
			if inModule(callee) && isNamed(firstResult(callee), pkgPath("cache"), "Cache") && c.reachesCallee(callee, "encoding/json.Unmarshal") {
				rl.L = append(rl.L, call)
			}
		}
	}
	rl.findK()
	for _, s := range rl.S {
		registerControlValue(s.val, s.call)
	}
	runLoopCache[runLoopKey{c, c.xIndex}] = rl
	return rl
}

func firstResult(f *ssa.Function) types.Type {
	if f.Signature.Results().Len() == 0 {
		return types.Typ[types.Invalid]
	}
	return f.Signature.Results().At(0).Type()
}

func (rl *runLoop) inLoop(i ssa.Instruction) bool {
	return rl.loop == nil || rl.loop.body[i.Block()]
}

// precedes: like before, but an instruction inside a loop that does not contain b counts as preceding b when the loop as a
// whole does (its header dominates b): "the patterns are expanded in a loop before the run loop starts".
func (c *Ctx) precedes(a, b ssa.Instruction) bool {
	if before(a, b) {
		return true
	}
	if a.Parent() != b.Parent() {
		return false
	}
	fi := c.info(a.Parent())
	for _, l := range fi.loopsContaining(a.Block()) {
		if !l.body[b.Block()] && dominates(l.header, b.Block()) {
			return true
		}
	}
	return false
}

// before: instruction a is executed before b on every path that reaches b (same block earlier, or a's block dominates b's).
func before(a, b ssa.Instruction) bool {
	if a.Block() == b.Block() {
		for _, i := range a.Block().Instrs {
			if i == a {
				return true
			}
			if i == b {
				return false
			}
		}
	}
	return dominates(a.Block(), b.Block())
}

// findK collects the "reported as skipped" events: stores of a possibly-true value into task.Result.Skipped.
func (rl *runLoop) findK() {
	c := rl.c
	key := "task.Result.Skipped"
	var walk func(v ssa.Value, at *ssa.BasicBlock, gs []guard, seen map[ssa.Value]bool, pos string)
	walk = func(v ssa.Value, at *ssa.BasicBlock, gs []guard, seen map[ssa.Value]bool, pos string) {
		if seen[v] {
			return
		}
		seen[v] = true
		if b, ok := constBool(v); ok {
			if b {
				rl.K = append(rl.K, kEvent{at, gs, pos, "Skipped = true"})
			}
			return
		}
		if phi, ok := v.(*ssa.Phi); ok {
			for i, e := range phi.Edges {
				pred := phi.Block().Preds[i]
				eg := rl.fi.guardsOfEdge(edge{pred, succIndex(pred, phi.Block())})
				walk(e, pred, eg, seen, pos)
			}
			return
		}
		cond, pol := normCond(v, true)
		gs2 := append(append([]guard{}, gs...), guard{edge{at, 0}, cond, pol})
		rl.K = append(rl.K, kEvent{at, gs2, pos, "Skipped = " + v.Name()})
	}
	for _, st := range c.fieldStores()[key] {
		if st.Parent() != rl.fn {
			// a helper that builds skipped results: its call sites in the loop function are the events
			if b, ok := constBool(st.Val); ok && !b {
				continue
			}
			for _, site := range c.callersOf(st.Parent()) {
				if site.Parent() == rl.fn {
					rl.K = append(rl.K, kEvent{site.Block(), rl.fi.necessaryGuards(site.Block()), c.ipos(site), "call of " + fname(st.Parent())})
				}
			}
			continue
		}
		walk(st.Val, st.Block(), rl.fi.necessaryGuards(st.Block()), map[ssa.Value]bool{}, c.ipos(st))
	}
}

// isTaskName: v is the Name field of the iterated task.
func (rl *runLoop) isTaskName(v ssa.Value) bool {
	os := origins(v)
	if len(os) == 0 {
		return false
	}
	base := structRoot
	want := base(rl.recv)
	for _, o := range os {
		ok := false
		switch y := o.(type) {
		case *ssa.UnOp:
			if y.Op == token.MUL && fieldKey(y.X) == "task.Task.Name" && base(y.X) == want {
				ok = true
			}
		case *ssa.Field:
			if fieldKey(y) == "task.Task.Name" && base(y.X) == want {
				ok = true
			}
		}
		if !ok {
			return false
		}
	}
	return true
}

// hDerived: the value is (a copy of) the digest returned by one of the H calls of the iteration.
func (rl *runLoop) hDerived(v ssa.Value) *ssa.Call {
	for _, h := range rl.H {
		if someOriginIsResultOf(v, h, 0) {
			return h
		}
	}
	return nil
}

func (rl *runLoop) gDerived(v ssa.Value) *ssa.Call {
	for _, g := range rl.G {
		if isResultOf(v, g, 0) {
			return g
		}
	}
	return nil
}

// digestComparison recognises `h == g` / `h != g` between this iteration's H and G results; eqWhen tells
// under which outcome of the condition the digests are equal.
func (rl *runLoop) digestComparison(cond ssa.Value) (h, g *ssa.Call, eqWhenTrue bool, ok bool) {
	b, isB := cond.(*ssa.BinOp)
	if !isB || (b.Op != token.EQL && b.Op != token.NEQ) {
		return nil, nil, false, false
	}
	for _, pair := range [][2]ssa.Value{{b.X, b.Y}, {b.Y, b.X}} {
		hh, gg := rl.hDerivedAll(pair[0]), rl.gDerived(pair[1])
		if hh != nil && gg != nil {
			return hh, gg, b.Op == token.EQL, true
		}
	}
	return nil, nil, false, false
}

func (rl *runLoop) hDerivedAll(v ssa.Value) *ssa.Call {
	for _, h := range rl.H {
		if isResultOf(v, h, 0) {
			return h
		}
	}
	return nil
}

// lenTest recognises a comparison of len(<argument of an H call>) with 0; emptyWhenTrue tells which outcome means "no inputs".
func (rl *runLoop) lenTest(cond ssa.Value) (emptyWhenTrue bool, ok bool) {
	b, isB := cond.(*ssa.BinOp)
	if !isB {
		return false, false
	}
	isLenOfArg := func(v ssa.Value) bool {
		call, ok := v.(*ssa.Call)
		if !ok {
			return false
		}
		bi, ok := call.Call.Value.(*ssa.Builtin)
		if !ok || bi.Name() != "len" {
			return false
		}
		for _, h := range rl.H {
			for _, a := range h.Common().Args {
				if _, isSlice := a.Type().Underlying().(*types.Slice); !isSlice {
					continue
				}
				if a == call.Call.Args[0] || sameOrigins(a, call.Call.Args[0]) {
					return true
				}
			}
		}
		return false
	}
	zero := func(v ssa.Value) bool { n, ok := constInt(v); return ok && n == 0 }
	one := func(v ssa.Value) bool { n, ok := constInt(v); return ok && n == 1 }
	switch {
	case isLenOfArg(b.X) && zero(b.Y):
		switch b.Op {
		case token.EQL, token.LEQ:
			return true, true
		case token.NEQ, token.GTR:
			return false, true
		}
	case isLenOfArg(b.Y) && zero(b.X):
		switch b.Op {
		case token.EQL, token.GEQ:
			return true, true
		case token.NEQ, token.LSS:
			return false, true
		}
	case isLenOfArg(b.X) && one(b.Y):
		switch b.Op {
		case token.LSS:
			return true, true
		case token.GEQ:
			return false, true
		}
	}
	return false, false
}

func sameOrigins(a, b ssa.Value) bool {
	oa, ob := origins(a), origins(b)
	if len(oa) == 0 || len(oa) != len(ob) {
		return false
	}
	m := map[ssa.Value]bool{}
	for _, x := range oa {
		m[x] = true
	}
	for _, x := range ob {
		if !m[x] {
			return false
		}
	}
	return true
}

// okTest recognises a call of an Ok method on (something containing) X's result. own = the receiver is exactly X's result
// (or the Result built from it in this iteration); otherwise it is a collection.
func (rl *runLoop) okTest(cond ssa.Value) (own bool, ok bool) {
	call, isCall := cond.(*ssa.Call)
	if !isCall {
		return false, false
	}
	f := call.Common().StaticCallee()
	if f == nil || f.Name() != "Ok" || !inModule(f) || len(call.Common().Args) != 1 {
		return false, false
	}
	recv := call.Common().Args[0]
	if isResultOf(recv, rl.X, 0) {
		return true, true
	}
	sl := rl.c.newSlicer()
	sl.depth = 0
	res := sl.run(recv)
	if !res.has(rl.X) {
		return false, false
	}
	// own if no loop-carried phi is involved
	if rl.loop != nil {
		for _, p := range rl.loop.headerPhis() {
			if res.has(p) {
				return false, true
			}
		}
	}
	return true, true
}

// emptyDigestTest recognises `g == ""` / `g != ""` on this iteration's G result.
func (rl *runLoop) emptyDigestTest(cond ssa.Value) (emptyWhenTrue bool, ok bool) {
	b, isB := cond.(*ssa.BinOp)
	if !isB || (b.Op != token.EQL && b.Op != token.NEQ) {
		return false, false
	}
	for _, pair := range [][2]ssa.Value{{b.X, b.Y}, {b.Y, b.X}} {
		if s, isC := constString(pair[1]); isC && s == "" && rl.gDerived(pair[0]) != nil {
			return b.Op == token.EQL, true
		}
	}
	return false, false
}

func (rl *runLoop) describe(r *rule) {
	c := rl.c
	loopPos := "no loop in this function (helper shape)"
	if rl.loop != nil {
		loopPos = "loop at " + c.bpos(rl.loop.header)
	}
	r.note("run-loop function %s, X=(*task.Task).Run at %s, %s", fname(rl.fn), c.ipos(rl.X), loopPos)
	r.note("events: %d H (digest), %d G (cache read), %d S (cache update), %d D (persist), %d L (load), %d K (skipped=true)", len(rl.H), len(rl.G), len(rl.S), len(rl.D), len(rl.L), len(rl.K))
}

func (rl *runLoop) requireEvents() {
	if len(rl.H) == 0 {
		lost("no call of hash.Hasher.Hash in %s", fname(rl.fn))
	}
	if len(rl.G) == 0 {
		lost("no read of the cache map reaches %s", fname(rl.fn))
	}
}

// ---- CP1 ------------------------------------------------------------------------------------------------------

func ruleCP1(c *Ctx) *rule {
	r := &rule{ID: "CP1", Engine: "E2+E3", Floor: 1,
		Statement: "every 'skipped' report has, as a necessary guard, the equality of this iteration's digest (H) with this iteration's cached digest (G) of the same task",
		Necessity: "any other way to reach 'skipped' skips without comparing the inputs with those of the last success"}
	rl := c.runLoop()
	rl.requireEvents()
	rl.describe(r)
	if len(rl.K) == 0 {
		r.ok(fname(rl.fn)+" no-skip", c.ipos(rl.X), "no store of a possibly-true value into task.Result.Skipped: nothing is ever reported skipped")
		return r
	}
	for i, k := range rl.K {
		key := fmt.Sprintf("%s K#%d", fname(rl.fn), i+1)
		found := false
		var why []string
		for _, g := range k.guards {
			h, gg, eqWhenTrue, ok := rl.digestComparison(g.cond)
			if !ok {
				continue
			}
			if eqWhenTrue != g.pol {
				why = append(why, "digest comparison is on the wrong polarity")
				continue
			}
			// same task: G keyed by the iterated task's name
			if len(gg.Common().Args) < 2 || !rl.isTaskName(gg.Common().Args[1]) {
				why = append(why, "the cache read is not keyed by the iterated task's name")
				continue
			}
			if !rl.inLoop(h) || !rl.inLoop(gg) {
				why = append(why, "digest or cache read is outside the iteration")
				continue
			}
			found = true
		}
		if found {
			r.ok(key, k.pos, k.desc+" is guarded by H == G of the iterated task")
		} else {
			if dyn := delegatedDecision(k.guards); dyn != "" {
				r.undecided(key, k.pos, k.desc+" is decided by "+dyn+", a function value: the checker does not follow which function it is")
				continue
			}
			r.bad(key, k.pos, k.desc+" is reachable without the necessary guard 'current digest == cached digest' ("+strings.Join(why, "; ")+")", describeGuards(c, k.guards)...)
		}
	}
	// the cache read by G must be the loaded one
	for _, g := range rl.G {
		recvOK := false
		for _, l := range rl.L {
			if isResultOf(g.Common().Args[0], l, 0) {
				recvOK = true
			}
		}
		key := fmt.Sprintf("%s G-reads-loaded-cache", fname(rl.fn))
		if recvOK {
			r.ok(key, c.ipos(g), "the cache consulted is the one loaded from disk")
		} else {
			r.bad(key, c.ipos(g), "the cache consulted by the skip decision is not the result of the load from the cache file")
		}
	}
	return r
}

func describeGuards(c *Ctx, gs []guard) []string {
	var out []string
	for _, g := range gs {
		out = append(out, fmt.Sprintf("guard %s = %v at %s", condText(g.cond), g.pol, c.bpos(g.e.from)))
	}
	if len(out) == 0 {
		out = []string{"(no guards at all)"}
	}
	return out
}

func condText(v ssa.Value) string {
	switch x := v.(type) {
	case *ssa.BinOp:
		return fmt.Sprintf("(%s %s %s)", valText(x.X), x.Op, valText(x.Y))
	case *ssa.Call:
		return calleeName(x.Common()) + "(…)"
	}
	return valText(v)
}

func valText(v ssa.Value) string {
	switch x := v.(type) {
	case *ssa.Const:
		return x.String()
	case *ssa.Parameter:
		return x.Name()
	case *ssa.Extract:
		if c, ok := x.Tuple.(*ssa.Call); ok {
			return fmt.Sprintf("%s#%d", calleeName(c.Common()), x.Index)
		}
	case *ssa.Call:
		return calleeName(x.Common()) + "(…)"
	case *ssa.Phi:
		if x.Comment != "" {
			return "φ" + x.Comment
		}
	case *ssa.UnOp:
		if x.Op == token.MUL {
			if k := fieldKey(x.X); k != "" {
				return k
			}
		}
	}
	return v.Name()
}

// ---- CP4 (invalidate before running) ------------------------------------------------------------------------------

type invalidation struct {
	holds bool
	why   string
	path  []string
	s0    []*ssa.Call
}

// invalidationBeforeX: on every intra-iteration path from the iteration entry to X, a cache update of the iterated
// task's entry with a constant (or a delete) followed by a persist happens, unless the path takes the edge on which
// the cached digest is known to be empty.
func (rl *runLoop) invalidationBeforeX(assumeForce *bool) invalidation {
	c := rl.c
	_, _, delFns := c.cacheSummaries()
	isS0 := map[ssa.Instruction]bool{}
	var s0 []*ssa.Call
	for _, s := range rl.S {
		if _, ok := s.val.(*ssa.Const); ok && rl.isTaskName(s.key) && rl.inLoop(s.call) {
			isS0[s.call] = true
			s0 = append(s0, s.call)
		}
	}
	for _, site := range callSites(rl.fn) {
		if call, ok := site.(*ssa.Call); ok {
			if k, ok := delFns[call.Common().StaticCallee()]; ok && call.Common().StaticCallee() != nil {
				if k < len(call.Common().Args) && rl.isTaskName(call.Common().Args[k]) && rl.inLoop(call) {
					isS0[call] = true
					s0 = append(s0, call)
				}
			}
		}
	}
	isD := map[ssa.Instruction]bool{}
	for _, d := range rl.D {
		isD[d] = true
	}
	seen := map[string]bool{}
	var bad []string
	var dfs func(b *ssa.BasicBlock, s, d bool, ps *pathState, path []string) bool
	dfs = func(b *ssa.BasicBlock, s, d bool, ps *pathState, path []string) bool {
		k := fmt.Sprintf("%d|%v|%v|%s", b.Index, s, d, ps.key())
		if seen[k] {
			return true
		}
		seen[k] = true
		path = append(path, fmt.Sprintf("block %d (%s)", b.Index, c.bpos(b)))
		for _, in := range b.Instrs {
			if in == ssa.Instruction(rl.X) {
				if !(s && d) {
					bad = append([]string{}, path...)
					return false
				}
				return true
			}
			if isS0[in] {
				s, d = true, false
			}
			if isD[in] && s {
				d = true
			}
		}
		for i, nx := range rl.reg.succs(b) {
			if nx == nil {
				continue
			}
			cond, pol, next, feasible := ps.branch(b, i)
			if !feasible {
				continue
			}
			if cond != nil {
				if emptyWhenTrue, ok := rl.emptyDigestTest(cond); ok && emptyWhenTrue == pol {
					continue // cached digest is empty on this edge: nothing on disk to forget
				}
				if assumeForce != nil && rl.force != nil && cond == ssa.Value(rl.force) && pol != *assumeForce {
					continue
				}
			}
			if !dfs(nx, s, d, next.enter(nx, b), path) {
				return false
			}
		}
		return true
	}
	start := rl.reg.entry
	if dfs(start, false, false, newPathStateFor(rl.fn), nil) {
		if len(s0) == 0 {
			return invalidation{false, "no cache update with a constant value (or delete) for the iterated task before the commands run", nil, nil}
		}
		return invalidation{true, "", nil, s0}
	}
	why := "a path reaches the task's commands without first recording an empty digest and persisting it"
	if len(s0) == 0 {
		why = "nothing forgets the recorded digest on disk before the task's commands start"
	}
	return invalidation{false, why, bad, s0}
}

func ruleCP4(c *Ctx) *rule {
	r := &rule{ID: "CP4", Engine: "E1+E2", Floor: 1,
		Statement: "every execution of a task's commands is preceded, in the same iteration, by a persisted invalidation of that task's recorded digest (only 'the recorded digest is already empty' may bypass it)",
		Necessity: "if nothing persistent changes between reading the entry and starting the commands, a kill right after the commands leaves the old digest valid on disk, and reverting the inputs makes the next run skip a task whose effects are those of other inputs"}
	rl := c.runLoop()
	rl.requireEvents()
	rl.describe(r)
	inv := rl.invalidationBeforeX(nil)
	key := fname(rl.fn) + " call:(*task.Task).Run<-invalidate+persist"
	if inv.holds {
		r.ok(key, c.ipos(rl.X), fmt.Sprintf("%d invalidating update(s) followed by a persist precede the commands on every path", len(inv.s0)))
	} else {
		r.bad(key, c.ipos(rl.X), inv.why, inv.path...)
	}
	return r
}

// ---- CP3 (a success reaches the disk) -------------------------------------------------------------------------------

type cp3Result struct {
	ok   bool
	path []string
	why  string
}

// successPersisted searches for a path from X's success edge to any exit of the function on which the iterated
// task's new digest is not both recorded (S with an H-derived value, in the same iteration) and then persisted (D).
func (rl *runLoop) successPersisted(assumeForce *bool) cp3Result {
	c := rl.c
	sOf := map[ssa.Instruction]sEvent{}
	for _, s := range rl.S {
		if rl.sIsH(s) && rl.isTaskName(s.key) {
			sOf[s.call] = s
		}
	}
	isD := map[ssa.Instruction]bool{}
	for _, d := range rl.D {
		isD[d] = true
	}
	// an S(H) that dominates X in the same iteration counts as already seen (record-then-run shape)
	initS := false
	for call, s := range sOf {
		if rl.inLoop(call) && before(call, rl.X) && rl.hDerivedAll(s.val) != nil {
			initS = true
		}
	}
	xerr := ssa.Value(nil)
	for _, ref := range valueReferrers(rl.X) {
		if ex, ok := ref.(*ssa.Extract); ok && isErrorType(ex.Type()) {
			xerr = ex
		}
	}
	seen := map[string]bool{}
	var bad []string
	why := ""
	var dfs func(b *ssa.BasicBlock, from int, s, cross bool, ps *pathState, path []string) bool
	dfs = func(b *ssa.BasicBlock, from int, s, cross bool, ps *pathState, path []string) bool {
		if from == 0 {
			k := fmt.Sprintf("%d|%v|%v|%s", b.Index, s, cross, ps.key())
			if seen[k] {
				return true
			}
			seen[k] = true
		}
		path = append(path, fmt.Sprintf("block %d (%s)", b.Index, c.bpos(b)))
		for _, in := range b.Instrs[from:] {
			if se, ok := sOf[in]; ok && !cross && rl.hDerivedAll(ps.resolve(se.val)) != nil {
				s = true
			}
			if isD[in] && s {
				return true // recorded and persisted
			}
			switch in.(type) {
			case *ssa.Return, *ssa.Panic:
				bad = append([]string{}, path...)
				if s {
					why = "the new digest is recorded in memory but a path leaves the run without persisting it"
				} else {
					why = "a path from the successful run of the commands leaves the run without recording and persisting the digest they ran on"
				}
				return false
			}
		}
		for i, nx := range b.Succs {
			cond, pol, next, feasible := ps.branch(b, i)
			if !feasible {
				continue
			}
			if cond != nil {
				if x, nonNilWhenTrue, ok := errNilTest(cond); ok && xerr != nil && ps.resolve(x) == xerr && nonNilWhenTrue == pol {
					continue // X itself failed to start: not a success
				}
				if own, ok := rl.okTest(cond); ok && own && !pol && !cross {
					continue // a command failed: nothing to record
				}
				if emptyWhenTrue, ok := rl.lenTest(cond); ok && emptyWhenTrue == pol && !cross {
					continue // no file inputs: never recorded, always runs
				}
				if assumeForce != nil && rl.force != nil && cond == ssa.Value(rl.force) && pol != *assumeForce {
					continue
				}
			}
			ncross := cross
			if rl.loop != nil && nx == rl.loop.header && rl.loop.body[b] {
				ncross = true
			}
			if rl.loop != nil && !rl.loop.body[nx] {
				ncross = true
			}
			if !dfs(nx, 0, s, ncross, next.enter(nx, b), path) {
				return false
			}
		}
		return true
	}
	// start right after X
	idx := 0
	for i, in := range rl.X.Block().Instrs {
		if in == ssa.Instruction(rl.X) {
			idx = i + 1
		}
	}
	if dfs(rl.X.Block(), idx, initS, false, newPathStateFor(rl.fn), nil) {
		return cp3Result{ok: true}
	}
	return cp3Result{false, bad, why}
}

func assumeKey(m map[string]bool) string {
	if len(m) == 0 {
		return ""
	}
	ks := make([]string, 0, len(m))
	for k, v := range m {
		ks = append(ks, fmt.Sprintf("%s=%v", k, v))
	}
	sort.Strings(ks)
	return strings.Join(ks, ";")
}

// condKey gives a canonical key for conditions whose repeated evaluation along one path must agree:
// boolean parameters and ==/!= comparisons over the same pair of SSA values.
// delegatedDecision: one of the guards is the boolean result of calling a function value (a strategy / policy function picked
// at run time); returns a description of it, or "".
func delegatedDecision(gs []guard) string {
	for _, g := range gs {
		call, ok := g.cond.(*ssa.Call)
		if !ok || call.Call.IsInvoke() || call.Call.StaticCallee() != nil {
			continue
		}
		if _, isBuiltin := call.Call.Value.(*ssa.Builtin); isBuiltin {
			continue
		}
		return condText(g.cond)
	}
	return ""
}

func condKey(cond ssa.Value, pol bool) (string, bool) {
	switch x := cond.(type) {
	case *ssa.Parameter:
		return "param:" + x.Name(), pol
	case *ssa.UnOp:
		// a CLI option: the flags are set once before App.Run and never written afterwards
		if x.Op == token.MUL {
			if k := fieldKey(x.X); strings.HasPrefix(k, "cli/app.Options.") {
				if b, ok := x.Type().Underlying().(*types.Basic); ok && b.Kind() == types.Bool {
					return "opt:" + strings.TrimPrefix(k, "cli/app.Options."), pol
				}
			}
		}
	case *ssa.BinOp:
		if x.Op == token.EQL || x.Op == token.NEQ {
			a, b := x.X.Name(), x.Y.Name()
			if _, ok := x.X.(*ssa.Const); ok {
				a = x.X.String()
			}
			if _, ok := x.Y.(*ssa.Const); ok {
				b = x.Y.String()
			}
			if a > b {
				a, b = b, a
			}
			if x.Op == token.NEQ {
				pol = !pol
			}
			return "eq:" + a + "," + b, pol
		}
	case *ssa.Extract:
		// the `ok` of a comma-ok lookup / type assertion / receive: an SSA value, the same whenever it is tested again
		if b, ok := x.Type().Underlying().(*types.Basic); ok && b.Kind() == types.Bool {
			return "val:" + x.Parent().Name() + "." + x.Name(), pol
		}
	case *ssa.Call:
		// the boolean result of a call kept in a variable (`ok := result.Ok()`) and tested more than once
		if b, ok := x.Type().Underlying().(*types.Basic); ok && b.Kind() == types.Bool {
			return "val:" + x.Parent().Name() + "." + x.Name(), pol
		}
	}
	return "", pol
}

func ruleCP3(variant string) func(c *Ctx) *rule {
	return func(c *Ctx) *rule {
		r := &rule{Engine: "E2+E3", Floor: 1}
		rl := c.runLoop()
		rl.requireEvents()
		var force *bool
		t := true
		switch variant {
		case "CP3":
			r.ID = "CP3"
			r.Statement = "no stale digest survives a successful re-run: every path from the successful completion of a task's commands to any exit of the run records the digest they ran on and persists it — or the old digest was invalidated on disk before the commands started"
			r.Necessity = "on a path without either, the cache file still says 'last succeeded on d0' after the task completed on d1; reverting the inputs to d0 then skips a task whose effects are those of d1"
		case "CP3L":
			r.ID = "CP3L"
			r.Statement = "every path from the successful completion of a task's commands to any exit of the run records the digest they ran on and persists it (only 'a command failed' and 'no file inputs' excuse it)"
			r.Necessity = "a success that is not on disk makes the next run execute a task whose inputs are unchanged since that success"
		case "CP3f":
			r.ID = "CP3f"
			force = &t
			r.Statement = "CP3 on the paths taken when force is set: a forced successful run leaves the disk entry equal to the inputs it ran on, or invalidated"
			r.Necessity = "otherwise a forced run on d1 leaves 'd0' on disk and a later unforced run on reverted inputs d0 is skipped"
		}
		rl.describe(r)
		if force != nil && rl.force == nil {
			r.undecided(fname(rl.fn)+" force-parameter", c.ipos(rl.X), "cannot identify the force parameter of the run-loop function")
			return r
		}
		key := fname(rl.fn) + " call:(*task.Task).Run→exit"
		if variant != "CP3L" {
			if inv := rl.invalidationBeforeX(force); inv.holds {
				r.ok(key, c.ipos(rl.X), "the recorded digest is invalidated on disk before the commands start, so no stale digest can survive them")
				return r
			}
		}
		res := rl.successPersisted(force)
		if res.ok {
			r.ok(key, c.ipos(rl.X), "every success path records an H-derived digest for the iterated task and persists it")
		} else {
			r.bad(key, c.ipos(rl.X), res.why, res.path...)
		}
		return r
	}
}

// ---- CP8 (recorded only after success) --------------------------------------------------------------------------------

func ruleCP8(c *Ctx) *rule {
	r := &rule{ID: "CP8", Engine: "E2+E3", Floor: 1,
		Statement: "a digest computed from the current inputs is recorded for a task only under the necessary guard 'this task's commands all exited 0' (or every persist that can follow it has that guard on a collection containing the result)",
		Necessity: "a digest that reaches the disk without that guard marks a task whose commands failed (or never ran) as up to date"}
	rl := c.runLoop()
	rl.requireEvents()
	rl.describe(r)
	n := 0
	for _, s := range rl.S {
		if !rl.sIsH(s) {
			continue
		}
		n++
		key := fmt.Sprintf("%s S(H)#%d", fname(rl.fn), n)
		// (when the commands are executed at several places, an update that only another of them can reach is judged there)
		if len(rl.Xs) > 1 && !rl.precedesInIteration(rl.X, s.call) {
			other := false
			for _, x := range rl.Xs {
				if x != rl.X && rl.precedesInIteration(x, s.call) {
					other = true
				}
			}
			if other {
				continue
			}
		}
		// shape 1: S after X; every way an H-derived value reaches it is guarded by Ok() of X's own result
		guarded := before(rl.X, s.call)
		var badGuards []guard
		if guarded {
			for _, cs := range rl.sCases(s) {
				if rl.hDerivedAll(cs.val) == nil {
					continue
				}
				okCase := false
				for _, g := range cs.guards {
					if _, ok := rl.okTest(g.cond); ok && g.pol {
						okCase = true
					}
				}
				if !okCase {
					guarded = false
					badGuards = cs.guards
				}
			}
		}
		if guarded {
			r.ok(key, c.ipos(s.call), "recorded after the commands, under Ok() of their result")
			continue
		}
		// shape 2: every D reachable from S is guarded by Ok() of a collection containing X's result, and X's error edge leaves
		reach := reachFromInstr(s.call)
		allOK := true
		detail := ""
		nD := 0
		for _, d := range rl.D {
			if !reach[d.Block()] && !(d.Block() == s.call.Block() && before(s.call, d)) {
				continue
			}
			nD++
			has := false
			for _, g := range rl.fi.necessaryGuards(d.Block()) {
				if _, ok := rl.okTest(g.cond); ok && g.pol {
					has = true
				}
			}
			if !has {
				allOK = false
				detail = "the persist at " + c.ipos(d) + " can follow it without the guard Ok()"
			}
		}
		if allOK && nD > 0 {
			r.ok(key, c.ipos(s.call), "recorded before the commands, but every persist that can follow is guarded by Ok() of the results")
		} else {
			if detail == "" {
				detail = "no Ok() guard on the update and none on the persists that follow"
			}
			if badGuards == nil {
				badGuards = rl.fi.necessaryGuards(s.call.Block())
			}
			r.bad(key, c.ipos(s.call), "an H-derived digest is recorded without the necessary guard 'the commands succeeded': "+detail, describeGuards(c, badGuards)...)
		}
	}
	if n == 0 {
		r.ok(fname(rl.fn)+" no-S(H)", c.ipos(rl.X), "no H-derived digest is ever recorded (nothing can be wrongly marked up to date)")
	}
	return r
}

func reachFromInstr(i ssa.Instruction) map[*ssa.BasicBlock]bool {
	out := map[*ssa.BasicBlock]bool{}
	work := append([]*ssa.BasicBlock{}, i.Block().Succs...)
	for len(work) > 0 {
		b := work[len(work)-1]
		work = work[:len(work)-1]
		if out[b] {
			continue
		}
		out[b] = true
		work = append(work, b.Succs...)
	}
	return out
}

// ---- CP5 (empty input list is never up to date) ---------------------------------------------------------------------------

func ruleCP5(c *Ctx) *rule {
	r := &rule{ID: "CP5", Engine: "E2+E3", Floor: 1,
		Statement: "a task whose input list is empty is never reported skipped: every 'skipped' report has the necessary guard len(<digest input>) != 0, or no H-derived digest is ever recorded for an empty list",
		Necessity: "the digest of the empty list is a constant; once recorded and compared it would make a task without file dependencies look up to date forever"}
	rl := c.runLoop()
	rl.requireEvents()
	rl.describe(r)
	if len(rl.K) == 0 {
		r.ok(fname(rl.fn)+" no-skip", c.ipos(rl.X), "nothing is ever reported skipped")
		return r
	}
	// alternative: all S(H) guarded by non-empty
	allS := true
	nS := 0
	for _, s := range rl.S {
		if !rl.sIsH(s) {
			continue
		}
		nS++
		for _, cs := range rl.sCases(s) {
			if rl.hDerivedAll(cs.val) == nil {
				continue
			}
			g := false
			for _, gd := range append(rl.guardsThroughFlags(s.call.Block()), cs.guards...) {
				if emptyWhenTrue, ok := rl.lenTest(gd.cond); ok && emptyWhenTrue != gd.pol {
					g = true
				}
			}
			if !g {
				allS = false
			}
		}
	}
	for i, k := range rl.K {
		key := fmt.Sprintf("%s K#%d", fname(rl.fn), i+1)
		has := false
		for _, g := range k.guards {
			if emptyWhenTrue, ok := rl.lenTest(g.cond); ok && emptyWhenTrue != g.pol {
				has = true
			}
		}
		switch {
		case has:
			r.ok(key, k.pos, "guarded by a non-empty input list")
		case allS && nS > 0:
			// the skip additionally needs a non-empty cached digest or equality with a real digest (never "")
			r.ok(key, k.pos, "no digest is ever recorded for an empty input list, so the comparison cannot succeed for it")
		default:
			r.bad(key, k.pos, "a task with no file inputs can be reported skipped: neither the skip nor the recording of its digest is guarded by len(inputs) != 0", describeGuards(c, k.guards)...)
		}
	}
	return r
}

// guardsThroughFlags: necessary guards of b, where a guard on a boolean phi that is false on the edges dominated by a
// len==0 test is expanded to that test (the `updateCache = false` idiom).
func (rl *runLoop) guardsThroughFlags(b *ssa.BasicBlock) []guard {
	gs := rl.fi.necessaryGuards(b)
	out := append([]guard{}, gs...)
	for _, g := range gs {
		phi, ok := g.cond.(*ssa.Phi)
		if !ok || !g.pol {
			continue
		}
		for i, e := range phi.Edges {
			if bv, ok := constBool(e); ok && !bv {
				pred := phi.Block().Preds[i]
				for _, eg := range rl.fi.guardsOfEdge(edge{pred, succIndex(pred, phi.Block())}) {
					if emptyWhenTrue, ok := rl.lenTest(eg.cond); ok && emptyWhenTrue == eg.pol {
						// phi is false whenever the list is empty => phi true implies non-empty
						c2, p2 := eg.cond, !eg.pol
						out = append(out, guard{eg.e, c2, p2})
					}
				}
			}
		}
	}
	return out
}

// ---- CP2 (non-interference between iterations) -------------------------------------------------------------------------------

func ruleCP2(c *Ctx) *rule {
	r := &rule{ID: "CP2", Engine: "E2+E3", Floor: 4,
		Statement: "the decisions of one iteration (run the commands, report skipped, record a digest, persist) do not depend on state carried over from other iterations of the task loop",
		Necessity: "the property demands the outcome for a task 'independently of whether the other tasks in that run ran, were skipped, failed or have no file dependencies'; a decision whose guard reads loop-carried state depends on exactly that"}
	rl := c.runLoop()
	rl.requireEvents()
	rl.describe(r)
	if rl.loop == nil {
		r.undecided(fname(rl.fn)+" task-loop", c.ipos(rl.X), "the call of (*task.Task).Run is not inside a loop of its function; the per-iteration analysis does not apply to this shape")
		return r
	}
	carried := map[ssa.Value]string{}
	for _, p := range rl.loop.headerPhis() {
		if rl.loop.isInduction(p) {
			continue
		}
		name := p.Comment
		if name == "" {
			name = p.Name()
		}
		carried[p] = "loop-carried variable '" + name + "'"
	}
	// cells allocated outside the loop and stored inside it
	for _, b := range rl.fn.Blocks {
		for _, in := range b.Instrs {
			a, ok := in.(*ssa.Alloc)
			if !ok || rl.loop.body[a.Block()] {
				continue
			}
			storedIn := false
			for _, addr := range derivedAddrs(a) {
				for _, ref := range valueReferrers(addr) {
					if st, ok := ref.(*ssa.Store); ok && st.Addr == addr && rl.loop.body[st.Block()] {
						storedIn = true
					}
				}
			}
			if storedIn {
				if _, isBool := a.Type().(*types.Pointer).Elem().Underlying().(*types.Basic); isBool {
					carried[a] = "cell '" + a.Comment + "' allocated outside the loop and written inside it"
				}
			}
		}
	}
	type event struct {
		name  string
		instr ssa.Instruction
		block *ssa.BasicBlock
		extra []guard
	}
	var events []event
	events = append(events, event{"run the commands (X)", rl.X, rl.X.Block(), nil})
	for i, k := range rl.K {
		events = append(events, event{fmt.Sprintf("report skipped (K#%d)", i+1), nil, k.at, k.guards})
	}
	for i, s := range rl.S {
		if rl.sIsH(s) {
			var extra []guard
			for _, cs := range rl.sCases(s) {
				if rl.hDerivedAll(cs.val) != nil {
					extra = append(extra, cs.guards...)
				}
			}
			events = append(events, event{fmt.Sprintf("record digest (S(H)#%d)", i+1), s.call, s.call.Block(), extra})
		}
	}
	for i, d := range rl.D {
		events = append(events, event{fmt.Sprintf("persist (D#%d)", i+1), d, d.Block(), nil})
	}
	for _, ev := range events {
		key := fname(rl.fn) + " " + ev.name
		pos := c.bpos(ev.block)
		if ev.instr != nil {
			pos = c.ipos(ev.instr)
		}
		var conds []ssa.Value
		if rl.loop.body[ev.block] {
			for _, cb := range rl.reg.controlDeps(ev.block) {
				conds = append(conds, lastInstr(cb).(*ssa.If).Cond)
			}
		} else {
			for _, g := range rl.fi.necessaryGuards(ev.block) {
				if rl.loop.body[g.e.from] && g.e.from == rl.loop.header {
					continue // the loop's own exit test
				}
				conds = append(conds, g.cond)
			}
			// influencing guards after the loop
			postReg := rl.fi.regionOf(nil)
			for _, cb := range postReg.controlDeps(ev.block) {
				if !rl.loop.body[cb] {
					conds = append(conds, lastInstr(cb).(*ssa.If).Cond)
				}
			}
		}
		for _, g := range ev.extra {
			conds = append(conds, g.cond)
		}
		sl := c.newSlicer()
		sl.depth = 1
		sl.control = false
		res := sl.run(conds...)
		var hits []string
		for v, what := range carried {
			if res.has(v) {
				hits = append(hits, what)
			}
		}
		sort.Strings(hits)
		if len(hits) == 0 {
			r.ok(key, pos, fmt.Sprintf("%d influencing condition(s), none reads state of other iterations", len(conds)))
		} else {
			var p []string
			for _, cd := range conds {
				p = append(p, "condition "+condText(cd))
			}
			r.bad(key, pos, "the decision depends on "+strings.Join(hits, " and ")+", i.e. on what happened to other tasks of the same run", p...)
		}
	}
	return r
}

// ---- CP6 (the digest covers every declared file input) ---------------------------------------------------------------------------

func ruleCP6(c *Ctx) *rule {
	r := &rule{ID: "CP6", Engine: "E3", Floor: 3,
		Statement: "the list handed to the hasher is built from every file-input field of the iterated task (literal files, and glob patterns through their expansion), and glob expansion happens before the run loop",
		Necessity: "an input that does not reach the digest can change without the task ever being re-run"}
	rl := c.runLoop()
	rl.requireEvents()
	rl.describe(r)
	// table of file-input fields, cross-checked against task.New
	inputFields := []string{"FileDependencies", "GlobDependencies"}
	st := c.namedType("task", "Task").Underlying().(*types.Struct)
	have := map[string]bool{}
	for i := 0; i < st.NumFields(); i++ {
		have[st.Field(i).Name()] = true
	}
	for _, f := range inputFields {
		if !have[f] {
			lost("task.Task has no field %s", f)
		}
	}
	for _, h := range rl.H {
		if !rl.inLoop(h) {
			continue
		}
		var arg ssa.Value
		for _, a := range h.Common().Args {
			if _, ok := a.Type().Underlying().(*types.Slice); ok {
				arg = a
			}
		}
		if arg == nil {
			lost("hash call without a slice argument")
		}
		sl := c.newSlicer()
		res := sl.run(arg)
		for _, f := range inputFields {
			key := fmt.Sprintf("%s H-arg<-task.Task.%s", fname(rl.fn), f)
			vals := res.fields["task.Task."+f]
			fromIterated := false
			for _, v := range vals {
				if rl.baseIsIterated(v) {
					fromIterated = true
				}
			}
			if fromIterated {
				r.ok(key, c.ipos(h), "reaches the hasher's argument")
			} else if len(vals) > 0 {
				r.bad(key, c.ipos(h), "the hasher's argument reads this field, but not of the iterated task")
			} else {
				r.bad(key, c.ipos(h), "task.Task."+f+" of the iterated task never reaches the list that is hashed (fields in the slice: "+join(res.fieldKeys())+")")
			}
		}
		key := fmt.Sprintf("%s H-arg<-file.SpokFile.Globs[pattern]", fname(rl.fn))
		okLookup := false
		for v := range res.vals {
			if lk, ok := v.(*ssa.Lookup); ok && isFieldLoad(lk.X, "file.SpokFile.Globs") {
				ks := c.newSlicer()
				ks.depth = 0
				kr := ks.run(lk.Index)
				if kr.hasField("task.Task.GlobDependencies") {
					okLookup = true
				}
			}
		}
		if okLookup {
			r.ok(key, c.ipos(h), "glob dependencies are hashed through their expansion, looked up by the pattern itself")
		} else {
			r.bad(key, c.ipos(h), "no lookup SpokFile.Globs[<element of GlobDependencies>] reaches the hashed list")
		}
	}
	// expansion precedes the loop: in the function that holds the loop (helpers are inlined by the canonicaliser) or in
	// file.(*SpokFile).Run on the way to it
	isExpansion := func(site ssa.CallInstruction) bool {
		if globPrimitives[calleeName(site.Common())] {
			return true
		}
		for _, callee := range c.callees(site) {
			if !inModule(callee) || !c.storesField(callee, "file.SpokFile.Globs") {
				continue
			}
			for prim := range globPrimitives {
				if c.reachesCallee(callee, prim) {
					return true
				}
			}
		}
		return false
	}
	runM := c.method("file", "SpokFile", "Run")
	type target struct {
		fn *ssa.Function
		at ssa.Instruction
	}
	targets := []target{{rl.fn, rl.X}}
	if rl.fn != runM {
		for _, site := range callSites(runM) {
			for _, callee := range c.callees(site) {
				if callee == rl.fn || c.reachesFn(callee, rl.fn) {
					targets = append(targets, target{runM, site})
				}
			}
		}
	}
	key := fmt.Sprintf("%s expand-before-run", fname(runM))
	var dom ssa.CallInstruction
	for _, tg := range targets {
		for _, es := range callSites(tg.fn) {
			if isExpansion(es) && c.precedes(es, tg.at) {
				dom = es
			}
		}
	}
	anyPrimitive := false
	for _, f := range c.ModFuncs {
		for _, site := range callSites(f) {
			if globPrimitives[calleeName(site.Common())] {
				anyPrimitive = true
			}
		}
	}
	if dom == nil && !anyPrimitive {
		r.undecided(key, c.ipos(rl.X), "the module calls none of the glob primitives the checker knows (doublestar.GlobWalk/Glob/FilepathGlob, filepath.Glob, fs.Glob): how patterns are expanded is unknown")
	} else if dom == nil {
		r.bad(key, c.ipos(rl.X), "no glob expansion into SpokFile.Globs dominates the run loop: glob dependencies would hash as the empty list")
	} else {
		okErr := true
		why := ""
		if ev := errOfCall(dom); ev != nil {
			okErr, why = c.errEdgeDischarged(ev)
		} else if v, isV := dom.(ssa.Value); isV && (isErrorType(v.Type())) {
			okErr, why = false, "its error is discarded"
		}
		if okErr {
			r.ok(key, c.ipos(dom), "glob expansion dominates the run loop and its error is propagated")
		} else {
			r.bad(key, c.ipos(dom), "the error of the glob expansion is not propagated: "+why)
		}
	}
	return r
}

// globPrimitives: library calls that expand a pattern into paths.
var globPrimitives = map[string]bool{
	"github.com/bmatcuk/doublestar/v4.GlobWalk":     true,
	"github.com/bmatcuk/doublestar/v4.Glob":         true,
	"github.com/bmatcuk/doublestar/v4.FilepathGlob": true,
	"path/filepath.Glob":                            true,
	"io/fs.Glob":                                    true,
}

func isFieldLoad(v ssa.Value, key string) bool {
	u, ok := v.(*ssa.UnOp)
	return ok && u.Op == token.MUL && fieldKey(u.X) == key
}

func (c *Ctx) storesField(fn *ssa.Function, key string) bool {
	seen := map[*ssa.Function]bool{}
	var walk func(f *ssa.Function) bool
	walk = func(f *ssa.Function) bool {
		if seen[f] || !inModule(f) {
			return false
		}
		seen[f] = true
		for _, b := range f.Blocks {
			for _, in := range b.Instrs {
				switch x := in.(type) {
				case *ssa.MapUpdate:
					if isFieldLoad(x.Map, key) {
						return true
					}
				case *ssa.Store:
					if fieldKey(x.Addr) == key {
						return true
					}
				}
			}
		}
		for _, site := range callSites(f) {
			for _, callee := range c.callees(site) {
				if walk(callee) {
					return true
				}
			}
		}
		return false
	}
	return walk(fn)
}

// baseIsIterated: the struct whose field is read is the iterated task.
func (rl *runLoop) baseIsIterated(v ssa.Value) bool {
	var x ssa.Value
	switch y := v.(type) {
	case *ssa.FieldAddr:
		x = y.X
	case *ssa.Field:
		x = y.X
	default:
		return false
	}
	strip := structRoot
	a, b := strip(x), strip(rl.recv)
	if a == b {
		return true
	}
	// helper shape: a parameter of a callee bound to the iterated task
	if p, ok := a.(*ssa.Parameter); ok {
		for _, site := range rl.c.callersOf(p.Parent()) {
			if site.Parent() != rl.fn {
				continue
			}
			for _, arg := range site.Common().Args {
				if strip(arg) == b {
					return true
				}
			}
		}
	}
	return false
}

// ---- CP7 (an unreadable cache is an error) ---------------------------------------------------------------------------------

func ruleCP7(c *Ctx) *rule {
	r := &rule{ID: "CP7", Engine: "E2", Floor: 3,
		Statement: "when the cache file cannot be read or decoded, the load function and every caller on the way to the run loop return a non-nil error; no path falls through to an empty cache",
		Necessity: "an empty cache that is later persisted over the damaged file — or silently used — discards the evidence and lets later runs trust whatever is written next; a torn write must stop the run"}
	rl := c.runLoop()
	rl.describe(r)
	if len(rl.L) == 0 {
		lost("no call that loads the cache (returns *cache.Cache and reaches json.Unmarshal) in %s", fname(rl.fn))
	}
	for _, l := range rl.L {
		callee := l.Common().StaticCallee()
		// inside the loader: errors of ReadFile / Unmarshal
		n := 0
		for _, site := range callSites(callee) {
			name := calleeName(site.Common())
			if name != "os.ReadFile" && name != "encoding/json.Unmarshal" && name != "os.Open" && name != "io.ReadAll" && name != "(*encoding/json.Decoder).Decode" {
				continue
			}
			n++
			key := fmt.Sprintf("%s err-of %s", fname(callee), name)
			ev := errOfCall(site)
			if ev == nil {
				r.bad(key, c.ipos(site), "the error result is discarded")
				continue
			}
			if ok, why := c.errEdgeDischarged(ev); ok {
				r.ok(key, c.ipos(site), "non-nil edge reaches only non-nil error returns")
			} else {
				r.bad(key, c.ipos(site), why)
			}
		}
		if n < 2 {
			r.undecided(fname(callee)+" read+decode", c.ipos(l), "the loader does not call a recognised read and a recognised JSON decode function")
		}
		// the whole document must be decoded at once (validation before use)
		key := fmt.Sprintf("%s err-of load", fname(rl.fn))
		ev := errOfCall(l)
		if ev == nil {
			r.bad(key, c.ipos(l), "the error of the cache load is discarded")
			continue
		}
		if ok, why := c.errEdgeDischarged(ev); ok {
			r.ok(key, c.ipos(l), "a failed load ends the run with an error")
		} else {
			r.bad(key, c.ipos(l), "a failed cache load does not end the run with an error: "+why)
		}
	}
	return r
}

// errOfCall returns the SSA value holding the error result of a call (the call itself or the extract), or nil when unused.
func errOfCall(site ssa.CallInstruction) ssa.Value {
	v, ok := site.(ssa.Value)
	if !ok {
		return nil
	}
	if isErrorType(v.Type()) {
		if len(valueReferrers(v)) == 0 {
			return nil
		}
		return v
	}
	if tup, ok := v.Type().(*types.Tuple); ok {
		for _, ref := range valueReferrers(v) {
			if ex, ok := ref.(*ssa.Extract); ok && isErrorType(tup.At(ex.Index).Type()) {
				if len(valueReferrers(ex)) == 0 {
					return nil
				}
				return ex
			}
		}
	}
	return nil
}

// ---- CP1f (no skip under force) ---------------------------------------------------------------------------------------------

var hex64 = regexp.MustCompile(`^[0-9a-f]{64}$`)

func ruleCP1f(c *Ctx) *rule {
	r := &rule{ID: "CP1f", Engine: "E2+E3", Floor: 1,
		Statement: "no task is reported skipped when force is set: every 'skipped' report has the necessary guard force == false (or the compared digest comes, under force, from a hasher whose constant result can never equal a recorded digest and is never persisted)",
		Necessity: "a skip reachable with force set is exactly a task that --force failed to run"}
	rl := c.runLoop()
	rl.requireEvents()
	rl.describe(r)
	if rl.force == nil {
		r.undecided(fname(rl.fn)+" force-parameter", c.ipos(rl.X), "cannot identify the force parameter of the run-loop function")
		return r
	}
	// the parameter must be fed from Options.Force at every call site of every function on the way
	if why := c.allBindingsAre(rl.force, 5, func(v ssa.Value) bool { return loadedField(v) == "cli/app.Options.Force" }); why == "" {
		r.ok(fname(rl.fn)+" force<-Options.Force", c.pos(rl.force.Pos()), "on every call chain the force parameter is the --force option itself")
	} else {
		r.bad(fname(rl.fn)+" force<-Options.Force", c.pos(rl.force.Pos()), "the force parameter of the run loop is not Options.Force on every call chain: "+why)
	}
	// nothing in the module overwrites the option after the command line was parsed
	for _, st := range c.fieldStores()["cli/app.Options.Force"] {
		if !inModule(st.Parent()) || strings.HasSuffix(fnPkgPath(st.Parent()), "cli/cmd") {
			continue // the flag binding
		}
		if k, isC := st.Val.(*ssa.Const); isC && k.Value != nil && constant.BoolVal(k.Value) {
			continue // switching it on only forces more
		}
		r.bad(fname(st.Parent())+" Options.Force store", c.ipos(st), "the --force option is overwritten after the flags were parsed: under the condition of this store a forced run consults the cache again")
	}
	if len(rl.K) == 0 {
		r.ok(fname(rl.fn)+" no-skip", c.ipos(rl.X), "nothing is ever reported skipped")
		return r
	}
	for i, k := range rl.K {
		key := fmt.Sprintf("%s K#%d", fname(rl.fn), i+1)
		direct := false
		for _, g := range k.guards {
			if g.cond == ssa.Value(rl.force) && !g.pol {
				direct = true
			}
		}
		if direct {
			r.ok(key, k.pos, "guarded by force == false")
			continue
		}
		if ok, why := rl.alwaysRunIdiom(k); ok {
			r.ok(key, k.pos, why)
		} else if dyn := delegatedDecision(k.guards); dyn != "" {
			r.undecided(key, k.pos, "whether the task is skipped is decided by "+dyn+", a function value: the checker does not follow which function it is")
		} else {
			r.bad(key, k.pos, "a task can be reported skipped while force is set: "+why, describeGuards(c, k.guards)...)
		}
	}
	return r
}

// alwaysRunIdiom accepts the shape "under force the digest comes from a hasher returning a constant that is not a
// digest", provided no persist can write that constant (every persist or every recording is guarded by force == false).
func (rl *runLoop) alwaysRunIdiom(k kEvent) (bool, string) {
	c := rl.c
	for _, g := range k.guards {
		h, _, eqWhenTrue, ok := rl.digestComparison(g.cond)
		if !ok || eqWhenTrue != g.pol || !h.Common().IsInvoke() {
			continue
		}
		phi, ok := h.Common().Value.(*ssa.Phi)
		if !ok {
			return false, "the hasher is not chosen by the force flag"
		}
		forcedOK := false
		for i, e := range phi.Edges {
			pred := phi.Block().Preds[i]
			underForce := false
			for _, eg := range rl.fi.guardsOfEdge(edge{pred, succIndex(pred, phi.Block())}) {
				if eg.cond == ssa.Value(rl.force) && eg.pol {
					underForce = true
				}
			}
			notForce := false
			for _, eg := range rl.fi.guardsOfEdge(edge{pred, succIndex(pred, phi.Block())}) {
				if eg.cond == ssa.Value(rl.force) && !eg.pol {
					notForce = true
				}
			}
			if notForce {
				continue
			}
			if !underForce {
				return false, "a hasher is selected independently of force"
			}
			mi, ok := e.(*ssa.MakeInterface)
			if !ok {
				return false, "the forced hasher is not a concrete value"
			}
			hm := c.Prog.LookupMethod(mi.X.Type(), nil, "Hash")
			if hm == nil {
				for _, f := range c.ModFuncs {
					if f.Name() == "Hash" && f.Signature.Recv() != nil && types.Identical(f.Signature.Recv().Type(), mi.X.Type()) {
						hm = f
					}
				}
			}
			if hm == nil {
				return false, "cannot resolve the forced hasher's Hash method"
			}
			for _, ret := range returnsOf(hm) {
				s, ok := constString(ret.Results[0])
				if !ok || hex64.MatchString(s) || s == "" {
					return false, "the forced hasher does not return a constant non-digest"
				}
			}
			forcedOK = true
		}
		if !forcedOK {
			return false, "no hasher is selected under force"
		}
		// the constant must never be persisted
		for _, d := range rl.D {
			has := false
			for _, gd := range rl.fi.necessaryGuards(d.Block()) {
				if gd.cond == ssa.Value(rl.force) && !gd.pol {
					has = true
				}
			}
			if !has {
				return false, "the forced hasher's constant can be persisted at " + c.ipos(d) + " and would equal itself on the next forced run"
			}
		}
		return true, "under force the digest is a constant that cannot equal a recorded digest, and nothing is persisted under force"
	}
	return false, "no force == false guard"
}

// ---- CP9 (keys agree) -----------------------------------------------------------------------------------------------------

func ruleCP9(c *Ctx) *rule {
	r := &rule{ID: "CP9", Engine: "E3", Floor: 2,
		Statement: "every cache read and every cache update in the run loop is keyed by the name of the iterated task, and every persist writes to the path the cache was loaded from",
		Necessity: "a digest filed under another key (or written to another file) is compared against the wrong task's inputs on the next run"}
	rl := c.runLoop()
	rl.requireEvents()
	rl.describe(r)
	for i, g := range rl.G {
		key := fmt.Sprintf("%s G#%d key", fname(rl.fn), i+1)
		if len(g.Common().Args) >= 2 && rl.isTaskName(g.Common().Args[1]) {
			r.ok(key, c.ipos(g), "keyed by the iterated task's name")
		} else {
			r.bad(key, c.ipos(g), "the cache read is not keyed by the Name of the iterated task")
		}
	}
	for i, s := range rl.S {
		if !rl.inLoop(s.call) {
			continue
		}
		key := fmt.Sprintf("%s S#%d key", fname(rl.fn), i+1)
		if rl.isTaskName(s.key) {
			r.ok(key, c.ipos(s.call), "keyed by the iterated task's name")
		} else {
			r.bad(key, c.ipos(s.call), "the cache update is not keyed by the Name of the iterated task")
		}
	}
	for _, l := range rl.L {
		lp := l.Common().Args[0]
		for i, d := range rl.D {
			key := fmt.Sprintf("%s D#%d path", fname(rl.fn), i+1)
			same := false
			for _, a := range d.Common().Args {
				if a == lp || sameOrigins(a, lp) {
					same = true
				}
			}
			if same {
				r.ok(key, c.ipos(d), "persists to the path the cache was loaded from")
			} else {
				r.bad(key, c.ipos(d), "the persist does not write to the path the cache was loaded from")
			}
		}
		// the load path is <SpokFile.Dir>/<cache.Path>
		sl := c.newSlicer()
		sl.depth = 1
		res := sl.run(lp)
		key := fname(rl.fn) + " L path"
		if res.hasField("file.SpokFile.Dir") && sliceHasGlobal(res, "Path", pkgPath("cache")) {
			r.ok(key, c.ipos(l), "the cache path is SpokFile.Dir joined with cache.Path")
		} else {
			r.bad(key, c.ipos(l), "the cache path is not built from SpokFile.Dir and cache.Path")
		}
	}
	return r
}

func sliceHasGlobal(res *sliceResult, name, pkg string) bool {
	for _, g := range res.globs {
		if g.Name() == name && g.Pkg != nil && g.Pkg.Pkg.Path() == pkg {
			return true
		}
	}
	return false
}

// ---- property specs ----------------------------------------------------------------------------------------------------------

func cacheProperties() []*propertySpec {
	trusted := []string{
		"encoding/json validates the whole document before decoding, so any proper prefix of the cache file is a decode error",
		"os.WriteFile either fails or replaces the content; (*cache.Cache).Get/Set/Dump and cache.Load are recognised by effect (lookup/update of the map field of cache.Cache, file-mutating primitive reached with the cache as argument, json.Unmarshal into it)",
		"SHA-256 hex digests are never the empty string",
	}
	return []*propertySpec{
		{ID: "C01", Title: "A task is never skipped unless its inputs equal those of its last success",
			Explanation: "Static must-analysis of the run loop of file.SpokFile.Run on the SSA form: the cache events (read G, update S, persist D, load L), the digest computation H, the command execution X and the 'skipped' stores K are located by effect and type; CP1 proves by edge dominance that every K is guarded by H==G of the iterated task read from the loaded cache; CP3 proves by exhaustive path search over the function's CFG (with infeasible-branch pruning) that no path from a successful X leaves a stale digest on disk; CP6 proves by backward slicing that every declared file input field reaches H and that glob expansion dominates the loop; CP9 that keys and file path agree. Decides these structural necessary conditions for every path of the code, not the observed behaviour.",
			NotCovered:  []string{"change-sensitivity of the digest function itself (C04)", "correctness of glob expansion (C05)", "clock / file-system races between hashing and running"},
			Assumptions: trusted,
			Rules:       []func(*Ctx) *rule{ruleCP1, ruleCP3("CP3"), ruleCP6, ruleCP9, ruleCP10, ruleCP12, ruleTK2}},
		{ID: "C02", Title: "A task whose inputs are unchanged since its last success is skipped",
			Explanation: "Static analysis of the run loop (same event model as C01): CP2 computes, per decision of one iteration (run, skip, record, persist), the transitive control dependence on the intra-iteration CFG and the backward data slice of every influencing condition and proves that no loop-carried phi or outer cell written in the loop is read (non-interference between tasks); CP3L proves by path search that every successful X is followed on all paths by recording an H-derived digest and persisting it; CP5 proves that a task with an empty input list can never be reported skipped.",
			NotCovered:  []string{"that equal inputs produce equal digests across runs (C04 determinism)", "that the skip branch is actually taken when digests are equal (value-level)"},
			Assumptions: trusted,
			Rules:       []func(*Ctx) *rule{ruleCP2, ruleCP3("CP3L"), ruleCP5, ruleCP11, ruleCP13, ruleTK6, ruleAB1, ruleAB2}},
		{ID: "C10", Title: "Killing spok at any point never leads to a wrongly skipped task later",
			Explanation: "Crash points are quantified over by ordering constraints on every CFG path: CP4 proves that on every intra-iteration path to X the recorded digest is replaced by a constant and persisted first (so a kill at any later instant finds an invalidated entry); CP8 proves that an H-derived digest is only recorded under Ok() of X's own result, after X; CP7 proves that a failed read/decode of the cache file ends in a non-nil error in the loader and in the run loop (torn writes are decode errors by the json contract).",
			NotCovered:  []string{"atomicity of os.WriteFile beyond 'a torn file does not decode'", "kill during cache.Init of a fresh project (file then holds only empty digests or is torn)"},
			Assumptions: trusted,
			Rules:       []func(*Ctx) *rule{ruleCP4, ruleCP7, ruleCP8, ruleCP12}},
		{ID: "C14", Title: "--force runs every selected task regardless of the cache",
			Explanation: "CP1f proves by edge dominance that every 'skipped' store is guarded by force == false (and that the force parameter is fed from Options.Force); CP3f repeats the stale-digest path search of CP3 restricted to the paths consistent with force == true.",
			NotCovered:  []string{"flag parsing in the CLI library"},
			Assumptions: trusted,
			Rules:       []func(*Ctx) *rule{ruleCP1f, ruleCP3("CP3f"), ruleCP10}},
	}
}

// ---- CP10 / CP11 (restoring the previous digest) ---------------------------------------------------------------------------

// restores: cache updates after X that write back this iteration's cached digest (G-derived value) for the iterated task.
func (rl *runLoop) restores() []sEvent {
	var out []sEvent
	for _, s := range rl.S {
		if rl.sIsG(s) && rl.inLoop(s.call) && before(rl.X, s.call) {
			out = append(out, s)
		}
	}
	return out
}

// ---- CP13: the record of the last success is only forgotten for a task whose commands are then run -----------------------------

func ruleCP13(c *Ctx) *rule {
	r := &rule{ID: "CP13", Engine: "E2+E3", Floor: 1,
		Statement: "once the recorded digest of a task has been invalidated (an empty digest recorded and persisted), every path to the end of the iteration that does not return an error runs the task's commands, or writes the recorded digest back and persists it",
		Necessity: "an iteration that forgets the record of the last success and then neither runs nor restores (a dry run, a 'nothing to do' shortcut placed after the invalidation) makes the next ordinary run execute a task whose inputs are exactly those of its last success"}
	rl := c.runLoop()
	rl.requireEvents()
	rl.describe(r)
	key := fname(rl.fn) + " invalidate→run-or-restore"
	inv := rl.invalidationBeforeX(nil)
	if !inv.holds || len(inv.s0) == 0 {
		r.ok(key, c.ipos(rl.X), "the recorded digest is not invalidated before the commands (CP4 judges that)")
		return r
	}
	isS0 := map[ssa.Instruction]bool{}
	var first *ssa.Call
	for _, s := range inv.s0 {
		afterX := false
		for _, x := range rl.Xs {
			if before(x, s) {
				afterX = true // "succeeded with nothing to hash": recorded after the commands, not an invalidation before them
			}
		}
		if !afterX {
			isS0[s] = true
			if first == nil {
				first = s
			}
		}
	}
	if first == nil {
		r.ok(key, c.ipos(rl.X), "no invalidation precedes the commands")
		return r
	}
	rOf := map[ssa.Instruction]sEvent{}
	for _, s := range rl.S {
		if rl.sIsG(s) && rl.inLoop(s.call) && rl.isTaskName(s.key) {
			rOf[s.call] = s
		}
	}
	isD := map[ssa.Instruction]bool{}
	for _, d := range rl.D {
		isD[d] = true
	}
	isX := map[ssa.Instruction]bool{}
	for _, x := range rl.Xs {
		isX[x] = true
	}
	isX[rl.X] = true
	bad := ""
	var badPath []string
	seen := map[string]bool{}
	// owed: an invalidation has happened on this path and neither the commands nor a restore+persist have followed yet
	var dfs func(b *ssa.BasicBlock, owed, restored bool, ps *pathState, path []string)
	dfs = func(b *ssa.BasicBlock, owed, restored bool, ps *pathState, path []string) {
		if bad != "" {
			return
		}
		k := fmt.Sprintf("%d|%v|%v|%s", b.Index, owed, restored, ps.key())
		if seen[k] {
			return
		}
		seen[k] = true
		path = append(path, fmt.Sprintf("block %d (%s)", b.Index, c.bpos(b)))
		for _, in := range b.Instrs {
			if isS0[in] {
				owed, restored = true, false
			}
			if !owed {
				continue
			}
			if isX[in] {
				return // the commands run: what happens afterwards is CP3 / CP11
			}
			if se, ok := rOf[in]; ok && rl.gDerived(ps.resolve(se.val)) != nil {
				restored = true
			}
			if isD[in] && restored {
				return
			}
			if ret, ok := in.(*ssa.Return); ok {
				if ev := returnedErr(ret); ev != nil && !ps.mayBeNil(ev) {
					return
				}
				bad, badPath = "the run returns without an error after forgetting the recorded digest, without having run the commands or written it back", path
				return
			}
			if _, ok := in.(*ssa.Panic); ok {
				return
			}
		}
		for i, nx := range b.Succs {
			_, _, next, feasible := ps.branch(b, i)
			if !feasible {
				continue
			}
			if rl.loop != nil && nx == rl.loop.header && rl.loop.body[b] {
				if owed {
					bad, badPath = "the iteration ends after the recorded digest was forgotten, without the commands having run and without the digest having been written back and persisted", path
					return
				}
				continue
			}
			if rl.loop != nil && !rl.loop.body[nx] && !owed {
				continue
			}
			// (leaving the loop while something is owed: judged at the return it leads to - an error return is fine)
			dfs(nx, owed, restored, next.enter(nx, b), path)
		}
	}
	start := rl.fn.Blocks[0]
	if rl.loop != nil {
		start = rl.loop.header
	}
	dfs(start, false, false, newPathStateFor(rl.fn), nil)
	if bad != "" {
		r.bad(key, c.ipos(first), bad, badPath...)
	} else {
		r.ok(key, c.ipos(first), "after every invalidation the commands run (or the digest is written back) on every path that does not fail")
	}
	return r
}

func ruleCP10(c *Ctx) *rule {
	r := &rule{ID: "CP10", Engine: "E2+E3", Floor: 1,
		Statement: "the digest read from the cache is written back for a task (after its commands ran) only under the necessary guard that those commands did NOT all succeed; a successful run never re-instates the old digest",
		Necessity: "re-instating d0 after the commands succeeded on other inputs (a forced run, an input list that became empty) leaves 'last succeeded on d0' on disk: restoring the inputs to d0 later skips a task whose last success was on something else"}
	rl := c.runLoop()
	rl.requireEvents()
	rl.describe(r)
	rs := rl.restores()
	if len(rs) == 0 {
		r.ok(fname(rl.fn)+" no-restore", c.ipos(rl.X), "the cached digest is never written back after the commands ran")
		return r
	}
	for i, s := range rs {
		key := fmt.Sprintf("%s restore#%d", fname(rl.fn), i+1)
		guarded := true
		var badGuards []guard
		for _, cs := range rl.sCases(s) {
			if rl.gDerived(cs.val) == nil {
				continue
			}
			okCase := false
			for _, g := range cs.guards {
				if own, ok := rl.okTest(g.cond); ok && own && !g.pol {
					okCase = true
				}
			}
			if !okCase {
				guarded = false
				badGuards = cs.guards
			}
		}
		if guarded {
			r.ok(key, c.ipos(s.call), "only on the 'a command failed' edge of this task's own result")
		} else {
			r.bad(key, c.ipos(s.call), "the previous digest can be written back although the commands succeeded (the guard is not 'Ok() == false' of this task's own result)", describeGuards(c, badGuards)...)
		}
	}
	return r
}

func ruleCP11(c *Ctx) *rule {
	r := &rule{ID: "CP11", Engine: "E2+E3", Floor: 1,
		Statement: "if the recorded digest is invalidated before the commands run, then on the 'a command failed' edge every path to the end of the iteration writes the previously recorded digest back and persists it",
		Necessity: "otherwise a failed run erases the record of the last success for good: after reverting the inputs to what the task last succeeded on, it is run again instead of being skipped"}
	rl := c.runLoop()
	rl.requireEvents()
	rl.describe(r)
	key := fname(rl.fn) + " failure→restore+persist"
	if inv := rl.invalidationBeforeX(nil); !inv.holds {
		r.ok(key, c.ipos(rl.X), "the recorded digest is not invalidated before the commands (nothing to restore)")
		return r
	}
	rOf := map[ssa.Instruction]sEvent{}
	for _, s := range rl.restores() {
		if rl.isTaskName(s.key) {
			rOf[s.call] = s
		}
	}
	isD := map[ssa.Instruction]bool{}
	for _, d := range rl.D {
		isD[d] = true
	}
	// one search from X: once the 'a command failed' edge of X's own result is taken, a restore followed by a persist is owed
	bad := ""
	var badPath []string
	starts := 0
	seen := map[string]bool{}
	var dfs func(b *ssa.BasicBlock, from int, failed, s bool, ps *pathState, path []string)
	dfs = func(b *ssa.BasicBlock, from int, failed, s bool, ps *pathState, path []string) {
		if bad != "" {
			return
		}
		if from == 0 {
			k := fmt.Sprintf("%d|%v|%v|%s", b.Index, failed, s, ps.key())
			if seen[k] {
				return
			}
			seen[k] = true
		}
		path = append(path, fmt.Sprintf("block %d (%s)", b.Index, c.bpos(b)))
		for _, in := range b.Instrs[from:] {
			if !failed {
				continue
			}
			if se, ok := rOf[in]; ok && rl.gDerived(ps.resolve(se.val)) != nil {
				s = true
			}
			if isD[in] && s {
				return
			}
			if ret, ok := in.(*ssa.Return); ok {
				if ev := returnedErr(ret); ev != nil && !ps.mayBeNil(ev) {
					return // an error ends the run: nothing more can be demanded
				}
				bad, badPath = "the run returns without restoring the previous digest", path
				return
			}
		}
		for i, nx := range b.Succs {
			cond, pol, next, feasible := ps.branch(b, i)
			if !feasible {
				continue
			}
			nfailed := failed
			if cond != nil && !failed {
				if own, ok := rl.okTest(cond); ok && own && !pol {
					nfailed = true
					starts++
					path = append(path, "[commands failed]")
				}
			}
			if rl.loop != nil && (nx == rl.loop.header && rl.loop.body[b] || !rl.loop.body[nx]) {
				if nfailed {
					if _, isRet := lastInstr(nx).(*ssa.Return); isRet && !rl.loop.body[nx] {
						// leaving the loop towards a return: judged at the return
						dfs(nx, 0, nfailed, s, next.enter(nx, b), path)
						continue
					}
					bad, badPath = "the iteration ends after a failed run without writing the previous digest back and persisting it", path
					return
				}
				continue
			}
			dfs(nx, 0, nfailed, s, next.enter(nx, b), path)
		}
	}
	idx := 0
	for i, in := range rl.X.Block().Instrs {
		if in == ssa.Instruction(rl.X) {
			idx = i + 1
		}
	}
	dfs(rl.X.Block(), idx, false, false, newPathStateFor(rl.fn), nil)
	switch {
	case starts == 0:
		r.bad(key, c.ipos(rl.X), "the recorded digest is invalidated before the commands but the outcome of the commands (Ok()) is never tested: a failure can never restore it")
	case bad != "":
		r.bad(key, c.ipos(rl.X), bad, badPath...)
	default:
		r.ok(key, c.ipos(rl.X), "every failure path restores the previous digest and persists it")
	}
	return r
}

// ---- CP12 (persist writes the in-memory cache, nothing else) ------------------------------------------------------------------

func ruleCP12(c *Ctx) *rule {
	r := &rule{ID: "CP12", Engine: "E1+E3", Floor: 1,
		Statement: "the function that persists the cache writes the JSON encoding of its own in-memory map and nothing else, replacing the file (os.WriteFile, or an open with O_TRUNC / of a fresh O_EXCL file): it does not read the file back, merge, filter or update the map",
		Necessity: "the run loop's ordering guarantees (invalidate, then run, then record) are statements about what is in memory when the persist is called; a persist that merges with what is on disk or skips entries silently undoes the invalidation"}
	rl := c.runLoop()
	rl.describe(r)
	_, fld := c.cacheMapField()
	mapKey := "cache.Cache." + fld
	seen := map[*ssa.Function]bool{}
	for _, d := range rl.D {
		f := d.Common().StaticCallee()
		if f == nil || seen[f] {
			continue
		}
		seen[f] = true
		key := fname(f) + " writes-memory-map"
		var probs []string
		nWrite := 0
		isMarshalOfMap := func(data ssa.Value) bool {
			// json.NewEncoder(buf).Encode(map) and the buffer's bytes (possibly without the trailing newline)
			es := c.newSlicer()
			es.depth = 0
			es.objFlow = true
			eres := es.run(data)
			for _, enc := range eres.calls["(*encoding/json.Encoder).Encode"] {
				if len(enc.Common().Args) == 2 {
					for _, ao := range origins(enc.Common().Args[1]) {
						if isCacheMapLoad(ao, mapKey) {
							return true
						}
					}
				}
			}
			// the same through the buffer object: data comes from a buffer that an encoder of this function writes the map to
			for _, site := range callSites(f) {
				if calleeName(site.Common()) != "(*encoding/json.Encoder).Encode" || len(site.Common().Args) != 2 {
					continue
				}
				mapOK := false
				for _, ao := range origins(site.Common().Args[1]) {
					if isCacheMapLoad(ao, mapKey) {
						mapOK = true
					}
				}
				if !mapOK {
					continue
				}
				for _, eo := range origins(site.Common().Args[0]) {
					ne, isCall := eo.(*ssa.Call)
					if !isCall || calleeName(ne.Common()) != "encoding/json.NewEncoder" {
						continue
					}
					for _, wo := range origins(ne.Common().Args[0]) {
						if mi, isMI := wo.(*ssa.MakeInterface); isMI {
							if eres.has(mi.X) {
								return true
							}
						}
					}
					if mi, isMI := ne.Common().Args[0].(*ssa.MakeInterface); isMI && eres.has(mi.X) {
						return true
					}
				}
			}
			for _, o := range origins(data) {
				if ex, ok := o.(*ssa.Extract); ok && ex.Index == 0 {
					if call, ok := ex.Tuple.(*ssa.Call); ok && (calleeName(call.Common()) == "encoding/json.Marshal" || calleeName(call.Common()) == "encoding/json.MarshalIndent") {
						for _, ao := range origins(call.Common().Args[0]) {
							if isCacheMapLoad(ao, mapKey) {
								return true
							}
						}
					}
				}
			}
			return false
		}
		for _, m := range c.mutatingSites() {
			if m.fn != f {
				continue
			}
			switch m.callee {
			case "os.WriteFile":
				nWrite++
				if !isMarshalOfMap(m.site.Common().Args[1]) {
					probs = append(probs, "the bytes written are not json.Marshal of the cache's own map field")
				}
			case "(*os.File).Write":
				nWrite++
				if !isMarshalOfMap(m.site.Common().Args[1]) {
					probs = append(probs, "the bytes written are not json.Marshal of the cache's own map field")
				}
			case "os.OpenFile":
				// the document must replace what is there: opened without O_TRUNC (and not as a fresh O_EXCL file) a shorter
				// document leaves the tail of the old one behind it and the file no longer decodes
				if len(m.site.Common().Args) >= 2 {
					if fl, isC := constInt(m.site.Common().Args[1]); isC {
						oTrunc, oExcl, oAppend := osConst(c.Prog, "O_TRUNC"), osConst(c.Prog, "O_EXCL"), osConst(c.Prog, "O_APPEND")
						switch {
						case fl&oAppend != 0:
							probs = append(probs, "the cache file is opened with O_APPEND: every persist adds another document behind the previous one")
						case fl&oTrunc == 0 && fl&oExcl == 0:
							probs = append(probs, "the cache file is opened for writing without O_TRUNC: a document shorter than the previous one leaves its tail in place and the file no longer decodes")
						}
					}
				}
			case "os.Rename", "os.CreateTemp", "os.Remove", "(*os.File).Sync", "os.Create", "os.MkdirAll", "(*os.File).Chmod", "os.Chmod":
				// write-to-temporary-then-rename and friends: still a write of the same bytes
			default:
				probs = append(probs, "persists with "+m.callee)
			}
		}
		if nWrite == 0 {
			probs = append(probs, "no write of the encoded map in the persisting function")
		}
		// every return without error has the write behind it
		for _, ret := range returnsOf(f) {
			ev := returnedErr(ret)
			if ev != nil && !isNilConst(ev) && !mayBeNil(ev, map[ssa.Value]bool{}) {
				continue
			}
			written := false
			for _, m := range c.mutatingSites() {
				if m.fn != f || (m.callee != "os.WriteFile" && m.callee != "(*os.File).Write") {
					continue
				}
				if in, isIn := m.site.(ssa.Instruction); isIn && before(in, ret) {
					written = true
				}
			}
			if !written && nWrite > 0 {
				probs = append(probs, "a path returns without error and without having written the file ("+c.ipos(ret)+"): the caller believes the state is on disk")
				break
			}
		}
		for _, site := range callSites(f) {
			n := calleeName(site.Common())
			switch n {
			case "os.ReadFile", "os.Open", "encoding/json.Unmarshal", "github.com/FollowTheProcess/spok/cache.Load":
				probs = append(probs, "reads the existing file back ("+n+")")
			}
		}
		for _, b := range f.Blocks {
			for _, in := range b.Instrs {
				switch x := in.(type) {
				case *ssa.MapUpdate:
					if isCacheMapLoad(x.Map, mapKey) {
						probs = append(probs, "updates the cache map while persisting")
					}
				case *ssa.Call:
					if bi, ok := x.Call.Value.(*ssa.Builtin); ok && bi.Name() == "delete" {
						probs = append(probs, "deletes from a map while persisting")
					}
				}
			}
		}
		if len(probs) == 0 {
			r.ok(key, c.pos(f.Pos()), "os.WriteFile(path, json.Marshal(<own map>))")
		} else {
			r.bad(key, c.pos(f.Pos()), strings.Join(probs, "; "))
		}
		// Get/Set are plain map accesses
	}
	getFns, setFns, _ := c.cacheSummaries()
	for f := range getFns {
		if fnPkgPath(f) != pkgPath("cache") {
			continue
		}
		key := fname(f) + " plain-lookup"
		okPlain := true
		for _, ret := range returnsOf(f) {
			for _, rv := range ret.Results {
				if b, ok := rv.Type().Underlying().(*types.Basic); ok && b.Kind() == types.String {
					os := origins(rv)
					for _, o := range os {
						ex, ok := o.(*ssa.Extract)
						if ok {
							if _, isLk := ex.Tuple.(*ssa.Lookup); isLk {
								continue
							}
						}
						if _, isLk := o.(*ssa.Lookup); isLk {
							continue
						}
						okPlain = false
					}
				}
			}
		}
		if okPlain {
			r.ok(key, c.pos(f.Pos()), "returns the map entry itself")
		} else {
			r.bad(key, c.pos(f.Pos()), "the cache read returns something other than the stored entry")
		}
	}
	for f, s := range setFns {
		if fnPkgPath(f) != pkgPath("cache") || f.Signature.Recv() == nil {
			continue
		}
		key := fname(f) + " plain-update"
		n := 0
		for _, b := range f.Blocks {
			for _, in := range b.Instrs {
				if mu, ok := in.(*ssa.MapUpdate); ok && isCacheMapLoad(mu.Map, mapKey) {
					n++
					_ = s
					conditional := len(c.info(f).necessaryGuards(b)) > 0
					for _, ret := range returnsOf(f) {
						// every way out of the setter has performed the update
						if ret.Block() != b && !dominates(b, ret.Block()) {
							conditional = true
						}
					}
					if conditional {
						r.bad(key, c.ipos(mu), "the cache update is conditional: some calls of the setter leave the entry as it was (an invalidation that is silently not performed)")
						n = -100
					}
				}
			}
		}
		if n == 1 {
			r.ok(key, c.pos(f.Pos()), "one unconditional map update")
		} else if n >= 0 {
			r.bad(key, c.pos(f.Pos()), fmt.Sprintf("%d map updates in the cache setter", n))
		}
	}
	return r
}

// ---- AB1 (the project root is absolute) ---------------------------------------------------------------------------------------

// ---- AB2: where the spokfile path comes from -------------------------------------------------------------------------------------------

func ruleAB2(c *Ctx) *rule {
	r := &rule{ID: "AB2", Engine: "E3", Floor: 1,
		Statement: "every store into Options.Spokfile made by the module stores either the result of file.Find or filepath.Abs of the previous Options.Spokfile (the --spokfile flag); nothing else decides which file is the spokfile",
		Necessity: "a path found by another test (a bare existence check accepts a directory called spokfile), or rewritten afterwards (symlink resolution moves the project root to the link's target), makes spok load, format, cache next to and expand globs under a different file or directory than the nearest enclosing spokfile"}
	findF := c.fn("file", "Find")
	n := 0
	for _, st := range c.fieldStores()["cli/app.Options.Spokfile"] {
		if !inModule(st.Parent()) || strings.HasSuffix(fnPkgPath(st.Parent()), "cli/cmd") {
			continue // the flag binding itself
		}
		n++
		key := fmt.Sprintf("%s Options.Spokfile store#%d", fname(st.Parent()), n)
		bad := ""
		for _, o := range origins(st.Val) {
			ex, ok := o.(*ssa.Extract)
			if !ok {
				if u, isLoad := o.(*ssa.UnOp); isLoad && u.Op == token.MUL && fieldKey(u.X) == "cli/app.Options.Spokfile" {
					continue // unchanged
				}
				bad = "a value that is neither the result of file.Find nor filepath.Abs of the flag (" + condText(o) + ")"
				continue
			}
			call, ok := ex.Tuple.(*ssa.Call)
			if !ok || ex.Index != 0 {
				bad = "a value that is neither the result of file.Find nor filepath.Abs of the flag"
				continue
			}
			switch {
			case call.Common().StaticCallee() == findF:
			case calleeName(call.Common()) == "path/filepath.Abs":
				// what is made absolute: the flag, or file.Find's result, and nothing computed from them
				flag := false
				for _, ao := range origins(call.Common().Args[0]) {
					if u, isLoad := ao.(*ssa.UnOp); isLoad && u.Op == token.MUL && fieldKey(u.X) == "cli/app.Options.Spokfile" {
						flag = true
						continue
					}
					if aex, isEx := ao.(*ssa.Extract); isEx && aex.Index == 0 {
						if ac, isCall := aex.Tuple.(*ssa.Call); isCall && ac.Common().StaticCallee() == findF {
							continue
						}
					}
					if ac, isCall := ao.(*ssa.Call); isCall {
						bad = "the path is rewritten by " + calleeName(ac.Common()) + " before it is made absolute"
					} else if aex, isEx := ao.(*ssa.Extract); isEx {
						if ac, isCall := aex.Tuple.(*ssa.Call); isCall {
							bad = "the path is rewritten by " + calleeName(ac.Common()) + " before it is made absolute"
						}
					} else if k, isConst := ao.(*ssa.Const); isConst && k.Value != nil {
						bad = "filepath.Abs of a constant"
					} else {
						bad = "filepath.Abs of something other than Options.Spokfile or file.Find's result (" + condText(ao) + ")"
					}
				}
				if !flag && bad == "" {
					as := c.newSlicer()
					as.depth = 0
					if !as.run(call.Common().Args[0]).hasField("cli/app.Options.Spokfile") {
						bad = "filepath.Abs of something other than Options.Spokfile"
					}
				}
			default:
				bad = "the result of " + calleeName(call.Common())
			}
		}
		if bad == "" {
			r.ok(key, c.ipos(st), "file.Find's result, or filepath.Abs of the flag")
		} else {
			r.bad(key, c.ipos(st), "Options.Spokfile is set to "+bad)
		}
	}
	if n == 0 {
		r.undecided("module Options.Spokfile stores", "-", "the module never stores into Options.Spokfile")
	}
	// the flag that is bound to the field defaults to "": only then does an invocation without --spokfile search at all
	for _, f := range c.ModFuncs {
		for _, site := range callSites(f) {
			bound := false
			for _, a := range site.Common().Args {
				if fieldKey(a) == "cli/app.Options.Spokfile" {
					bound = true
				}
			}
			if !bound {
				continue
			}
			sig := site.Common().Signature()
			if sig == nil {
				continue
			}
			for i := 0; i < sig.Params().Len() && i < len(site.Common().Args); i++ {
				p := sig.Params().At(i)
				if p.Name() != "value" && p.Name() != "def" && p.Name() != "defaultValue" {
					continue
				}
				key := fmt.Sprintf("%s --spokfile default", fname(f))
				if v, isC := constString(site.Common().Args[i]); isC && v == "" {
					r.ok(key, c.ipos(site), "the flag defaults to the empty string")
				} else {
					r.bad(key, c.ipos(site), "the --spokfile flag has a non-empty default ("+condText(site.Common().Args[i])+"): the option is never empty, so the search from the working directory upwards is never made")
				}
			}
		}
	}
	return r
}

func ruleAB1(c *Ctx) *rule {
	r := &rule{ID: "AB1", Engine: "E2+E3", Floor: 1,
		Statement: "the directory handed to file.New as project root derives from Options.Spokfile, and the function that settles Options.Spokfile stores filepath.Abs of it on every path that returns without error",
		Necessity: "file dependencies are hashed together with their path (joined with this root): a root that is relative one time and absolute another gives two digests for the same files, so an unchanged task is run again (and cache / outputs are resolved against the working directory)"}
	newF := c.fn("file", "New")
	sites := c.callersOf(newF)
	for i, site := range sites {
		if fnPkgPath(site.Parent()) != pkgPath("cli/app") {
			continue
		}
		key := fmt.Sprintf("%s file.New#%d root", fname(site.Parent()), i+1)
		sl := c.newSlicer()
		sl.depth = 0
		res := sl.run(site.Common().Args[1])
		if !res.hasField("cli/app.Options.Spokfile") {
			r.bad(key, c.ipos(site), "the project root does not derive from Options.Spokfile")
			continue
		}
		// ... on every path: each value that can arrive here does
		stray := ""
		for _, o := range origins(site.Common().Args[1]) {
			os := c.newSlicer()
			os.depth = 0
			if !os.run(o).hasField("cli/app.Options.Spokfile") {
				stray = condText(o)
			}
		}
		if stray != "" {
			r.bad(key, c.ipos(site), "on some path the project root is "+stray+", which does not derive from Options.Spokfile: the cache and every relative dependency are then resolved against another directory")
			continue
		}
		r.ok(key, c.ipos(site), "filepath.Dir(Options.Spokfile)")
		// the settling function: stores to Options.Spokfile dominated-before this call
		okAbs := false
		why := "no function called before file.New stores filepath.Abs(...) into Options.Spokfile"
		for _, st := range c.fieldStores()["cli/app.Options.Spokfile"] {
			f := st.Parent()
			isAbs := false
			for _, o := range origins(st.Val) {
				if ex, ok := o.(*ssa.Extract); ok && ex.Index == 0 {
					if call, ok := ex.Tuple.(*ssa.Call); ok && calleeName(call.Common()) == "path/filepath.Abs" {
						as := c.newSlicer()
						as.depth = 0
						if as.run(call.Common().Args[0]).hasField("cli/app.Options.Spokfile") {
							isAbs = true
						}
					}
				}
			}
			if !isAbs {
				continue
			}
			// same function (the settling helper was inlined): the store dominates the load of the spokfile
			if f == site.Parent() {
				if before(st, site) {
					okAbs = true
				} else {
					why = "Options.Spokfile is not made absolute on every path to file.New"
				}
				continue
			}
			// st executes on every non-error return of f, and no later store follows
			all := true
			for _, ret := range returnsOf(f) {
				ev := returnedErr(ret)
				if ev != nil && !isNilConst(ev) && !mayBeNil(ev, map[ssa.Value]bool{}) {
					continue
				}
				if !before(st, ret) {
					all = false
					why = "a path through " + fname(f) + " returns success without making Options.Spokfile absolute"
				}
			}
			for _, st2 := range c.fieldStores()["cli/app.Options.Spokfile"] {
				if st2 != st && st2.Parent() == f && reachFromInstr(st)[st2.Block()] {
					all = false
					why = "Options.Spokfile is stored again after it was made absolute"
				}
			}
			// f is called before file.New and its error respected
			called := false
			for _, cs := range callSites(site.Parent()) {
				if cs.Common().StaticCallee() == f && before(cs, site) {
					called = true
					if ev := errOfCall(cs); ev != nil {
						if ok, _ := c.errEdgeDischarged(ev); !ok {
							called = false
							why = "the error of " + fname(f) + " is not respected"
						}
					}
				}
			}
			if all && called {
				okAbs = true
			}
		}
		k2 := fmt.Sprintf("%s Options.Spokfile made absolute", fname(site.Parent()))
		if okAbs {
			r.ok(k2, c.ipos(site), "filepath.Abs(Options.Spokfile) is stored on every successful path before the spokfile is loaded")
		} else {
			r.bad(k2, c.ipos(site), why)
		}
	}
	if len(r.Instances) == 0 {
		lost("file.New is not called from cli/app")
	}
	return r
}

// allBindingsAre follows a parameter to the arguments bound to it at every module call site (recursively through
// parameters of the callers) and requires every ultimate source to satisfy ok. It returns "" or a reason.
func (c *Ctx) allBindingsAre(p *ssa.Parameter, depth int, ok func(ssa.Value) bool) string {
	if depth == 0 {
		return "call chain too deep"
	}
	idx := -1
	for i, q := range p.Parent().Params {
		if q == p {
			idx = i
		}
	}
	sites := c.callersOf(p.Parent())
	if len(sites) == 0 {
		return fname(p.Parent()) + " has no caller in the module"
	}
	for _, s := range sites {
		args := s.Common().Args
		if idx >= len(args) {
			return "cannot bind at " + c.ipos(s)
		}
		for _, o := range origins(args[idx]) {
			if ok(o) {
				continue
			}
			if q, isP := o.(*ssa.Parameter); isP {
				if why := c.allBindingsAre(q, depth-1, ok); why != "" {
					return why
				}
				continue
			}
			return fmt.Sprintf("%s passes %s at %s", fname(s.Parent()), valText(o), c.ipos(s))
		}
	}
	return ""
}

// sCase is one way a cache update can receive its value: the update's value operand, or — when the value is chosen by an
// if/else chain that ends in a single update call — one operand of the merging phi together with the guards of its edge.
type sCase struct {
	val    ssa.Value
	guards []guard
}

func (rl *runLoop) sCases(s sEvent) []sCase {
	var out []sCase
	seen := map[ssa.Value]bool{}
	var walk func(v ssa.Value, gs []guard)
	walk = func(v ssa.Value, gs []guard) {
		if seen[v] {
			return
		}
		seen[v] = true
		phi, ok := v.(*ssa.Phi)
		isHeader := false
		if ok && rl.loop != nil && phi.Block() == rl.loop.header {
			isHeader = true
		}
		if !ok || isHeader {
			out = append(out, sCase{v, gs})
			return
		}
		for i, e := range phi.Edges {
			pred := phi.Block().Preds[i]
			eg := rl.fi.guardsOfEdge(edge{pred, succIndex(pred, phi.Block())})
			walk(e, append(append([]guard{}, gs...), eg...))
		}
	}
	walk(s.val, rl.fi.necessaryGuards(s.call.Block()))
	return out
}

// sIsH / sIsG: some way of reaching the update records an H-derived (G-derived) value.
func (rl *runLoop) sIsH(s sEvent) bool {
	for _, cs := range rl.sCases(s) {
		if rl.hDerivedAll(cs.val) != nil {
			return true
		}
	}
	return false
}

func (rl *runLoop) sIsG(s sEvent) bool {
	for _, cs := range rl.sCases(s) {
		if rl.gDerived(cs.val) != nil {
			return true
		}
	}
	return false
}

// structRoot strips loads and field selections down to the storage a struct lives in, following whole-struct copies
// (`copy := *p`, a by-value parameter of an inlined helper): two accesses with the same root read the same task.
func structRoot(v ssa.Value) ssa.Value {
	for i := 0; i < 32; i++ {
		switch y := v.(type) {
		case *ssa.FieldAddr:
			v = y.X
		case *ssa.Field:
			v = y.X
		case *ssa.UnOp:
			if y.Op != token.MUL {
				return v
			}
			v = y.X
		case *ssa.Alloc:
			var whole []ssa.Value
			for _, ref := range valueReferrers(y) {
				if st, ok := ref.(*ssa.Store); ok && st.Addr == ssa.Value(y) {
					whole = append(whole, st.Val)
				}
			}
			if len(whole) != 1 {
				return v
			}
			src := whole[0]
			if u, ok := src.(*ssa.UnOp); ok && u.Op == token.MUL {
				v = u.X
				continue
			}
			if _, ok := src.(*ssa.Parameter); ok {
				return src
			}
			return v
		default:
			return v
		}
	}
	return v
}

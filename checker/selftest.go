package main

import (
	"encoding/json"
	"fmt"
	"os"
	"os/exec"
	"path/filepath"
	"regexp"
	"sort"
	"strings"
)

// The thorough tier re-validates the checker itself against the catalogue of seeded changes in <verif>/seeded and
// of behaviour-preserving variants in <verif>/neutral: each patch is applied to a scratch copy of the analysed tree
// (outside /repo and /verif, removed immediately) and the property's quick check is run on the copy in a subprocess.
// A seeded change that the committed catalogue says this property's rules report must be reported again; a neutral
// variant must stay silent. A patch that no longer applies to the current tree is skipped, never a failure of the property.

type seededMeta struct {
	ID       string `json:"id"`
	Property string `json:"property"`
	Verified struct {
		Reports map[string][]string `json:"spokcheck_reports"`
	} `json:"verified"`
}

type selfTestResult struct {
	Name     string   `json:"name"`
	Kind     string   `json:"kind"` // seeded | neutral
	Outcome  string   `json:"outcome"`
	Expected []string `json:"expected_rules,omitempty"`
	Fired    []string `json:"fired_rules,omitempty"`
}

var violatedRe = regexp.MustCompile(`(?m)^\s+violated: (\S+)`)

func copyTree(src, dst string) error {
	return filepath.Walk(src, func(p string, info os.FileInfo, err error) error {
		if err != nil {
			return err
		}
		rel, _ := filepath.Rel(src, p)
		if rel == ".git" || strings.HasPrefix(rel, ".git"+string(filepath.Separator)) {
			if info.IsDir() {
				return filepath.SkipDir
			}
			return nil
		}
		target := filepath.Join(dst, rel)
		if info.IsDir() {
			return os.MkdirAll(target, 0o755)
		}
		if !info.Mode().IsRegular() {
			return nil
		}
		data, err := os.ReadFile(p)
		if err != nil {
			return err
		}
		return os.WriteFile(target, data, info.Mode().Perm())
	})
}

func runSelfTest(propID, repo string) (results []selfTestResult, problems []string) {
	self, err := os.Executable()
	if err != nil {
		return nil, []string{"cannot locate own executable: " + err.Error()}
	}
	type job struct {
		name, kind, patch string
		expected          []string
	}
	var jobs []job
	seededDir := filepath.Join(verifDir, "seeded")
	entries, _ := os.ReadDir(seededDir)
	for _, e := range entries {
		if !e.IsDir() {
			continue
		}
		data, err := os.ReadFile(filepath.Join(seededDir, e.Name(), "meta.json"))
		if err != nil {
			continue
		}
		var m seededMeta
		if json.Unmarshal(data, &m) != nil {
			continue
		}
		var exp []string
		for _, r := range m.Verified.Reports[propID] {
			if !strings.HasPrefix(r, "exit2:") {
				exp = append(exp, r)
			}
		}
		if len(exp) == 0 {
			continue
		}
		jobs = append(jobs, job{e.Name(), "seeded", filepath.Join(seededDir, e.Name(), "patch.diff"), exp})
	}
	neutralDir := filepath.Join(verifDir, "neutral")
	entries, _ = os.ReadDir(neutralDir)
	for _, e := range entries {
		if e.IsDir() {
			jobs = append(jobs, job{e.Name(), "neutral", filepath.Join(neutralDir, e.Name(), "patch.diff"), nil})
		}
	}
	sort.Slice(jobs, func(i, j int) bool { return jobs[i].name < jobs[j].name })
	type out struct {
		res  selfTestResult
		prob string
	}
	ch := make(chan out, len(jobs))
	sem := make(chan struct{}, 6)
	for _, j := range jobs {
		j := j
		go func() {
			sem <- struct{}{}
			defer func() { <-sem }()
			res := selfTestResult{Name: j.name, Kind: j.kind, Expected: j.expected}
			prob := ""
			tmp, err := os.MkdirTemp("", "spokcheck-selftest-")
			if err != nil {
				ch <- out{res, "cannot create scratch directory: " + err.Error()}
				return
			}
			defer os.RemoveAll(tmp)
			scratch := filepath.Join(tmp, "repo")
			if err := copyTree(repo, scratch); err != nil {
				ch <- out{res, "cannot copy the tree: " + err.Error()}
				return
			}
			applied := false
			if _, err := exec.LookPath("patch"); err == nil {
				applied = exec.Command("patch", "-p1", "-s", "-f", "-d", scratch, "-i", j.patch).Run() == nil
			} else {
				ap := exec.Command("git", "apply", j.patch)
				ap.Dir = scratch
				ap.Env = append(os.Environ(), "GIT_CEILING_DIRECTORIES="+tmp)
				applied = ap.Run() == nil
			}
			if !applied {
				res.Outcome = "skipped: the patch does not apply to the current tree"
				ch <- out{res, ""}
				return
			}
			cmd := exec.Command(self, "-property", propID, "-tier", "quick", "-repo", scratch, "-no-evidence", "-verif", verifDir)
			cmd.Env = append(os.Environ(), "VERIF_TIER=quick")
			b, _ := cmd.CombinedOutput()
			code := cmd.ProcessState.ExitCode()
			fired := map[string]bool{}
			for _, m := range violatedRe.FindAllStringSubmatch(string(b), -1) {
				fired[m[1]] = true
			}
			for r := range fired {
				res.Fired = append(res.Fired, r)
			}
			sort.Strings(res.Fired)
			switch j.kind {
			case "seeded":
				missing := []string{}
				for _, e := range j.expected {
					if !fired[e] {
						missing = append(missing, e)
					}
				}
				switch {
				case code == 2 && len(fired) == 0:
					res.Outcome = "undecided on the changed tree (exit 2)"
				case len(missing) == 0 && code == 1:
					res.Outcome = "reported"
				case len(fired) > 0 && code == 1:
					res.Outcome = "reported by other rules than recorded (" + strings.Join(missing, ",") + " silent)"
				default:
					res.Outcome = "NOT REPORTED"
					prob = fmt.Sprintf("seeded change %s is no longer reported by %s (expected %v)", j.name, propID, j.expected)
				}
			case "neutral":
				if code == 0 {
					res.Outcome = "silent"
				} else {
					res.Outcome = fmt.Sprintf("ALARM on a behaviour-preserving variant (exit %d)", code)
					prob = fmt.Sprintf("behaviour-preserving variant %s makes %s exit %d (rules %v)", j.name, propID, code, res.Fired)
				}
			}
			ch <- out{res, prob}
		}()
	}
	for range jobs {
		o := <-ch
		results = append(results, o.res)
		if o.prob != "" {
			problems = append(problems, o.prob)
		}
	}
	sort.Slice(results, func(i, j int) bool { return results[i].Name < results[j].Name })
	sort.Strings(problems)
	return results, problems
}

package main

import (
	"fmt"
	"go/token"
	"go/types"
	"os"
	"path/filepath"
	"sort"
	"strings"

	"golang.org/x/tools/go/callgraph"
	"golang.org/x/tools/go/callgraph/cha"
	"golang.org/x/tools/go/callgraph/vta"
	"golang.org/x/tools/go/packages"
	"golang.org/x/tools/go/ssa"
	"golang.org/x/tools/go/ssa/ssautil"
)

const modPath = "github.com/FollowTheProcess/spok"

// anchorLost is panicked by a rule when a trigger anchor cannot be found any more:
// the checker no longer understands the code (exit 2, never a VIOLATION).
type anchorLost struct{ what string }

func (a anchorLost) Error() string { return "ANCHOR-LOST: " + a.what }

func lost(format string, args ...any) { panic(anchorLost{fmt.Sprintf(format, args...)}) }

// Ctx is the loaded program plus everything derived from it that the rules share.
type Ctx struct {
	Repo           string
	GOOS           string
	Tier           string
	Depth          int // inlining depth of the slicer
	Pkgs           []*packages.Package
	Prog           *ssa.Program
	Fset           *token.FileSet
	CG             *callgraph.Graph
	ModFuncs       []*ssa.Function          // every function of the module (methods, closures, init)
	byName         map[string]*ssa.Function // fn.String() -> fn for module functions
	SSAPkgs        map[string]*ssa.Package  // import path -> ssa package (module only)
	TypPkgs        map[string]*packages.Package
	fnCache        map[*ssa.Function]*fnInfo
	effects        *effectIndex
	allFuncs       map[*ssa.Function]bool
	origOf         map[ssa.Instruction]ssa.Instruction // canonical (cloned) instruction -> original instruction
	calleeIx       map[ssa.CallInstruction][]*ssa.Function
	callerIx       map[*ssa.Function][]ssa.CallInstruction
	canon          *canonStats
	ephemeral      map[string]bool
	constTables    map[*ssa.Global]bool
	splitTests map[string]splitTest
	lexRolesDone *lexRoles
	xIndex         int // which execution site of the commands the run-loop model is built around (see runSites)
	tableCallsDone bool
	tableCallSites []string
}

func load(repo, goos, tier string) (*Ctx, error) {
	env := append(os.Environ(), "GOFLAGS=-mod=mod", "GOPROXY=off", "GOSUMDB=off", "GOTOOLCHAIN=local", "GOWORK=off", "CGO_ENABLED=0")
	if goos != "" {
		env = append(env, "GOOS="+goos)
	}
	cfg := &packages.Config{Mode: packages.LoadAllSyntax, Dir: repo, Env: env, Tests: false}
	pkgs, err := packages.Load(cfg, "./...")
	if err != nil {
		return nil, fmt.Errorf("packages.Load: %w", err)
	}
	if len(pkgs) == 0 {
		return nil, fmt.Errorf("no packages loaded from %s", repo)
	}
	nerr := 0
	packages.Visit(pkgs, nil, func(p *packages.Package) {
		for _, e := range p.Errors {
			fmt.Fprintf(os.Stderr, "load error: %s\n", e)
			nerr++
		}
	})
	if nerr > 0 {
		return nil, fmt.Errorf("%d load/type errors", nerr)
	}
	prog, _ := ssautil.AllPackages(pkgs, ssa.InstantiateGenerics)
	prog.Build()
	c := &Ctx{Repo: repo, GOOS: goos, Tier: tier, Pkgs: pkgs, Prog: prog, Fset: prog.Fset,
		byName: map[string]*ssa.Function{}, SSAPkgs: map[string]*ssa.Package{}, TypPkgs: map[string]*packages.Package{},
		fnCache: map[*ssa.Function]*fnInfo{}}
	c.Depth = 2
	if tier == "thorough" {
		c.Depth = 4
	}
	for _, p := range pkgs {
		if !strings.HasPrefix(p.PkgPath, modPath) {
			return nil, fmt.Errorf("unexpected root package %s (module path changed?)", p.PkgPath)
		}
		c.TypPkgs[p.PkgPath] = p
		if sp := prog.Package(p.Types); sp != nil {
			c.SSAPkgs[p.PkgPath] = sp
		}
	}
	c.allFuncs = ssautil.AllFunctions(prog)
	for fn := range c.allFuncs {
		if inModule(fn) {
			c.ModFuncs = append(c.ModFuncs, fn)
		}
	}
	sort.Slice(c.ModFuncs, func(i, j int) bool { return c.ModFuncs[i].String() < c.ModFuncs[j].String() })
	for _, fn := range c.ModFuncs {
		c.byName[fn.String()] = fn
	}
	c.CG = vta.CallGraph(c.allFuncs, cha.CallGraph(prog))
	if os.Getenv("SPOKCHECK_NO_CANON") == "" {
		c.canon = c.canonicalise(5)
	}
	return c, nil
}

func fnPkgPath(fn *ssa.Function) string {
	if fn == nil {
		return ""
	}
	for fn.Parent() != nil {
		fn = fn.Parent()
	}
	if fn.Pkg != nil {
		return fn.Pkg.Pkg.Path()
	}
	if o := fn.Origin(); o != nil && o.Pkg != nil {
		return o.Pkg.Pkg.Path()
	}
	if fn.Object() != nil && fn.Object().Pkg() != nil {
		return fn.Object().Pkg().Path()
	}
	// wrappers / bound methods: use the receiver's package when there is one
	if fn.Signature != nil && fn.Signature.Recv() != nil {
		t := fn.Signature.Recv().Type()
		if p, ok := t.(*types.Pointer); ok {
			t = p.Elem()
		}
		if n, ok := t.(*types.Named); ok && n.Obj().Pkg() != nil {
			return n.Obj().Pkg().Path()
		}
	}
	return ""
}

func inModule(fn *ssa.Function) bool {
	if fn == nil {
		return false
	}
	if fn.Synthetic != "" && fn.Parent() == nil && fn.Pkg == nil && fn.Origin() == nil {
		return false
	}
	p := fnPkgPath(fn)
	return p == modPath || strings.HasPrefix(p, modPath+"/")
}

// shortPkg turns an import path of the module into its last element(s): "file", "cli/app".
func shortPkg(path string) string {
	return strings.TrimPrefix(strings.TrimPrefix(path, modPath), "/")
}

func (c *Ctx) pkg(short string) *ssa.Package {
	p := modPath
	if short != "" {
		p += "/" + short
	}
	sp := c.SSAPkgs[p]
	if sp == nil {
		lost("package %s", p)
	}
	return sp
}

// fn returns the package-level function pkg.name (trigger anchor).
func (c *Ctx) fn(short, name string) *ssa.Function {
	f := c.pkg(short).Func(name)
	if f == nil {
		lost("function %s.%s", short, name)
	}
	return f
}

func (c *Ctx) fnOpt(short, name string) *ssa.Function {
	p := modPath
	if short != "" {
		p += "/" + short
	}
	sp := c.SSAPkgs[p]
	if sp == nil {
		return nil
	}
	return sp.Func(name)
}

func (c *Ctx) namedType(short, name string) *types.Named {
	m := c.pkg(short).Members[name]
	t, ok := m.(*ssa.Type)
	if !ok {
		lost("type %s.%s", short, name)
	}
	n, ok := t.Type().(*types.Named)
	if !ok {
		lost("type %s.%s is not named", short, name)
	}
	return n
}

// method returns the method (value or pointer receiver, whichever is declared) of a module type.
func (c *Ctx) method(short, typ, name string) *ssa.Function {
	f := c.methodOpt(short, typ, name)
	if f == nil {
		lost("method %s.%s.%s", short, typ, name)
	}
	return f
}

func (c *Ctx) methodOpt(short, typ, name string) *ssa.Function {
	p := modPath
	if short != "" {
		p += "/" + short
	}
	sp := c.SSAPkgs[p]
	if sp == nil {
		return nil
	}
	m, ok := sp.Members[typ].(*ssa.Type)
	if !ok {
		return nil
	}
	n := m.Type()
	for _, t := range []types.Type{n, types.NewPointer(n)} {
		ms := c.Prog.MethodSets.MethodSet(t)
		for i := 0; i < ms.Len(); i++ {
			sel := ms.At(i)
			if sel.Obj().Name() == name {
				if f := c.Prog.MethodValue(sel); f != nil && f.Synthetic == "" {
					return f
				}
			}
		}
	}
	// declared on the other receiver kind: look through wrappers
	for _, f := range c.ModFuncs {
		if f.Signature.Recv() != nil && f.Name() == name && f.Synthetic == "" && recvNamed(f) == typ && fnPkgPath(f) == p {
			return f
		}
	}
	return nil
}

func recvNamed(f *ssa.Function) string {
	if f.Signature.Recv() == nil {
		return ""
	}
	t := f.Signature.Recv().Type()
	if p, ok := t.(*types.Pointer); ok {
		t = p.Elem()
	}
	if n, ok := t.(*types.Named); ok {
		return n.Obj().Name()
	}
	return ""
}

// pos renders a position relative to the repository root.
func (c *Ctx) pos(p token.Pos) string {
	if !p.IsValid() {
		return "?"
	}
	pp := c.Fset.Position(p)
	rel, err := filepath.Rel(c.Repo, pp.Filename)
	if err != nil || strings.HasPrefix(rel, "..") {
		rel = pp.Filename
	}
	return fmt.Sprintf("%s:%d", rel, pp.Line)
}

// ipos is the position of an instruction, falling back to its neighbours / block when it has none.
func (c *Ctx) ipos(i ssa.Instruction) string {
	if i == nil {
		return "?"
	}
	if i.Pos().IsValid() {
		return c.pos(i.Pos())
	}
	if v, ok := i.(ssa.Value); ok {
		for _, r := range valueReferrers(v) {
			if r.Pos().IsValid() {
				return c.pos(r.Pos())
			}
		}
	}
	if b := i.Block(); b != nil {
		for _, j := range b.Instrs {
			if j.Pos().IsValid() {
				return c.pos(j.Pos())
			}
		}
		return c.pos(b.Parent().Pos())
	}
	return "?"
}

func (c *Ctx) bpos(b *ssa.BasicBlock) string {
	for _, j := range b.Instrs {
		if j.Pos().IsValid() {
			return c.pos(j.Pos())
		}
	}
	return c.pos(b.Parent().Pos())
}

func valueReferrers(v ssa.Value) []ssa.Instruction {
	if r := v.Referrers(); r != nil {
		return *r
	}
	return nil
}

// fname is a short, stable, human name for a function: "file.(*SpokFile).run", "hash.worker", "hash.(Concurrent).Hash$1".
func fname(fn *ssa.Function) string {
	if fn == nil {
		return "<nil>"
	}
	s := fn.String()
	s = strings.ReplaceAll(s, modPath+"/", "")
	s = strings.ReplaceAll(s, modPath, "spok")
	return s
}

// calleeName resolves a call to the full name of its static callee or, for an interface
// invocation, of the interface method ("(pkg.Iface).Method"). Dynamic function values give "".
func calleeName(cc *ssa.CallCommon) string {
	if cc.IsInvoke() {
		return cc.Method.FullName()
	}
	if f := cc.StaticCallee(); f != nil {
		if f.Object() != nil {
			if tf, ok := f.Object().(*types.Func); ok {
				return tf.FullName()
			}
		}
		if o := f.Origin(); o != nil && o.Object() != nil {
			if tf, ok := o.Object().(*types.Func); ok {
				return tf.FullName()
			}
		}
		return f.String()
	}
	if b, ok := cc.Value.(*ssa.Builtin); ok {
		return "builtin." + b.Name()
	}
	return ""
}

// buildCallIndex resolves every call site of the canonical module functions: static callees directly, dynamic ones
// through the VTA call graph (looked up under the original instruction the site was copied from).
func (c *Ctx) buildCallIndex() {
	if c.calleeIx != nil {
		return
	}
	c.calleeIx = map[ssa.CallInstruction][]*ssa.Function{}
	c.callerIx = map[*ssa.Function][]ssa.CallInstruction{}
	for _, f := range c.ModFuncs {
		for _, site := range callSites(f) {
			var out []*ssa.Function
			if g := site.Common().StaticCallee(); g != nil {
				out = []*ssa.Function{g}
			} else if mc, ok := site.Common().Value.(*ssa.MakeClosure); ok {
				out = []*ssa.Function{mc.Fn.(*ssa.Function)}
			} else {
				key := ssa.Instruction(site)
				if o, ok := c.origOf[key]; ok {
					key = o
				}
				host := key.Parent()
				if n := c.CG.Nodes[host]; n != nil {
					seen := map[*ssa.Function]bool{}
					for _, e := range n.Out {
						if ssa.Instruction(e.Site) == key && e.Callee.Func != nil && !seen[e.Callee.Func] {
							seen[e.Callee.Func] = true
							out = append(out, e.Callee.Func)
						}
					}
				}
			}
			c.calleeIx[site] = out
			for _, g := range out {
				c.callerIx[g] = append(c.callerIx[g], site)
			}
		}
	}
	for g := range c.callerIx {
		ss := c.callerIx[g]
		sort.Slice(ss, func(i, j int) bool { return ss[i].Pos() < ss[j].Pos() })
	}
}

// callees returns every function the call may invoke: the static callee, or the VTA targets.
func (c *Ctx) callees(site ssa.CallInstruction) []*ssa.Function {
	c.buildCallIndex()
	if out, ok := c.calleeIx[site]; ok {
		return out
	}
	if f := site.Common().StaticCallee(); f != nil {
		return []*ssa.Function{f}
	}
	return nil
}

// callersOf returns the module call sites (in canonical bodies) that may call fn.
func (c *Ctx) callersOf(fn *ssa.Function) []ssa.CallInstruction {
	c.buildCallIndex()
	return c.callerIx[fn]
}

// callSites lists every call instruction (call, go, defer) of fn, in block order.
func callSites(fn *ssa.Function) []ssa.CallInstruction {
	var out []ssa.CallInstruction
	for _, b := range fn.Blocks {
		for _, i := range b.Instrs {
			if ci, ok := i.(ssa.CallInstruction); ok {
				out = append(out, ci)
			}
		}
	}
	return out
}

// callsTo lists the call sites in fn whose resolved callee name is one of names.
func callsTo(fn *ssa.Function, names ...string) []ssa.CallInstruction {
	var out []ssa.CallInstruction
	for _, ci := range callSites(fn) {
		n := calleeName(ci.Common())
		for _, w := range names {
			if n == w {
				out = append(out, ci)
			}
		}
	}
	return out
}

// reachesFn reports whether from can reach to through call sites of canonical module functions.
func (c *Ctx) reachesFn(from, to *ssa.Function) bool {
	seen := map[*ssa.Function]bool{}
	var walk func(f *ssa.Function) bool
	walk = func(f *ssa.Function) bool {
		if f == to {
			return true
		}
		if seen[f] || !inModule(f) {
			return false
		}
		seen[f] = true
		for _, site := range callSites(f) {
			for _, g := range c.callees(site) {
				if walk(g) {
					return true
				}
			}
		}
		return false
	}
	return walk(from)
}

// isFieldOf reports whether fa addresses field `field` of the named struct pkgShort.typ.
func fieldOf(t types.Type, idx int) (owner string, field string) {
	if p, ok := t.Underlying().(*types.Pointer); ok {
		t = p.Elem()
	}
	name := ""
	if n, ok := t.(*types.Named); ok {
		name = n.Obj().Name()
		if n.Obj().Pkg() != nil {
			name = shortPkg(n.Obj().Pkg().Path()) + "." + name
			if !strings.HasPrefix(n.Obj().Pkg().Path(), modPath) {
				name = n.Obj().Pkg().Path() + "." + n.Obj().Name()
			}
		}
	}
	st, ok := t.Underlying().(*types.Struct)
	if !ok || idx >= st.NumFields() {
		return name, "?"
	}
	return name, st.Field(idx).Name()
}

// fieldKey gives "file.SpokFile.Globs" for a FieldAddr / Field instruction.
func fieldKey(v ssa.Value) string {
	switch x := v.(type) {
	case *ssa.FieldAddr:
		o, f := fieldOf(x.X.Type(), x.Field)
		return o + "." + f
	case *ssa.Field:
		o, f := fieldOf(x.X.Type(), x.Field)
		return o + "." + f
	}
	return ""
}

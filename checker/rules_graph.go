package main

import (
	"fmt"
	"go/token"
	"go/types"
	"strings"

	"golang.org/x/tools/go/ssa"
)

const dagPkg = "github.com/FollowTheProcess/collections/dag"

// dagCall: the call is a method of dag.Graph with the given name.
func dagCall(site ssa.CallInstruction, method string) bool {
	n := calleeName(site.Common())
	return strings.Contains(n, dagPkg+".Graph") && strings.HasSuffix(n, ")."+method)
}

func (c *Ctx) dagCalls(method string) []ssa.CallInstruction {
	var out []ssa.CallInstruction
	for _, f := range c.ModFuncs {
		for _, site := range callSites(f) {
			if dagCall(site, method) {
				out = append(out, site)
			}
		}
	}
	return out
}

// reachableFromRun: module functions reachable from file.(*SpokFile).Run.
func (c *Ctx) reachableFromRun() map[*ssa.Function]bool {
	runM := c.method("file", "SpokFile", "Run")
	seen := map[*ssa.Function]bool{}
	var walk func(f *ssa.Function)
	walk = func(f *ssa.Function) {
		if seen[f] || !inModule(f) {
			return
		}
		seen[f] = true
		for _, site := range callSites(f) {
			for _, callee := range c.callees(site) {
				walk(callee)
			}
		}
		for _, a := range f.AnonFuncs {
			walk(a)
		}
	}
	walk(runM)
	return seen
}

func (c *Ctx) inCallCycle(f *ssa.Function) bool {
	seen := map[*ssa.Function]bool{}
	var walk func(g *ssa.Function) bool
	walk = func(g *ssa.Function) bool {
		for _, site := range callSites(g) {
			for _, callee := range c.callees(site) {
				if !inModule(callee) {
					continue
				}
				if callee == f {
					return true
				}
				if !seen[callee] {
					seen[callee] = true
					if walk(callee) {
						return true
					}
				}
			}
		}
		return false
	}
	return walk(f)
}

func ruleGR1(c *Ctx) *rule {
	r := &rule{ID: "GR1", Engine: "E1+E3", Floor: 1,
		Statement: "the discovery of task dependencies has feedback: among the functions reachable from SpokFile.Run that read Task.TaskDependencies, one is recursive or reads it in a loop whose continuation depends on a work list fed from those reads",
		Necessity: "without recursion or a data-driven loop only a bounded depth of the dependency relation can be visited: dependencies of dependencies are silently left out"}
	reach := c.reachableFromRun()
	type reader struct {
		fn *ssa.Function
		at ssa.Instruction
	}
	var readers []reader
	for f := range reach {
		for _, b := range f.Blocks {
			for _, in := range b.Instrs {
				if v, ok := in.(ssa.Value); ok && fieldKey(v) == "task.Task.TaskDependencies" {
					readers = append(readers, reader{f, in})
				}
			}
		}
	}
	if len(readers) == 0 {
		r.bad("file.(*SpokFile).Run reads-TaskDependencies", c.pos(c.method("file", "SpokFile", "Run").Pos()), "nothing reachable from SpokFile.Run reads Task.TaskDependencies: task dependencies are ignored")
		return r
	}
	feedback := ""
	for _, rd := range readers {
		r.note("reader %s at %s", fname(rd.fn), c.ipos(rd.at))
		if c.inCallCycle(rd.fn) {
			feedback = fname(rd.fn) + " is recursive"
			break
		}
		fi := c.info(rd.fn)
		for _, l := range fi.loopsContaining(rd.at.Block()) {
			for _, p := range l.headerPhis() {
				// exit test depends on p, p's back-edge value depends on the read
				exitDep := false
				for _, b := range rd.fn.Blocks {
					if !l.body[b] {
						continue
					}
					iff, ok := lastInstr(b).(*ssa.If)
					if !ok || (l.body[b.Succs[0]] && l.body[b.Succs[1]]) {
						continue
					}
					sl := c.newSlicer()
					sl.depth = 0
					if sl.run(iff.Cond).has(p) && !l.isInduction(p) {
						exitDep = true
					}
				}
				if !exitDep {
					continue
				}
				for i, pred := range l.header.Preds {
					if !l.body[pred] {
						continue
					}
					sl := c.newSlicer()
					sl.depth = 1
					if sl.run(p.Edges[i]).has(rd.at.(ssa.Value)) {
						feedback = fmt.Sprintf("%s reads it in a work-list loop (%s)", fname(rd.fn), p.Comment)
					}
				}
			}
		}
	}
	key := "file.(*SpokFile).Run dependency-discovery"
	if feedback != "" {
		r.ok(key, c.ipos(readers[0].at), feedback)
	} else {
		r.bad(key, c.ipos(readers[0].at), "Task.TaskDependencies is only read by non-recursive code without a work list: only the direct dependencies of the requested tasks enter the graph (a(b) b(c) c: c never runs)")
	}
	return r
}

// samePlace: two values denote the same storage/value: identical, same origins, or loads of the same field of the same base.
func samePlace(a, b ssa.Value) bool {
	if a == b || sameOrigins(a, b) {
		return true
	}
	// the same pure expression written twice (`p.spokfile()` called for the test and again for the write, once inlined:
	// two filepath.Join calls over the same operands)
	if ca, okA := a.(*ssa.Call); okA {
		if cb, okB := b.(*ssa.Call); okB && calleeName(ca.Common()) == calleeName(cb.Common()) && !ca.Common().IsInvoke() {
			switch calleeName(ca.Common()) {
			case "path/filepath.Join", "path/filepath.Dir", "path/filepath.Clean", "path/filepath.Base", "path/filepath.FromSlash", "path/filepath.ToSlash":
				aa, ab := ca.Common().Args, cb.Common().Args
				if len(aa) == len(ab) {
					all := true
					for i := range aa {
						ea, eb := variadicElems(aa[i]), variadicElems(ab[i])
						if ea != nil && eb != nil {
							if len(ea) != len(eb) {
								all = false
								break
							}
							for k := range ea {
								if !samePlace(ea[k], eb[k]) {
									all = false
								}
							}
							continue
						}
						if !samePlace(aa[i], ab[i]) {
							all = false
						}
					}
					if all {
						return true
					}
				}
			}
		}
	}
	if ka, okA := a.(*ssa.Const); okA {
		if kb, okB := b.(*ssa.Const); okB && ka.Value != nil && kb.Value != nil && ka.Value.ExactString() == kb.Value.ExactString() && types.Identical(ka.Type(), kb.Type()) {
			return true
		}
	}
	if cva, okA := a.(*ssa.Convert); okA {
		if cvb, okB := b.(*ssa.Convert); okB && types.Identical(cva.Type(), cvb.Type()) && samePlace(cva.X, cvb.X) {
			return true
		}
	}
	if cva, okA := a.(*ssa.ChangeType); okA {
		if cvb, okB := b.(*ssa.ChangeType); okB && samePlace(cva.X, cvb.X) {
			return true
		}
	}
	ua, ok1 := a.(*ssa.UnOp)
	ub, ok2 := b.(*ssa.UnOp)
	if ok1 && ok2 && ua.Op == token.MUL && ub.Op == token.MUL {
		fa, ok1 := ua.X.(*ssa.FieldAddr)
		fb, ok2 := ub.X.(*ssa.FieldAddr)
		if ok1 && ok2 && fa.Field == fb.Field && (fa.X == fb.X || samePlace(fa.X, fb.X)) {
			return true
		}
	}
	return false
}

// taskLookupOf finds the lookup in SpokFile.Tasks that produced the task struct whose field is read by fieldRead.
func taskLookupOf(c *Ctx, fieldRead ssa.Value) *ssa.Lookup {
	var base ssa.Value
	switch x := fieldRead.(type) {
	case *ssa.FieldAddr:
		base = x.X
	case *ssa.Field:
		base = x.X
	default:
		return nil
	}
	sl := c.newSlicer()
	sl.depth = 0
	res := sl.run(base)
	for _, v := range res.order {
		if lk, ok := v.(*ssa.Lookup); ok && isFieldLoad(lk.X, "file.SpokFile.Tasks") {
			return lk
		}
	}
	return nil
}

// lookedUpPairAtCallers: pTask and pName are parameters of the same (recursive, hence not inlined) function; at every call site
// the task argument comes from a lookup in SpokFile.Tasks whose key is the name argument.
func (c *Ctx) lookedUpPairAtCallers(pTask, pName *ssa.Parameter) bool {
	f := pTask.Parent()
	if f == nil || pName.Parent() != f {
		return false
	}
	it, in := -1, -1
	for j, q := range f.Params {
		if q == pTask {
			it = j
		}
		if q == pName {
			in = j
		}
	}
	sites := c.callersOf(f)
	if it < 0 || in < 0 || len(sites) == 0 {
		return false
	}
	for _, cs := range sites {
		args := cs.Common().Args
		if it >= len(args) || in >= len(args) {
			return false
		}
		sl := c.newSlicer()
		sl.depth = 0
		var lk *ssa.Lookup
		for _, v := range sl.run(args[it]).order {
			if l, ok := v.(*ssa.Lookup); ok && isFieldLoad(l.X, "file.SpokFile.Tasks") {
				lk = l
				break
			}
		}
		if lk == nil || !samePlace(lk.Index, args[in]) {
			return false
		}
	}
	return true
}

// paramOrigin: v is (a field of / a load of) exactly one parameter.
func paramOrigin(v ssa.Value) *ssa.Parameter {
	for i := 0; i < 8 && v != nil; i++ {
		switch x := v.(type) {
		case *ssa.Parameter:
			return x
		case *ssa.Field:
			v = x.X
		case *ssa.FieldAddr:
			v = x.X
		case *ssa.UnOp:
			if x.Op != token.MUL {
				return nil
			}
			v = x.X
		case *ssa.Alloc:
			// a parameter spilled to a local
			var st ssa.Value
			n := 0
			for _, ref := range valueReferrers(x) {
				if s, ok := ref.(*ssa.Store); ok && s.Addr == ssa.Value(x) {
					st = s.Val
					n++
				}
			}
			if n != 1 {
				return nil
			}
			v = st
		default:
			os := origins(v)
			if len(os) != 1 || os[0] == v {
				return nil
			}
			v = os[0]
		}
	}
	return nil
}

func ruleGR2(c *Ctx) *rule {
	r := &rule{ID: "GR2", Engine: "E3", Floor: 1,
		Statement: "at every Graph.AddEdge(from, to): from is an element of t.TaskDependencies and to is the name under which t was looked up (or t.Name)",
		Necessity: "with the direction reversed the topological order runs a task before the tasks it depends on"}
	sites := c.dagCalls("AddEdge")
	if len(sites) == 0 {
		r.bad("module AddEdge", "?", "no Graph.AddEdge call: task dependencies never constrain the order")
		return r
	}
	for i, site := range sites {
		key := fmt.Sprintf("%s AddEdge#%d", fname(site.Parent()), i+1)
		args := site.Common().Args
		from, to := c.bindUp(args[1]), c.bindUp(args[2])
		fs := c.newSlicer()
		fs.depth = 0
		fres := fs.run(from)
		deps := fres.fields["task.Task.TaskDependencies"]
		if len(deps) == 0 {
			ts := c.newSlicer()
			ts.depth = 0
			if ts.run(to).hasField("task.Task.TaskDependencies") {
				r.bad(key, c.ipos(site), "the edge goes from the dependent task to its dependency: dependencies would be sorted AFTER the tasks that need them")
			} else {
				r.bad(key, c.ipos(site), "the `from` vertex is not an element of Task.TaskDependencies")
			}
			continue
		}
		lk := taskLookupOf(c, deps[0])
		okTo := false
		if lk != nil && samePlace(to, lk.Index) {
			okTo = true
		}
		// or t.Name of the same task
		if u, ok := to.(*ssa.UnOp); ok && u.Op == token.MUL && fieldKey(u.X) == "task.Task.Name" {
			if fa, ok := u.X.(*ssa.FieldAddr); ok {
				if da, ok := deps[0].(*ssa.FieldAddr); ok && fa.X == da.X {
					okTo = true
				}
			}
		}
		if !okTo && lk != nil {
			// the pair travels through a record (`dependency{before: dep, after: name}` collected first, edges added later): the
			// `to` end derives from the very key the task was looked up under
			ts := c.newSlicer()
			ts.depth = 0
			tres := ts.run(to)
			if k := originsOne(lk.Index); tres.has(k) || tres.has(lk.Index) {
				if _, isConst := k.(*ssa.Const); !isConst {
					okTo = true
				}
			}
		}
		if !okTo {
			// the task and its name are parameters of a recursive function: every caller passes a task looked up under that name
			if pt, pn := paramOrigin(deps[0]), paramOrigin(to); pt != nil && pn != nil && pt != pn && c.lookedUpPairAtCallers(pt, pn) {
				okTo = true
			}
		}
		if okTo {
			r.ok(key, c.ipos(site), "edge dependency -> dependent")
		} else {
			r.bad(key, c.ipos(site), "the `to` vertex is not the task whose TaskDependencies are being added")
		}
	}
	return r
}

func ruleGR3(c *Ctx) *rule {
	r := &rule{ID: "GR3", Engine: "E2+E3", Floor: 1,
		Statement: "the slice returned by Graph.Sort is used only after a comparison of its length with Graph.Order() whose mismatch edge returns an error",
		Necessity: "library contract (collections/dag Sort = Kahn): when a cycle coexists with any vertex of in-degree 0 the sort returns a truncated order and a nil error; using it silently drops every task on or behind the cycle"}
	sites := c.dagCalls("Sort")
	if len(sites) == 0 {
		r.undecided("module Sort", "?", "no Graph.Sort call found; the ordering mechanism is not the one this rule understands")
		return r
	}
	for i, site := range sites {
		call, ok := site.(*ssa.Call)
		if !ok {
			continue
		}
		key := fmt.Sprintf("%s Sort#%d", fname(site.Parent()), i+1)
		fi := c.info(site.Parent())
		var order ssa.Value
		for _, ref := range valueReferrers(call) {
			if ex, ok := ref.(*ssa.Extract); ok && ex.Index == 0 {
				order = ex
			}
		}
		if order == nil {
			r.bad(key, c.ipos(site), "the sorted order is discarded")
			continue
		}
		// error of Sort itself
		if ev := errOfCall(site); ev == nil {
			r.bad(key+" err", c.ipos(site), "the error of Sort is discarded")
		} else if ok, why := c.errEdgeDischarged(ev); !ok {
			r.bad(key+" err", c.ipos(site), "the error of Sort does not end the run: "+why)
		} else {
			r.ok(key+" err", c.ipos(site), "a sort error ends the run")
		}
		// find the length comparison
		var eqEdge *edge
		for _, b := range site.Parent().Blocks {
			iff, ok := lastInstr(b).(*ssa.If)
			if !ok {
				continue
			}
			bo, ok := iff.Cond.(*ssa.BinOp)
			if !ok || (bo.Op != token.EQL && bo.Op != token.NEQ) {
				continue
			}
			isLen := func(v ssa.Value) bool {
				cl, ok := v.(*ssa.Call)
				if !ok {
					return false
				}
				bi, ok := cl.Call.Value.(*ssa.Builtin)
				return ok && bi.Name() == "len" && sameOrigins(cl.Call.Args[0], order)
			}
			isOrder := func(v ssa.Value) bool {
				cl, ok := v.(*ssa.Call)
				if !ok || !dagCall(cl, "Order") {
					return false
				}
				return sameOrigins(cl.Common().Args[0], call.Common().Args[0])
			}
			if (isLen(bo.X) && isOrder(bo.Y)) || (isLen(bo.Y) && isOrder(bo.X)) {
				eqIdx, neIdx := 0, 1
				if bo.Op == token.NEQ {
					eqIdx, neIdx = 1, 0
				}
				if ok, _ := c.edgeEndsInError(edge{b, neIdx}); ok {
					e := edge{b, eqIdx}
					eqEdge = &e
				}
			}
		}
		if eqEdge == nil {
			// own cycle detection candidate?
			if c.hasLocalCycleDetection() {
				r.undecided(key, c.ipos(site), "no length check against Graph.Order(), but the graph builder has a membership-in-a-local-set error return (its own cycle detection) whose correctness this rule cannot judge")
			} else {
				r.bad(key, c.ipos(site), "the order returned by Sort is used without checking len(order) against Graph.Order(): a cycle next to any independent task is silently dropped (a<->b plus c: only c runs, exit 0)")
			}
			continue
		}
		// all uses dominated by the equal edge (a phi that merges the result of an inlined helper is an alias, not a use)
		bad := ""
		seenV := map[ssa.Value]bool{}
		var checkUses func(v ssa.Value)
		checkUses = func(v ssa.Value) {
			if seenV[v] {
				return
			}
			seenV[v] = true
			for _, ref := range valueReferrers(v) {
				if cl, ok := ref.(*ssa.Call); ok {
					if bi, ok := cl.Call.Value.(*ssa.Builtin); ok && bi.Name() == "len" {
						continue
					}
				}
				if _, ok := ref.(*ssa.DebugRef); ok {
					continue
				}
				if phi, ok := ref.(*ssa.Phi); ok {
					checkUses(phi)
					continue
				}
				if !edgeDominates(*eqEdge, ref.Block()) {
					bad = c.ipos(ref)
				}
			}
		}
		checkUses(order)
		_ = fi
		if bad == "" {
			r.ok(key, c.ipos(site), "every use of the order is dominated by len(order) == graph.Order()")
		} else {
			r.bad(key, bad, "the sorted order is used on a path that has not compared its length with Graph.Order()")
		}
	}
	return r
}

// hasLocalCycleDetection: a function reachable from Run returns a non-nil error under a membership test in a local map.
func (c *Ctx) hasLocalCycleDetection() bool {
	for f := range c.reachableFromRun() {
		fi := c.info(f)
		for _, ret := range returnsOf(f) {
			ev := returnedErr(ret)
			if ev == nil || isNilConst(ev) {
				continue
			}
			for _, g := range fi.necessaryGuards(ret.Block()) {
				if ex, ok := g.cond.(*ssa.Extract); ok && g.pol {
					if lk, ok := ex.Tuple.(*ssa.Lookup); ok && lk.CommaOk {
						if _, isMk := lk.X.(*ssa.MakeMap); isMk {
							return true
						}
						if p, isP := lk.X.(*ssa.Parameter); isP {
							if _, isMap := p.Type().Underlying().(*types.Map); isMap {
								return true
							}
						}
					}
				}
				if lk, ok := g.cond.(*ssa.Lookup); ok && g.pol {
					if _, isMk := lk.X.(*ssa.MakeMap); isMk {
						return true
					}
					if p, isP := lk.X.(*ssa.Parameter); isP {
						if _, isMap := p.Type().Underlying().(*types.Map); isMap {
							return true
						}
					}
				}
			}
		}
	}
	return false
}

// taskHitTest: f is `_, ok := s.Tasks[name]; return ok`.
func (c *Ctx) isTaskHitTest(f *ssa.Function) bool {
	if f == nil || !inModule(f) || f.Signature.Results().Len() != 1 {
		return false
	}
	if b, ok := firstResult(f).Underlying().(*types.Basic); !ok || b.Kind() != types.Bool {
		return false
	}
	for _, ret := range returnsOf(f) {
		ex, ok := ret.Results[0].(*ssa.Extract)
		if !ok || ex.Index != 1 {
			return false
		}
		lk, ok := ex.Tuple.(*ssa.Lookup)
		if !ok || !isFieldLoad(lk.X, "file.SpokFile.Tasks") {
			return false
		}
	}
	return true
}

// keyValidatedAt: on every path to instruction at, key has been found in SpokFile.Tasks (comma-ok lookup or hit test whose miss edge fails).
func (c *Ctx) keyValidatedAt(key ssa.Value, at ssa.Instruction) bool {
	fi := c.info(at.Parent())
	for _, g := range fi.necessaryGuards(at.Block()) {
		if ex, ok := g.cond.(*ssa.Extract); ok && g.pol && ex.Index == 1 {
			if lk, ok := ex.Tuple.(*ssa.Lookup); ok && isFieldLoad(lk.X, "file.SpokFile.Tasks") && samePlace(lk.Index, key) {
				return true
			}
		}
		if call, ok := g.cond.(*ssa.Call); ok && g.pol && c.isTaskHitTest(call.Common().StaticCallee()) {
			if len(call.Common().Args) == 2 && samePlace(call.Common().Args[1], key) {
				return true
			}
		}
	}
	return false
}

func ruleGR4(c *Ctx) *rule {
	r := &rule{ID: "GR4", Engine: "E2+E3", Floor: 2,
		Statement: "a task name that is not defined is an error: every comma-ok lookup in SpokFile.Tasks on the way from SpokFile.Run has a miss edge that reaches only non-nil error returns, and every task added to the graph comes from such a lookup (or from a plain lookup of a key validated at every call site)",
		Necessity: "a miss that continues (or a zero-value Task added as a vertex) silently leaves out a task that was requested or depended upon"}
	reach := c.reachableFromRun()
	n := 0
	for f := range reach {
		for _, b := range f.Blocks {
			for _, in := range b.Instrs {
				lk, ok := in.(*ssa.Lookup)
				if !ok || !lk.CommaOk || !isFieldLoad(lk.X, "file.SpokFile.Tasks") {
					continue
				}
				if c.isTaskHitTest(f) {
					continue
				}
				n++
				key := fmt.Sprintf("%s Tasks[k],ok#%d", fname(f), n)
				var okv ssa.Value
				for _, ref := range valueReferrers(lk) {
					if ex, ok := ref.(*ssa.Extract); ok && ex.Index == 1 {
						okv = ex
					}
				}
				if okv == nil || len(valueReferrers(okv)) == 0 {
					r.bad(key, c.ipos(lk), "the ok result of the lookup is ignored")
					continue
				}
				verdict := ""
				type missEdge struct {
					iff *ssa.If
					idx int
				}
				var tests []missEdge
				for _, ref := range valueReferrers(okv) {
					switch x := ref.(type) {
					case *ssa.If:
						tests = append(tests, missEdge{x, 1})
					case *ssa.UnOp:
						// `case !ok:` / `if !ok`: the miss is the true edge of the negation
						if x.Op == token.NOT {
							for _, rr := range valueReferrers(x) {
								if i2, isIf := rr.(*ssa.If); isIf {
									tests = append(tests, missEdge{i2, 0})
								}
							}
						}
					}
				}
				for _, t := range tests {
					if good, why := c.edgeEndsInError(edge{t.iff.Block(), t.idx}); !good {
						verdict = why
					} else if verdict == "" {
						verdict = "ok"
					}
				}
				switch verdict {
				case "ok":
					r.ok(key, c.ipos(lk), "a miss ends in a non-nil error")
				case "":
					r.bad(key, c.ipos(lk), "the ok result is never branched on")
				default:
					r.bad(key, c.ipos(lk), "an undefined task name does not end the run with an error: "+verdict)
				}
			}
		}
	}
	// hit tests used as guards: the miss edge must fail
	for f := range reach {
		fi := c.info(f)
		for _, site := range callSites(f) {
			call, ok := site.(*ssa.Call)
			if !ok || !c.isTaskHitTest(call.Common().StaticCallee()) {
				continue
			}
			for _, ref := range valueReferrers(call) {
				var iff *ssa.If
				missIdx := 1
				switch x := ref.(type) {
				case *ssa.If:
					iff = x
				case *ssa.UnOp:
					if x.Op == token.NOT {
						for _, rr := range valueReferrers(x) {
							if i2, ok := rr.(*ssa.If); ok {
								iff, missIdx = i2, 0
							}
						}
					}
				}
				if iff == nil {
					continue
				}
				n++
				key := fmt.Sprintf("%s HasTask(k)#%d", fname(f), n)
				_ = fi
				if good, why := c.edgeEndsInError(edge{iff.Block(), missIdx}); good {
					r.ok(key, c.ipos(call), "a miss ends in a non-nil error")
				} else {
					r.bad(key, c.ipos(call), "an undefined task name does not end the run with an error: "+why)
				}
			}
		}
	}
	// provenance of every vertex
	for i, site := range c.dagCalls("AddVertex") {
		key := fmt.Sprintf("%s AddVertex#%d payload", fname(site.Parent()), i+1)
		args := site.Common().Args
		sl := c.newSlicer()
		sl.depth = 0
		res := sl.run(args[2])
		var lk *ssa.Lookup
		for _, v := range res.order {
			if l, ok := v.(*ssa.Lookup); ok && isFieldLoad(l.X, "file.SpokFile.Tasks") {
				lk = l // the first one met going backwards is the one that produced the payload
				break
			}
		}
		if lk == nil {
			if pt, pn := paramOrigin(args[2]), paramOrigin(args[1]); pt != nil && pn != nil && pt != pn && c.lookedUpPairAtCallers(pt, pn) {
				r.ok(key, c.ipos(site), "the task and its name are parameters; every caller passes a task looked up under that name (the lookups are checked above)")
				continue
			}
			r.bad(key, c.ipos(site), "the task stored in the vertex does not come from SpokFile.Tasks")
			continue
		}
		if !samePlace(lk.Index, args[1]) {
			r.bad(key, c.ipos(site), "the vertex id is not the name the task was looked up under")
			continue
		}
		if lk.CommaOk {
			r.ok(key, c.ipos(site), "from a comma-ok lookup (its miss edge is checked above)")
			continue
		}
		if c.keyValidatedAt(lk.Index, lk) {
			r.ok(key, c.ipos(site), "plain lookup of a key validated in the same function")
			continue
		}
		// plain lookup of a parameter validated at every call site
		p, isParam := originsOne(lk.Index).(*ssa.Parameter)
		if !isParam {
			r.bad(key, c.ipos(site), "the task comes from an unchecked lookup: an undefined name yields an empty task that is silently added to the graph")
			continue
		}
		pidx := -1
		for j, q := range p.Parent().Params {
			if q == p {
				pidx = j
			}
		}
		allOK := true
		why := ""
		for _, cs := range c.callersOf(p.Parent()) {
			if pidx >= len(cs.Common().Args) {
				continue
			}
			if !c.keyValidatedAt(cs.Common().Args[pidx], cs) {
				allOK = false
				why = "call at " + c.ipos(cs) + " passes a name that has not been checked against SpokFile.Tasks"
			}
		}
		if allOK {
			r.ok(key, c.ipos(site), "plain lookup of a parameter that every caller has validated")
		} else {
			r.bad(key, c.ipos(site), "an undefined name can reach an unchecked lookup: "+why)
		}
	}
	return r
}

func originsOne(v ssa.Value) ssa.Value {
	os := origins(v)
	if len(os) == 1 {
		return os[0]
	}
	return v
}

func ruleGR5(c *Ctx) *rule {
	r := &rule{ID: "GR5", Engine: "E2+E3", Floor: 1,
		Statement: "every store of a task into SpokFile.Tasks is dominated by the miss edge of a membership test on the same map and key whose hit edge returns an error",
		Necessity: "without it a second definition silently replaces the first and one of the two tasks never runs"}
	n := 0
	for _, f := range c.ModFuncs {
		for _, b := range f.Blocks {
			for _, in := range b.Instrs {
				mu, ok := in.(*ssa.MapUpdate)
				if !ok {
					continue
				}
				isTasks := isFieldLoad(mu.Map, "file.SpokFile.Tasks")
				if !isTasks {
					for _, st := range c.fieldStores()["file.SpokFile.Tasks"] {
						if sameOrigins(st.Val, mu.Map) {
							isTasks = true
						}
					}
				}
				if !isTasks {
					continue
				}
				n++
				key := fmt.Sprintf("%s Tasks[k]=t#%d", fname(f), n)
				fi := c.info(f)
				found := false
				for _, g := range fi.necessaryGuards(b) {
					if g.pol {
						continue
					}
					var hitEdge edge
					matched := false
					if call, ok := g.cond.(*ssa.Call); ok && c.isTaskHitTest(call.Common().StaticCallee()) {
						if len(call.Common().Args) == 2 && samePlace(call.Common().Args[1], mu.Key) {
							matched = true
						}
					}
					if ex, ok := g.cond.(*ssa.Extract); ok && ex.Index == 1 {
						if lk, ok := ex.Tuple.(*ssa.Lookup); ok && samePlace(lk.Index, mu.Key) && (isFieldLoad(lk.X, "file.SpokFile.Tasks") || sameOrigins(lk.X, mu.Map)) {
							matched = true
						}
					}
					if !matched {
						continue
					}
					hitEdge = edge{g.e.from, 1 - g.e.idx}
					if good, _ := c.edgeEndsInError(hitEdge); good {
						found = true
					}
				}
				// the key is the task's own name
				ks := c.newSlicer()
				ks.depth = 0
				keyIsName := ks.run(mu.Key).hasField("task.Task.Name")
				switch {
				case !keyIsName:
					r.bad(key, c.ipos(mu), "the task is not filed under its own Name")
				case found:
					r.ok(key, c.ipos(mu), "stored only after a failed membership test whose hit edge is an error")
				default:
					r.bad(key, c.ipos(mu), "a task can be stored over an existing one of the same name: duplicate definitions are not an error")
				}
			}
		}
	}
	if n == 0 {
		lost("no store into SpokFile.Tasks")
	}
	return r
}

func ruleGR6(c *Ctx) *rule {
	r := &rule{ID: "GR6", Engine: "E2+E3", Floor: 3,
		Statement: "the run loop visits the slice returned by Sort front to back, unmodified, and every iteration that does not return performs exactly one of {run the commands, report skipped} and appends exactly one result",
		Necessity: "a reordered, re-sliced or partially visited order starts a task before its dependencies or leaves one out; two events in one iteration run a task twice"}
	rl := c.runLoop()
	rl.describe(r)
	if rl.loop == nil {
		r.undecided(fname(rl.fn)+" task-loop", c.ipos(rl.X), "the call of (*task.Task).Run is not inside a loop of its function")
		return r
	}
	// the element: *recv = load IndexAddr(S, idx)
	key := fname(rl.fn) + " order<-Sort"
	var ia *ssa.IndexAddr
	if a, ok := rl.recv.(*ssa.Alloc); ok {
		for _, ref := range valueReferrers(a) {
			if st, ok := ref.(*ssa.Store); ok && st.Addr == ssa.Value(a) {
				if u, ok := st.Val.(*ssa.UnOp); ok && u.Op == token.MUL {
					if x, ok := u.X.(*ssa.IndexAddr); ok {
						ia = x
					}
				}
			}
		}
	} else if x, ok := rl.recv.(*ssa.IndexAddr); ok {
		ia = x
	} else {
		// a value receiver: the element itself (a load of &S[idx]), possibly through a local copy
		for _, o := range origins(rl.recv) {
			if u, ok := o.(*ssa.UnOp); ok && u.Op == token.MUL {
				if x, ok := u.X.(*ssa.IndexAddr); ok {
					ia = x
				}
			}
		}
	}
	if ia == nil {
		r.undecided(key, c.ipos(rl.X), "the iterated task is not an element of a slice indexed by the loop")
	} else {
		why := c.traceToSort(ia.X, 3)
		if why == "" {
			r.ok(key, c.ipos(ia), "the iterated slice is the unmodified result of Graph.Sort")
		} else {
			r.bad(key, c.ipos(ia), why)
		}
		// front to back, every element
		key = fname(rl.fn) + " full-forward-range"
		okIdx := false
		for _, p := range rl.loop.headerPhis() {
			if !rl.loop.isInduction(p) {
				continue
			}
			init := int64(99)
			step := int64(0)
			for i, pred := range rl.loop.header.Preds {
				if !rl.loop.body[pred] {
					if n, ok := constInt(p.Edges[i]); ok {
						init = n
					}
				} else if b, ok := p.Edges[i].(*ssa.BinOp); ok && b.Op == token.ADD {
					if n, ok := constInt(b.Y); ok {
						step = n
					}
				}
			}
			idxIsNext := false
			if b, ok := ia.Index.(*ssa.BinOp); ok && b.Op == token.ADD && b.X == ssa.Value(p) {
				if n, ok := constInt(b.Y); ok && n == 1 {
					idxIsNext = true
				}
			}
			if step == 1 && ((init == -1 && idxIsNext) || (init == 0 && ia.Index == ssa.Value(p))) {
				// bound is len(S)
				for _, b := range rl.fn.Blocks {
					if !rl.loop.body[b] {
						continue
					}
					if iff, ok := lastInstr(b).(*ssa.If); ok {
						if bo, ok := iff.Cond.(*ssa.BinOp); ok && bo.Op == token.LSS {
							if cl, ok := bo.Y.(*ssa.Call); ok {
								if bi, ok := cl.Call.Value.(*ssa.Builtin); ok && bi.Name() == "len" && cl.Call.Args[0] == ia.X {
									okIdx = true
								}
							}
						}
					}
				}
			}
		}
		if okIdx {
			r.ok(key, c.ipos(ia), "index runs 0..len-1 in steps of one")
		} else {
			r.bad(key, c.ipos(ia), "the loop does not visit every element of the order front to back")
		}
	}
	// exactly one event per iteration, exactly one append
	var acc *ssa.Phi
	for _, p := range rl.loop.headerPhis() {
		if isNamed(p.Type(), pkgPath("task"), "Results") {
			acc = p
		} else if sl, ok := p.Type().Underlying().(*types.Slice); ok && isNamed(sl.Elem(), pkgPath("task"), "Result") {
			acc = p
		}
	}
	key = fname(rl.fn) + " one-result-per-iteration"
	if acc == nil {
		r.bad(key, c.bpos(rl.loop.header), "no loop-carried accumulator of task results")
	} else {
		bad := ""
		pathBad := c.oneAppendPerWay(rl.fn, rl.loop, acc)
		for i, pred := range rl.loop.header.Preds {
			if !rl.loop.body[pred] || pathBad == "" {
				continue
			}
			// the value carried round: append(acc, <one result>), or a merge (inside the loop) of such appends
			var oneAppend func(v ssa.Value, depth int) bool
			oneAppend = func(v ssa.Value, depth int) bool {
				if phi, ok := v.(*ssa.Phi); ok && depth < 6 && rl.loop.body[phi.Block()] && phi.Block() != rl.loop.header {
					for _, e := range phi.Edges {
						if !oneAppend(e, depth+1) {
							return false
						}
					}
					return len(phi.Edges) > 0
				}
				return isOneAppend(v, acc)
			}
			if !oneAppend(acc.Edges[i], 0) {
				bad = "the back edge from " + c.bpos(pred) + " does not carry append(results, <one result>)"
			}
		}
		if bad == "" {
			r.ok(key, c.ipos(acc), "every way round the loop appends exactly one result")
		} else {
			r.bad(key, c.ipos(acc), bad)
		}
		// the final results returned are the accumulator
		key = fname(rl.fn) + " returns-accumulator"
		okRet := false
		for _, ret := range returnsOf(rl.fn) {
			ev := returnedErr(ret)
			if ev == nil || !mayBeNil(ev, map[ssa.Value]bool{}) || isNilConst(ret.Results[0]) {
				continue // an error return (no results are handed out)
			}
			// the value returned on success: the accumulator itself (error paths of an inlined helper contribute nil)
			good := false
			for _, o := range originsKeepPhi(ret.Results[0], acc) {
				switch {
				case o == ssa.Value(acc):
					good = true
				case isNilConst(o):
				default:
					good = false
					okRet = false
				}
			}
			if good {
				okRet = true
			} else {
				okRet = false
				break
			}
		}
		if okRet {
			r.ok(key, c.ipos(acc), "the results returned are the accumulated ones, in loop order")
		} else {
			r.bad(key, c.ipos(acc), "the successful return does not return the accumulated results unchanged")
		}
	}
	key = fname(rl.fn) + " one-event-per-iteration"
	kBlocks := map[*ssa.BasicBlock]bool{}
	for _, k := range rl.K {
		kBlocks[k.at] = true
	}
	seen := map[string]bool{}
	bad := ""
	var dfs func(b *ssa.BasicBlock, n int, ps *pathState)
	dfs = func(b *ssa.BasicBlock, n int, ps *pathState) {
		if bad != "" {
			return
		}
		k := fmt.Sprintf("%d|%d|%s", b.Index, n, ps.key())
		if seen[k] {
			return
		}
		seen[k] = true
		if kBlocks[b] {
			n++
		}
		for _, in := range b.Instrs {
			for _, x := range rl.Xs {
				if in == ssa.Instruction(x) {
					n++
				}
			}
		}
		if n > 2 {
			n = 2
		}
		for i, nx := range b.Succs {
			_, _, next, ok := ps.branch(b, i)
			if !ok {
				continue
			}
			if nx == rl.loop.header && rl.loop.body[b] {
				if n != 1 {
					bad = fmt.Sprintf("a way round the loop ending at %s performs %d run/skip events", c.bpos(b), n)
				}
				continue
			}
			if !rl.loop.body[nx] {
				continue
			}
			dfs(nx, n, next.enter(nx, b))
		}
	}
	for i, nx := range rl.loop.header.Succs {
		if rl.loop.body[nx] {
			_, _, next, ok := newPathState().branch(rl.loop.header, i)
			if ok {
				dfs(nx, 0, next.enter(nx, rl.loop.header))
			}
		}
	}
	if bad == "" {
		r.ok(key, c.bpos(rl.loop.header), "each iteration that comes back round either runs the task once or reports it skipped once")
	} else {
		r.bad(key, c.bpos(rl.loop.header), bad)
	}
	return r
}

// oneAppendPerWay walks every feasible way round loop l and evaluates, at the back edge, the value that accumulator acc
// takes for the next iteration with the phis resolved along that way: it must be append(acc, <one element>). It returns ""
// when that holds on every way, else a description of the first way on which it does not.
func (c *Ctx) oneAppendPerWay(fn *ssa.Function, l *loopInfo, acc *ssa.Phi) string {
	for i, pred := range l.header.Preds {
		if l.body[pred] {
			registerControlValue(acc.Edges[i], lastInstr(pred))
		}
	}
	fi := c.info(fn)
	_ = fi
	seen := map[string]bool{}
	bad := ""
	var dfs func(b *ssa.BasicBlock, ps *pathState)
	dfs = func(b *ssa.BasicBlock, ps *pathState) {
		if bad != "" {
			return
		}
		k := fmt.Sprintf("%d|%s", b.Index, ps.key())
		if seen[k] {
			return
		}
		seen[k] = true
		for i, nx := range b.Succs {
			_, _, next, ok := ps.branch(b, i)
			if !ok {
				continue
			}
			if nx == l.header && l.body[b] {
				j := predIndex(l.header, b)
				if j < 0 || j >= len(acc.Edges) {
					continue
				}
				v := next.resolve(acc.Edges[j])
				good := false
				if cl, isCall := v.(*ssa.Call); isCall && isOneAppend(v, cl.Call.Args[0]) && next.resolve(cl.Call.Args[0]) == ssa.Value(acc) {
					good = true
				}
				if !good {
					bad = "the way round the loop ending at " + c.bpos(b) + " does not append exactly one result"
				}
				continue
			}
			if !l.body[nx] {
				continue
			}
			dfs(nx, next.enter(nx, b))
		}
	}
	for i, nx := range l.header.Succs {
		if l.body[nx] {
			_, _, next, ok := newPathStateFor(fn).branch(l.header, i)
			if ok {
				dfs(nx, next.enter(nx, l.header))
			}
		}
	}
	return bad
}

// traceToSort follows a slice value back through parameters to the result of Graph.Sort; it returns "" when it is
// the unmodified result, else a reason.
func (c *Ctx) traceToSort(v ssa.Value, depth int) string {
	// no element stores, no sort/reverse calls on it or on an alias of it
	if why := c.sliceMutation(v, 3, map[ssa.Value]bool{}, "the run order"); why != "" {
		return why
	}
	switch x := v.(type) {
	case *ssa.Extract:
		if call, ok := x.Tuple.(*ssa.Call); ok && dagCall(call, "Sort") && x.Index == 0 {
			return ""
		}
		return "the run order does not come from Graph.Sort"
	case *ssa.Parameter:
		if depth == 0 {
			return "cannot trace the run order to Graph.Sort"
		}
		idx := -1
		for i, p := range x.Parent().Params {
			if p == x {
				idx = i
			}
		}
		sites := c.callersOf(x.Parent())
		if len(sites) == 0 {
			return "the run-loop function has no caller"
		}
		for _, s := range sites {
			if idx >= len(s.Common().Args) {
				return "cannot bind the run order at " + c.ipos(s)
			}
			if why := c.traceToSort(s.Common().Args[idx], depth-1); why != "" {
				return why
			}
		}
		return ""
	case *ssa.Slice:
		return "the run order is re-sliced before it is iterated (elements left out)"
	case *ssa.Phi:
		// the merge of an inlined helper's results: nil on its error paths, one real value otherwise
		var only ssa.Value
		for _, e := range x.Edges {
			if isNilConst(e) {
				continue
			}
			if only != nil && only != e {
				return "the run order is chosen among several slices"
			}
			only = e
		}
		if only == nil {
			return "the run order is always nil"
		}
		return c.traceToSort(only, depth)
	case *ssa.Call:
		return "the run order is the result of " + calleeName(x.Common()) + ", not of Graph.Sort directly"
	}
	return "the run order does not come from Graph.Sort"
}

// sliceMutation looks for a place where the elements of slice v (or of a value sharing its backing array: an interface
// holding it, a conversion, a captured copy, the parameter of a module function it is passed to) are overwritten or
// re-ordered. It returns "" when there is none.
func (c *Ctx) sliceMutation(v ssa.Value, depth int, seen map[ssa.Value]bool, noun string) string {
	if seen[v] {
		return ""
	}
	seen[v] = true
	shared := strings.HasSuffix(noun, "\x00shared") // v is a re-slice: it shares the backing array, so append overwrites
	noun = strings.TrimSuffix(noun, "\x00shared")
	sub := noun
	if shared {
		sub = noun + "\x00shared"
	}
	readers := map[string]bool{"Contains": true, "ContainsFunc": true, "Index": true, "IndexFunc": true, "Equal": true, "EqualFunc": true,
		"Max": true, "MaxFunc": true, "Min": true, "MinFunc": true, "BinarySearch": true, "BinarySearchFunc": true, "IsSorted": true, "IsSortedFunc": true,
		"Clone": true, "Values": true, "All": true, "Collect": true, "Compare": true, "CompareFunc": true}
	for _, ref := range valueReferrers(v) {
		switch x := ref.(type) {
		case *ssa.IndexAddr:
			if x.X != v {
				continue
			}
			for _, rr := range valueReferrers(x) {
				if st, ok := rr.(*ssa.Store); ok && st.Addr == ssa.Value(x) {
					return "elements of " + noun + " are overwritten at " + c.ipos(st)
				}
			}
		case *ssa.Slice:
			// a re-slice shares the backing array: appending to it (the `x[:0]` filter idiom) overwrites the elements
			if x.X != v {
				continue
			}
			if why := c.sliceMutation(x, depth, seen, noun+"\x00shared"); why != "" {
				return why
			}
		case *ssa.Phi:
			if why := c.sliceMutation(x, depth, seen, sub); why != "" {
				return why
			}
		case *ssa.MakeInterface, *ssa.ChangeType, *ssa.Convert:
			if why := c.sliceMutation(x.(ssa.Value), depth, seen, sub); why != "" {
				return why
			}
		case *ssa.Store:
			// spilled into a local cell (a variable captured by a closure): every load of the cell is the same slice
			cell, isAlloc := x.Addr.(*ssa.Alloc)
			if x.Val != v || !isAlloc {
				continue
			}
			cells := []ssa.Value{cell}
			for _, cr := range valueReferrers(cell) {
				if mc, ok := cr.(*ssa.MakeClosure); ok {
					if fn, _ := mc.Fn.(*ssa.Function); fn != nil {
						for i, b := range mc.Bindings {
							if b == ssa.Value(cell) && i < len(fn.FreeVars) {
								cells = append(cells, fn.FreeVars[i])
							}
						}
					}
				}
			}
			for _, cl := range cells {
				for _, cr := range valueReferrers(cl) {
					if u, ok := cr.(*ssa.UnOp); ok && u.Op == token.MUL {
						if why := c.sliceMutation(u, depth, seen, sub); why != "" {
							return why
						}
					}
				}
			}
		case *ssa.MakeClosure:
			fn, _ := x.Fn.(*ssa.Function)
			for i, b := range x.Bindings {
				if b == v && fn != nil && i < len(fn.FreeVars) {
					if why := c.sliceMutation(fn.FreeVars[i], depth, seen, sub); why != "" {
						return why
					}
				}
			}
		case ssa.CallInstruction:
			com := x.Common()
			if bi, ok := com.Value.(*ssa.Builtin); ok {
				if bi.Name() == "copy" && len(com.Args) == 2 && com.Args[0] == v {
					return noun + " is overwritten by copy at " + c.ipos(x)
				}
				if bi.Name() == "append" && len(com.Args) > 0 && com.Args[0] == v && shared {
					return "elements of " + noun + " are overwritten by appending to a re-slice of it at " + c.ipos(x)
				}
				if bi.Name() == "append" && len(com.Args) > 0 && com.Args[0] == v {
					// the result still starts with the same elements: follow it as an alias
					if val, ok := x.(ssa.Value); ok {
						if why := c.sliceMutation(val, depth, seen, sub); why != "" {
							return why
						}
					}
				}
				continue
			}
			n := calleeName(com)
			if strings.HasPrefix(n, "sort.") || strings.HasPrefix(n, "math/rand") {
				return noun + " is re-ordered by " + n + " at " + c.ipos(x)
			}
			if strings.HasPrefix(n, "slices.") {
				base := strings.TrimPrefix(n, "slices.")
				if i := strings.IndexByte(base, '['); i >= 0 {
					base = base[:i]
				}
				if !readers[base] {
					return noun + " is re-ordered by " + n + " at " + c.ipos(x)
				}
				continue
			}
			if callee := com.StaticCallee(); callee != nil && inModule(callee) && len(callee.Blocks) > 0 && depth > 0 && !com.IsInvoke() {
				for i, a := range com.Args {
					if a == v && i < len(callee.Params) {
						if why := c.sliceMutation(callee.Params[i], depth-1, seen, sub); why != "" {
							return why
						}
					}
				}
			}
		}
	}
	return ""
}

func ruleGR7(c *Ctx) *rule {
	r := &rule{ID: "GR7", Engine: "E3", Floor: 2,
		Statement: "the vertices added to the graph are named by the requested task names (every element of SpokFile.Run's tasks parameter) and by elements of Task.TaskDependencies; a vertex is added at most once",
		Necessity: "a requested name that never becomes a vertex is a task silently left out; adding one twice is an error from the library or a task run twice"}
	runM := c.method("file", "SpokFile", "Run")
	var tasksP *ssa.Parameter
	for _, p := range runM.Params {
		if sl, ok := p.Type().Underlying().(*types.Slice); ok {
			if b, ok := sl.Elem().Underlying().(*types.Basic); ok && b.Kind() == types.String {
				tasksP = p
			}
		}
	}
	if tasksP == nil {
		lost("SpokFile.Run has no []string tasks parameter")
	}
	sites := c.dagCalls("AddVertex")
	fromReq, fromDeps := false, false
	for i, site := range sites {
		sl := c.newSlicer()
		sl.depth = 3
		res := sl.run(site.Common().Args[1])
		if res.has(tasksP) {
			fromReq = true
		}
		if res.hasField("task.Task.TaskDependencies") {
			fromDeps = true
		}
		// guarded by !ContainsVertex(same key) or error respected
		key := fmt.Sprintf("%s AddVertex#%d once", fname(site.Parent()), i+1)
		fi := c.info(site.Parent())
		guarded := false
		for _, g := range fi.necessaryGuards(site.Block()) {
			if cl, ok := g.cond.(*ssa.Call); ok && dagCall(cl, "ContainsVertex") && !g.pol && samePlace(cl.Common().Args[1], site.Common().Args[1]) {
				guarded = true
			}
		}
		ev := errOfCall(site)
		errOK := false
		if ev != nil {
			errOK, _ = c.errEdgeDischarged(ev)
		}
		switch {
		case guarded && errOK:
			r.ok(key, c.ipos(site), "only added when not yet present; its error is propagated")
		case errOK:
			r.ok(key, c.ipos(site), "a duplicate add is an error that ends the run")
		default:
			r.bad(key, c.ipos(site), "the error of AddVertex is not propagated")
		}
	}
	key := "file.(*SpokFile).Run vertices<-requested"
	if fromReq {
		r.ok(key, c.pos(runM.Pos()), "vertex ids derive from the tasks parameter")
	} else {
		r.bad(key, c.pos(runM.Pos()), "no vertex id derives from the requested task names")
	}
	key = "file.(*SpokFile).Run vertices<-TaskDependencies"
	if fromDeps {
		r.ok(key, c.pos(runM.Pos()), "vertex ids derive from Task.TaskDependencies")
	} else {
		r.bad(key, c.pos(runM.Pos()), "no vertex id derives from Task.TaskDependencies: depended-upon tasks are never added")
	}
	// the request loop covers the whole parameter: the function that receives it ranges over it fully
	for i, site := range c.dagCalls("AddEdge") {
		key := fmt.Sprintf("%s AddEdge#%d err", fname(site.Parent()), i+1)
		ev := errOfCall(site)
		if ev == nil {
			r.bad(key, c.ipos(site), "the error of AddEdge is discarded")
		} else if ok, why := c.errEdgeDischarged(ev); !ok {
			r.bad(key, c.ipos(site), "the error of AddEdge is not propagated: "+why)
		} else {
			r.ok(key, c.ipos(site), "propagated")
		}
	}
	return r
}

func graphProperties() []*propertySpec {
	return []*propertySpec{
		{ID: "C03", Title: "Requested tasks and their transitive dependencies run once, dependencies first",
			Explanation: "Static analysis of the graph builder and the run loop: GR1 proves the dependency discovery has feedback (a reader of Task.TaskDependencies reachable from SpokFile.Run is on a call-graph cycle or in a work-list loop), which is necessary for visiting every graph shape; GR2 proves the direction of every AddEdge by slicing its arguments; GR3 proves every use of the Sort result is dominated by len(order) == graph.Order() with an erroring mismatch edge (the library's Kahn sort silently truncates on cycles); GR4/GR5 prove by edge-dominance that undefined names and duplicate definitions end in errors and that every vertex payload comes from a checked lookup; GR6 proves the run loop visits the unmodified Sort result front to back with exactly one run/skip event and one appended result per iteration; GR7 that vertex ids derive from both the request list and TaskDependencies and library errors are propagated.",
			NotCovered:  []string{"correctness of Kahn's algorithm in collections/dag", "what still runs after a command failure beyond the per-iteration discipline of GR6"},
			Assumptions: []string{"collections/dag v0.10.0: Sort returns each vertex at most once, dependencies first for the acyclic part, and a truncated order with nil error when a cycle coexists with a zero in-degree vertex; AddVertex errors on duplicates; AddEdge errors on unknown ids"},
			Rules:       []func(*Ctx) *rule{ruleGR1, ruleGR2, ruleGR3, ruleGR4, ruleGR5, ruleGR6, ruleGR7, ruleGR8, ruleST7, ruleTK1}},
	}
}

// bindUp follows a parameter to the argument it is bound to when its function has exactly one call site in the module
// (a helper that could not be inlined, e.g. because it is part of a recursion).
func (c *Ctx) bindUp(v ssa.Value) ssa.Value {
	for i := 0; i < 4; i++ {
		var p *ssa.Parameter
		for _, o := range origins(v) {
			if q, ok := o.(*ssa.Parameter); ok {
				p = q
			}
		}
		if p == nil || len(origins(v)) != 1 {
			return v
		}
		sites := c.callersOf(p.Parent())
		if len(sites) != 1 {
			return v
		}
		idx := -1
		for j, q := range p.Parent().Params {
			if q == p {
				idx = j
			}
		}
		if idx < 0 || idx >= len(sites[0].Common().Args) {
			return v
		}
		v = sites[0].Common().Args[idx]
	}
	return v
}

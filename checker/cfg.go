package main

import (
	"fmt"
	"go/token"
	"go/types"
	"sort"
	"strings"

	"golang.org/x/tools/go/ssa"
)

// edge is a CFG edge: successor number idx of block from.
type edge struct {
	from *ssa.BasicBlock
	idx  int
}

func (e edge) to() *ssa.BasicBlock { return e.from.Succs[e.idx] }

// guard is one branch edge of an If together with the (normalised) tested condition:
// the edge is taken exactly when cond evaluates to pol.
type guard struct {
	e    edge
	cond ssa.Value
	pol  bool
}

type loopInfo struct {
	header *ssa.BasicBlock
	body   map[*ssa.BasicBlock]bool
	latchs []*ssa.BasicBlock // sources of back edges
	depth  int
}

type fnInfo struct {
	fn       *ssa.Function
	loops    []*loopInfo
	domEdges map[*ssa.BasicBlock][]edge // block -> branch edges that dominate it
	// feasible-path reachability (see pathState), cached per cut
	reachNoEdge   map[edge]map[*ssa.BasicBlock]bool
	reachNoBlock  map[*ssa.BasicBlock]map[*ssa.BasicBlock]bool
	reachAll      map[*ssa.BasicBlock]bool
	phiLive       map[*ssa.Phi]map[*ssa.BasicBlock]bool // control-relevant phis -> blocks at which they are still needed
	guardCache    map[*ssa.BasicBlock][]guard
	tooManyStates bool // the feasible-path enumeration exceeded its budget once: plain reachability is used from then on
}

func (c *Ctx) info(fn *ssa.Function) *fnInfo {
	return globalInfo(fn)
}

// reach computes the blocks reachable from start without using the edges in cut and without
// entering the blocks in stop (start itself is always included).
func reach(start *ssa.BasicBlock, cut map[edge]bool, stop map[*ssa.BasicBlock]bool) map[*ssa.BasicBlock]bool {
	seen := map[*ssa.BasicBlock]bool{start: true}
	work := []*ssa.BasicBlock{start}
	for len(work) > 0 {
		b := work[len(work)-1]
		work = work[:len(work)-1]
		for i, s := range b.Succs {
			if cut[edge{b, i}] || stop[s] || seen[s] {
				continue
			}
			seen[s] = true
			work = append(work, s)
		}
	}
	return seen
}

// edgeDominates: every path from the function entry to target uses edge e.
func edgeDominates(e edge, target *ssa.BasicBlock) bool {
	fn := e.from.Parent()
	if len(fn.Blocks) == 0 {
		return false
	}
	// an edge whose both branches lead to the same block decides nothing
	if len(e.from.Succs) == 2 && e.from.Succs[0] == e.from.Succs[1] {
		return false
	}
	if target == fn.Blocks[0] {
		return false
	}
	r := reach(fn.Blocks[0], map[edge]bool{e: true}, nil)
	if !r[target] {
		return true
	}
	// path-insensitively reachable without the edge: retry on feasible paths only (correlated error tests of inlined helpers)
	fi := globalInfo(fn)
	if !fi.feasibleAll()[target] {
		return false
	}
	return !fi.feasibleWithoutEdge(e)[target]
}

var infoCache = map[*ssa.Function]*fnInfo{}

// globalInfo is c.info for the free functions of this file.
func globalInfo(fn *ssa.Function) *fnInfo {
	if fi, ok := infoCache[fn]; ok {
		return fi
	}
	fi := &fnInfo{fn: fn, domEdges: map[*ssa.BasicBlock][]edge{}}
	fi.findLoops()
	infoCache[fn] = fi
	return fi
}

// normCond strips negations: returns the underlying value and the polarity under which the
// original value v is `pol`.
func normCond(v ssa.Value, pol bool) (ssa.Value, bool) {
	for {
		u, ok := v.(*ssa.UnOp)
		if !ok || u.Op != token.NOT {
			return v, pol
		}
		v, pol = u.X, !pol
	}
}

// necessaryGuards returns every If edge that dominates block b, with its condition and polarity.
func (fi *fnInfo) necessaryGuards(b *ssa.BasicBlock) []guard {
	if gs, ok := fi.guardCache[b]; ok {
		return gs
	}
	gs := fi.necessaryGuardsUncached(b)
	if fi.guardCache == nil {
		fi.guardCache = map[*ssa.BasicBlock][]guard{}
	}
	fi.guardCache[b] = gs
	return gs
}

func (fi *fnInfo) necessaryGuardsUncached(b *ssa.BasicBlock) []guard {
	var out []guard
	for _, blk := range fi.fn.Blocks {
		iff, ok := lastInstr(blk).(*ssa.If)
		if !ok {
			continue
		}
		for i := 0; i < 2; i++ {
			e := edge{blk, i}
			if edgeDominates(e, b) {
				cond, pol := normCond(iff.Cond, i == 0)
				out = append(out, guard{e, cond, pol})
			}
		}
	}
	return fi.expandGuards(out)
}

// expandGuards looks through boolean phis (how go/ssa lowers `a && b` / `a || b` used as values): a guard
// "phi == p" whose only incoming edge that can carry p is edge i implies the guards of that edge and "value_i == p".
func (fi *fnInfo) expandGuards(gs []guard) []guard {
	seen := map[ssa.Value]bool{}
	for i := 0; i < len(gs); i++ {
		g := gs[i]
		// "callee == f" (made by the canonicaliser for a call through a phi of functions): the guards of the one
		// incoming edge that carries f (or, negated with two alternatives, of the one that does not)
		if x, fn, isFT := funcEqTest(g.cond); isFT && !seen[g.cond] {
			seen[g.cond] = true
			if phi, isPhi := x.(*ssa.Phi); isPhi {
				feasible, n := -1, 0
				for j, ev := range phi.Edges {
					if (funcConstOf(ev) == fn) == g.pol && funcConstOf(ev) != nil {
						feasible = j
						n++
					} else if funcConstOf(ev) == nil {
						n = 99
					}
				}
				if n == 1 {
					pred := phi.Block().Preds[feasible]
					gs = append(gs, fi.rawGuardsOfEdge(edge{pred, succIndex(pred, phi.Block())})...)
				}
			}
			continue
		}
		phi, ok := g.cond.(*ssa.Phi)
		if !ok || seen[phi] {
			continue
		}
		seen[phi] = true
		feasible := -1
		n := 0
		for j, ev := range phi.Edges {
			if b, isC := constBool(ev); isC && b != g.pol {
				continue
			}
			feasible = j
			n++
		}
		if n != 1 {
			continue
		}
		pred := phi.Block().Preds[feasible]
		e := edge{pred, succIndex(pred, phi.Block())}
		for _, ng := range fi.rawGuardsOfEdge(e) {
			gs = append(gs, ng)
		}
		if _, isC := phi.Edges[feasible].(*ssa.Const); !isC {
			cond, pol := normCond(phi.Edges[feasible], g.pol)
			gs = append(gs, guard{e, cond, pol})
		}
	}
	return gs
}

// searchTest recognises a condition that asks whether a collection has an element satisfying a predicate:
// slices.ContainsFunc(coll, pred) or slices.IndexFunc(coll, pred) compared with 0 / -1. found is the truth value of
// (cond == pol) that means "an element satisfies pred".
func searchTest(cond ssa.Value, pol bool) (coll ssa.Value, pred *ssa.Function, found bool, ok bool) {
	cond, pol = normCond(cond, pol)
	var call *ssa.Call
	if bo, isB := cond.(*ssa.BinOp); isB {
		cl, isCall := bo.X.(*ssa.Call)
		n, isC := constInt(bo.Y)
		if !isCall || !isC || !strings.HasPrefix(calleeName(cl.Common()), "slices.IndexFunc") {
			return nil, nil, false, false
		}
		switch {
		case (bo.Op == token.LSS && n == 0) || (bo.Op == token.EQL && n == -1) || (bo.Op == token.LEQ && n == -1):
			found = !pol
		case (bo.Op == token.GEQ && n == 0) || (bo.Op == token.NEQ && n == -1) || (bo.Op == token.GTR && n == -1):
			found = pol
		default:
			return nil, nil, false, false
		}
		call = cl
	} else if cl, isCall := cond.(*ssa.Call); isCall && strings.HasPrefix(calleeName(cl.Common()), "slices.ContainsFunc") {
		call, found = cl, pol
	}
	if call == nil || len(call.Common().Args) != 2 {
		return nil, nil, false, false
	}
	for _, o := range origins(call.Common().Args[1]) {
		switch x := o.(type) {
		case *ssa.Function:
			pred = x
		case *ssa.MakeClosure:
			pred, _ = x.Fn.(*ssa.Function)
		}
	}
	pred = boundMethod(pred)
	if pred == nil || len(pred.Blocks) == 0 {
		return nil, nil, false, false
	}
	return call.Common().Args[0], pred, found, true
}

// boundMethod: for the synthetic wrapper of a method value (x.m used as a function) the method itself, else f.
func boundMethod(f *ssa.Function) *ssa.Function {
	if f == nil || !strings.HasPrefix(f.Synthetic, "bound method wrapper") || len(f.Blocks) != 1 {
		return f
	}
	for _, in := range f.Blocks[0].Instrs {
		if call, ok := in.(*ssa.Call); ok {
			if m := call.Call.StaticCallee(); m != nil {
				return m
			}
		}
	}
	return f
}

// predElem: the parameter of a predicate that receives the element (the last one; a method has its receiver first).
func predElem(pred *ssa.Function) ssa.Value {
	if len(pred.Params) == 0 {
		return nil
	}
	return pred.Params[len(pred.Params)-1]
}

// trueGuardSets: for a predicate function, one guard set per way it can return true (the guards of the return plus,
// for a non-constant result, the result itself being true, looked through && / || lowering).
func (c *Ctx) trueGuardSets(pred *ssa.Function) [][]guard { return c.resultGuardSets(pred, true) }

// resultGuardSets: one guard set per way the boolean function can return `want`.
func (c *Ctx) resultGuardSets(pred *ssa.Function, want bool) [][]guard {
	fi := c.info(pred)
	var out [][]guard
	for _, ret := range returnsOf(pred) {
		if len(ret.Results) != 1 {
			continue
		}
		if b, isC := constBool(ret.Results[0]); isC && b != want {
			continue
		}
		gs := append([]guard{}, fi.necessaryGuards(ret.Block())...)
		if _, isC := ret.Results[0].(*ssa.Const); !isC {
			cond, pol := normCond(ret.Results[0], want)
			gs = append(gs, guard{edge{ret.Block(), 0}, cond, pol})
		}
		out = append(out, fi.expandGuards(gs))
	}
	return out
}

// closuresOf: f and the function literals made in it (transitively).
func closuresOf(f *ssa.Function) []*ssa.Function {
	out := []*ssa.Function{f}
	seen := map[*ssa.Function]bool{f: true}
	for i := 0; i < len(out); i++ {
		for _, b := range out[i].Blocks {
			for _, in := range b.Instrs {
				if mc, ok := in.(*ssa.MakeClosure); ok {
					g, _ := mc.Fn.(*ssa.Function)
					if g = boundMethod(g); g != nil && !seen[g] && len(g.Blocks) > 0 {
						seen[g] = true
						out = append(out, g)
					}
				}
			}
		}
	}
	return out
}

func (fi *fnInfo) rawGuardsOfEdge(e edge) []guard {
	var out []guard
	for _, blk := range fi.fn.Blocks {
		iff, ok := lastInstr(blk).(*ssa.If)
		if !ok {
			continue
		}
		for i := 0; i < 2; i++ {
			ed := edge{blk, i}
			if ed == e && blk.Succs[0] != blk.Succs[1] {
				cond, pol := normCond(iff.Cond, i == 0)
				out = append(out, guard{ed, cond, pol})
				continue
			}
			if edgeDominates(ed, e.from) {
				cond, pol := normCond(iff.Cond, i == 0)
				out = append(out, guard{ed, cond, pol})
			}
		}
	}
	return out
}

// branchCond resolves the condition of the If ending block b for the path that entered b from prev: a phi of b is
// replaced by its operand for that edge. It returns the normalised condition and the polarity under which successor
// i is taken; feasible is false when the operand is a constant that rules successor i out.
func branchCond(b, prev *ssa.BasicBlock, i int) (cond ssa.Value, pol bool, feasible bool) {
	iff, ok := lastInstr(b).(*ssa.If)
	if !ok {
		return nil, false, true
	}
	cond, pol = normCond(iff.Cond, i == 0)
	for depth := 0; depth < 4; depth++ {
		phi, ok := cond.(*ssa.Phi)
		if !ok || phi.Block() != b || prev == nil {
			break
		}
		j := predIndex(b, prev)
		if j < 0 {
			break
		}
		cond, pol = normCond(phi.Edges[j], pol)
	}
	if bv, isC := constBool(cond); isC {
		return cond, pol, bv == pol
	}
	return cond, pol, true
}

// guardsOfEdge returns the necessary guards of traversing the edge pred->succ (used for phi operands).
func (fi *fnInfo) guardsOfEdge(e edge) []guard {
	out := fi.necessaryGuards(e.from)
	if iff, ok := lastInstr(e.from).(*ssa.If); ok && e.from.Succs[0] != e.from.Succs[1] {
		cond, pol := normCond(iff.Cond, e.idx == 0)
		out = append(out, guard{e, cond, pol})
	}
	return out
}

func lastInstr(b *ssa.BasicBlock) ssa.Instruction {
	if len(b.Instrs) == 0 {
		return nil
	}
	return b.Instrs[len(b.Instrs)-1]
}

func predIndex(b, pred *ssa.BasicBlock) int {
	for i, p := range b.Preds {
		if p == pred {
			return i
		}
	}
	return -1
}

func succIndex(b, succ *ssa.BasicBlock) int {
	for i, s := range b.Succs {
		if s == succ {
			return i
		}
	}
	return -1
}

func (fi *fnInfo) findLoops() {
	dominatesFastOnly = true
	defer func() { dominatesFastOnly = false }()
	byHeader := map[*ssa.BasicBlock]*loopInfo{}
	for _, b := range fi.fn.Blocks {
		for _, s := range b.Succs {
			if dominates(s, b) { // back edge b -> s
				li := byHeader[s]
				if li == nil {
					li = &loopInfo{header: s, body: map[*ssa.BasicBlock]bool{s: true}}
					byHeader[s] = li
					fi.loops = append(fi.loops, li)
				}
				li.latchs = append(li.latchs, b)
				// natural loop: everything that reaches b without passing s
				work := []*ssa.BasicBlock{b}
				for len(work) > 0 {
					x := work[len(work)-1]
					work = work[:len(work)-1]
					if li.body[x] {
						continue
					}
					li.body[x] = true
					work = append(work, x.Preds...)
				}
			}
		}
	}
	for _, l := range fi.loops {
		for _, m := range fi.loops {
			if l != m && m.body[l.header] {
				l.depth++
			}
		}
	}
	sort.Slice(fi.loops, func(i, j int) bool { return fi.loops[i].header.Index < fi.loops[j].header.Index })
}

// innermostLoop returns the innermost natural loop containing b, or nil.
func (fi *fnInfo) innermostLoop(b *ssa.BasicBlock) *loopInfo {
	var best *loopInfo
	for _, l := range fi.loops {
		if l.body[b] && (best == nil || l.depth > best.depth) {
			best = l
		}
	}
	return best
}

// loopsContaining returns all loops containing b, outermost first.
func (fi *fnInfo) loopsContaining(b *ssa.BasicBlock) []*loopInfo {
	var out []*loopInfo
	for _, l := range fi.loops {
		if l.body[b] {
			out = append(out, l)
		}
	}
	sort.Slice(out, func(i, j int) bool { return out[i].depth < out[j].depth })
	return out
}

func (l *loopInfo) isBackEdge(e edge) bool {
	return e.to() == l.header && l.body[e.from]
}

// headerPhis returns the phis of the loop header (the loop-carried state).
func (l *loopInfo) headerPhis() []*ssa.Phi {
	var out []*ssa.Phi
	for _, i := range l.header.Instrs {
		if p, ok := i.(*ssa.Phi); ok {
			out = append(out, p)
		} else {
			break
		}
	}
	return out
}

// isInduction: phi updated by +const on every back edge and initialised by a constant.
func (l *loopInfo) isInduction(p *ssa.Phi) bool {
	for i, pred := range l.header.Preds {
		v := p.Edges[i]
		if l.body[pred] {
			b, ok := v.(*ssa.BinOp)
			if !ok || (b.Op != token.ADD && b.Op != token.SUB) {
				return false
			}
			if b.X != ssa.Value(p) {
				return false
			}
			if _, ok := b.Y.(*ssa.Const); !ok {
				return false
			}
		}
	}
	return true
}

// region is an acyclic view of one loop iteration (or of a whole loop-free function): the blocks of the
// loop, with back edges to the header and loop exits redirected to a virtual end node.
type region struct {
	fi     *fnInfo
	loop   *loopInfo // nil: whole function
	blocks []*ssa.BasicBlock
	in     map[*ssa.BasicBlock]bool
	entry  *ssa.BasicBlock
	pdom   map[*ssa.BasicBlock]map[*ssa.BasicBlock]bool // b -> set of post-dominators (within region; nil key = virtual end)
}

func (fi *fnInfo) regionOf(l *loopInfo) *region {
	r := &region{fi: fi, loop: l, in: map[*ssa.BasicBlock]bool{}}
	if l == nil {
		r.blocks = fi.fn.Blocks
		r.entry = fi.fn.Blocks[0]
	} else {
		for _, b := range fi.fn.Blocks {
			if l.body[b] {
				r.blocks = append(r.blocks, b)
			}
		}
		r.entry = l.header
	}
	for _, b := range r.blocks {
		r.in[b] = true
	}
	return r
}

// succs returns the intra-iteration successors of b; a nil entry stands for the virtual end
// (back edge, loop exit, or function exit).
func (r *region) succs(b *ssa.BasicBlock) []*ssa.BasicBlock {
	if len(b.Succs) == 0 {
		return []*ssa.BasicBlock{nil}
	}
	out := make([]*ssa.BasicBlock, len(b.Succs))
	for i, s := range b.Succs {
		switch {
		case !r.in[s]:
			out[i] = nil
		case r.loop != nil && s == r.loop.header:
			out[i] = nil
		case r.loop == nil && dominates(s, b) && false:
			out[i] = nil
		default:
			out[i] = s
		}
	}
	return out
}

// postdoms computes, for every block of the region, the set of blocks that post-dominate it
// (all paths to the virtual end pass through them). Inner loops are handled by plain fixpoint iteration.
func (r *region) postdoms() map[*ssa.BasicBlock]map[*ssa.BasicBlock]bool {
	if r.pdom != nil {
		return r.pdom
	}
	all := map[*ssa.BasicBlock]bool{}
	for _, b := range r.blocks {
		all[b] = true
	}
	pd := map[*ssa.BasicBlock]map[*ssa.BasicBlock]bool{}
	for _, b := range r.blocks {
		s := map[*ssa.BasicBlock]bool{}
		for k := range all {
			s[k] = true
		}
		pd[b] = s
	}
	changed := true
	for changed {
		changed = false
		for i := len(r.blocks) - 1; i >= 0; i-- {
			b := r.blocks[i]
			var inter map[*ssa.BasicBlock]bool
			first := true
			for _, s := range r.succs(b) {
				var set map[*ssa.BasicBlock]bool
				if s == nil {
					set = map[*ssa.BasicBlock]bool{}
				} else {
					set = pd[s]
				}
				if first {
					inter = map[*ssa.BasicBlock]bool{}
					for k := range set {
						inter[k] = true
					}
					first = false
				} else {
					for k := range inter {
						if !set[k] {
							delete(inter, k)
						}
					}
				}
			}
			if inter == nil {
				inter = map[*ssa.BasicBlock]bool{}
			}
			inter[b] = true
			if len(inter) != len(pd[b]) {
				pd[b] = inter
				changed = true
			}
		}
	}
	r.pdom = pd
	return pd
}

// controlDeps returns the branch blocks (ending in If) of the region on which block b is transitively
// control dependent within one iteration.
func (r *region) controlDeps(b *ssa.BasicBlock) []*ssa.BasicBlock {
	pd := r.postdoms()
	direct := func(x *ssa.BasicBlock) []*ssa.BasicBlock {
		var out []*ssa.BasicBlock
		for _, a := range r.blocks {
			if _, ok := lastInstr(a).(*ssa.If); !ok {
				continue
			}
			if a != x && pd[a][x] {
				continue // x post-dominates a: no dependence
			}
			for _, s := range r.succs(a) {
				if s != nil && (s == x || pd[s][x]) {
					out = append(out, a)
					break
				}
			}
		}
		return out
	}
	seen := map[*ssa.BasicBlock]bool{}
	var order []*ssa.BasicBlock
	work := []*ssa.BasicBlock{b}
	visited := map[*ssa.BasicBlock]bool{b: true}
	for len(work) > 0 {
		x := work[len(work)-1]
		work = work[:len(work)-1]
		for _, a := range direct(x) {
			if !seen[a] {
				seen[a] = true
				order = append(order, a)
			}
			if !visited[a] {
				visited[a] = true
				work = append(work, a)
			}
		}
	}
	sort.Slice(order, func(i, j int) bool { return order[i].Index < order[j].Index })
	return order
}

// isNilConst reports whether v is the constant nil (of any type).
func isNilConst(v ssa.Value) bool {
	c, ok := v.(*ssa.Const)
	return ok && c.Value == nil && !isBasicZeroable(c.Type())
}

func isBasicZeroable(t types.Type) bool {
	switch u := t.Underlying().(type) {
	case *types.Basic:
		return u.Kind() != types.UntypedNil
	case *types.Struct, *types.Array:
		return true
	}
	return false
}

// errNilTest recognises `x != nil` / `x == nil` on a value of type error and returns x and whether
// the condition being true means x is non-nil.
func errNilTest(cond ssa.Value) (ssa.Value, bool, bool) {
	b, ok := cond.(*ssa.BinOp)
	if !ok || (b.Op != token.NEQ && b.Op != token.EQL) {
		return nil, false, false
	}
	var x ssa.Value
	switch {
	case isNilConst(b.Y):
		x = b.X
	case isNilConst(b.X):
		x = b.Y
	default:
		return nil, false, false
	}
	return x, b.Op == token.NEQ, true
}

func isErrorType(t types.Type) bool {
	n, ok := t.(*types.Named)
	return ok && n.Obj().Pkg() == nil && n.Obj().Name() == "error"
}

// returnsOf lists the Return instructions of fn.
func returnsOf(fn *ssa.Function) []*ssa.Return {
	var out []*ssa.Return
	for _, b := range fn.Blocks {
		if r, ok := lastInstr(b).(*ssa.Return); ok {
			out = append(out, r)
		}
	}
	return out
}

// errResultIndex returns the index of the (last) error result of fn, or -1.
func errResultIndex(fn *ssa.Function) int {
	res := fn.Signature.Results()
	for i := res.Len() - 1; i >= 0; i-- {
		if isErrorType(res.At(i).Type()) {
			return i
		}
	}
	return -1
}

// returnedErr gives the error value a Return yields, looking through the defer result cell
// (`*t0 = err; rundefers; return *t0` is how functions with defers return named results).
func returnedErr(r *ssa.Return) ssa.Value {
	idx := errResultIndex(r.Parent())
	if idx < 0 || idx >= len(r.Results) {
		return nil
	}
	v := r.Results[idx]
	if u, ok := v.(*ssa.UnOp); ok && u.Op == token.MUL {
		if a, ok := u.X.(*ssa.Alloc); ok {
			// last store to the cell in the returning block, else any unique store
			var last ssa.Value
			for _, i := range r.Block().Instrs {
				if st, ok := i.(*ssa.Store); ok && st.Addr == ssa.Value(a) {
					last = st.Val
				}
			}
			if last != nil {
				return last
			}
		}
	}
	return v
}

// errEdgeDischarged checks the discipline "a non-nil error ends in a non-nil error return":
// for the error value errv, some If tests it against nil and, on the non-nil edge, every reachable block is
// dominated by that edge and every Return there yields a non-nil error; or errv is returned directly as the
// function's error result. It returns ok=false with a reason otherwise.
func (c *Ctx) errEdgeDischarged(errv ssa.Value) (bool, string) {
	var fn *ssa.Function
	if i, ok := errv.(ssa.Instruction); ok {
		fn = i.Parent()
	}
	if fn == nil {
		return false, "error value is not an instruction"
	}
	tested := false
	// the error may live in a cell (a named result captured by a deferred closure): the loads that follow the store in the same
	// block, before the cell is written again, are the same error
	refs := append([]ssa.Instruction(nil), valueReferrers(errv)...)
	for _, ref := range valueReferrers(errv) {
		st, isStore := ref.(*ssa.Store)
		if !isStore || st.Val != errv {
			continue
		}
		if _, isCell := st.Addr.(*ssa.Alloc); !isCell {
			continue
		}
		after := false
		for _, in := range st.Block().Instrs {
			if in == ssa.Instruction(st) {
				after = true
				continue
			}
			if !after {
				continue
			}
			if st2, ok := in.(*ssa.Store); ok && st2.Addr == st.Addr {
				break
			}
			if u, ok := in.(*ssa.UnOp); ok && u.Op == token.MUL && u.X == st.Addr {
				refs = append(refs, valueReferrers(u)...)
				for _, ur := range valueReferrers(u) {
					if ret, isRet := ur.(*ssa.Return); isRet && (returnedErr(ret) == ssa.Value(u) || containsVal(ret.Results, u)) {
						tested = true
					}
				}
			}
		}
	}
	for _, ref := range refs {
		switch r := ref.(type) {
		case *ssa.Return:
			if returnedErr(r) == errv || containsVal(r.Results, errv) {
				tested = true
			}
		case *ssa.Store:
			// store into the defer result cell: fine if the block returns it
			if ret, ok := lastInstr(r.Block()).(*ssa.Return); ok && returnedErr(ret) == errv {
				tested = true
			}
		case *ssa.BinOp:
			x, nonNilWhenTrue, ok := errNilTest(r)
			if !ok || (x != errv && !loadOfCellHolding(x, errv)) {
				continue
			}
			for _, rr := range valueReferrers(r) {
				iff, ok := rr.(*ssa.If)
				if !ok {
					// condition used as a value (e.g. `ok := err == nil`): not understood
					continue
				}
				idx := 1
				if nonNilWhenTrue {
					idx = 0
				}
				e := edge{iff.Block(), idx}
				if ok, why := c.edgeEndsInError(e); !ok {
					return false, why
				}
				tested = true
			}
		}
	}
	if !tested {
		return false, "the error is never tested against nil nor returned"
	}
	return true, ""
}

// loadOfCellHolding: x is a load of a local cell in which errv was stored earlier in the same block (no store in between).
func loadOfCellHolding(x, errv ssa.Value) bool {
	u, ok := x.(*ssa.UnOp)
	if !ok || u.Op != token.MUL {
		return false
	}
	cell, ok := u.X.(*ssa.Alloc)
	if !ok {
		return false
	}
	holds := false
	for _, in := range u.Block().Instrs {
		if in == ssa.Instruction(u) {
			return holds
		}
		if st, isSt := in.(*ssa.Store); isSt && st.Addr == ssa.Value(cell) {
			holds = st.Val == errv
		}
	}
	return false
}

func containsVal(vs []ssa.Value, v ssa.Value) bool {
	for _, x := range vs {
		if x == v {
			return true
		}
	}
	return false
}

// edgeEndsInError: every way on from edge e ends the function with a non-nil error: every Return reachable from the
// edge's target (on feasible paths: phi operands and repeated conditions are tracked along the path, which matters once
// helpers that return (value, error) have been inlined) yields a non-nil error, and at least one exit is reachable.
// Panic / os.Exit blocks are accepted as failing exits.
func (c *Ctx) edgeEndsInError(e edge) (bool, string) {
	start := e.to()
	exits := 0
	bad := ""
	seen := map[string]bool{}
	var dfs func(b *ssa.BasicBlock, ps *pathState)
	dfs = func(b *ssa.BasicBlock, ps *pathState) {
		if bad != "" {
			return
		}
		k := fmt.Sprintf("%d|%s", b.Index, ps.key())
		if seen[k] {
			return
		}
		seen[k] = true
		if len(seen) > feasibleStateBudget {
			bad = "too many path states to enumerate from " + c.bpos(start)
			return
		}
		for _, in := range b.Instrs {
			if site, ok := in.(ssa.CallInstruction); ok && calleeName(site.Common()) == "os.Exit" {
				exits++
				return
			}
		}
		switch last := lastInstr(b).(type) {
		case *ssa.Return:
			exits++
			ev := returnedErr(last)
			if ev == nil {
				bad = "function has no error result at " + c.ipos(last)
				return
			}
			if ps.mayBeNil(ev) {
				bad = "a nil error can be returned on the failure path at " + c.ipos(last)
			}
			return
		case *ssa.Panic:
			exits++
			return
		}
		for i, s := range b.Succs {
			_, _, next, feasible := ps.branch(b, i)
			if !feasible {
				continue
			}
			dfs(s, next.enter(s, b))
		}
	}
	ps := newPathStateFor(e.from.Parent())
	ps = ps.seedFromGuards(e.from)
	// the edge itself fixes the outcome of its own condition
	if _, _, next, feasible := ps.branch(e.from, e.idx); feasible {
		ps = next
	}
	dfs(start, ps.enter(start, e.from))
	if bad != "" {
		return false, bad
	}
	if exits == 0 {
		return false, "the failure path never leaves the function (" + c.bpos(start) + ")"
	}
	return true, ""
}

// mayBeNil: the error value is the constant nil, or a phi one of whose operands may be.
func mayBeNil(v ssa.Value, seen map[ssa.Value]bool) bool {
	if seen[v] {
		return false
	}
	seen[v] = true
	if isNilConst(v) {
		return true
	}
	if phi, ok := v.(*ssa.Phi); ok {
		for _, e := range phi.Edges {
			if mayBeNil(e, seen) {
				return true
			}
		}
	}
	return false
}

// stepAssume takes successor i of block b (entered from prev) under the branch outcomes assumed so far; it returns the
// extended assumptions, or ok=false when the edge contradicts an earlier branch on the same condition (same boolean
// parameter, or the same ==/!= comparison over identical SSA operands) or is ruled out by a constant.
func stepAssume(assume map[string]bool, b, prev *ssa.BasicBlock, i int) (map[string]bool, bool) {
	cond, pol, feasible := branchCond(b, prev, i)
	if !feasible {
		return assume, false
	}
	if cond == nil {
		return assume, true
	}
	k, kpol := condKey(cond, pol)
	if k == "" {
		return assume, true
	}
	if v, ok := assume[k]; ok {
		return assume, v == kpol
	}
	as := make(map[string]bool, len(assume)+1)
	for kk, vv := range assume {
		as[kk] = vv
	}
	as[k] = kpol
	return as, true
}

// ---- dominators (own computation: the canonicaliser replaces function bodies, so ssa's dominator fields are stale) ----

var domCache = map[*ssa.Function]map[*ssa.BasicBlock]map[*ssa.BasicBlock]bool{}

func domSets(fn *ssa.Function) map[*ssa.BasicBlock]map[*ssa.BasicBlock]bool {
	if d, ok := domCache[fn]; ok && len(d) == len(fn.Blocks) {
		return d
	}
	blocks := fn.Blocks
	n := len(blocks)
	idx := map[*ssa.BasicBlock]int{}
	for i, b := range blocks {
		idx[b] = i
	}
	words := (n + 63) / 64
	full := make([]uint64, words)
	for i := 0; i < n; i++ {
		full[i/64] |= 1 << uint(i%64)
	}
	dom := make([][]uint64, n)
	for i := range dom {
		dom[i] = append([]uint64(nil), full...)
	}
	if n > 0 {
		dom[0] = make([]uint64, words)
		dom[0][0] = 1
	}
	order := rpo(blocks)
	changed := true
	for changed {
		changed = false
		for _, b := range order {
			i := idx[b]
			if i == 0 {
				continue
			}
			cur := append([]uint64(nil), full...)
			any := false
			for _, p := range b.Preds {
				pi, ok := idx[p]
				if !ok {
					continue
				}
				any = true
				for w := range cur {
					cur[w] &= dom[pi][w]
				}
			}
			if !any {
				cur = make([]uint64, words)
			}
			cur[i/64] |= 1 << uint(i%64)
			for w := range cur {
				if cur[w] != dom[i][w] {
					dom[i] = cur
					changed = true
					break
				}
			}
		}
	}
	out := map[*ssa.BasicBlock]map[*ssa.BasicBlock]bool{}
	for i, b := range blocks {
		m := map[*ssa.BasicBlock]bool{}
		for j, a := range blocks {
			if dom[i][j/64]&(1<<uint(j%64)) != 0 {
				m[a] = true
			}
		}
		out[b] = m
	}
	domCache[fn] = out
	return out
}

// dominates: every path from the entry to b passes through a (a == b counts).
func dominates(a, b *ssa.BasicBlock) bool {
	if a == nil || b == nil || a.Parent() != b.Parent() {
		return false
	}
	if domSets(a.Parent())[b][a] {
		return true
	}
	if a == b {
		return true
	}
	if dominatesFastOnly {
		return false
	}
	fi := globalInfo(a.Parent())
	if !fi.feasibleAll()[b] {
		return false
	}
	return !fi.feasibleAvoiding(a)[b]
}

// dominatesFastOnly is set while loops are being discovered (back edges are a purely structural notion).
var dominatesFastOnly bool

// ---- path state: light path sensitivity for the path searches ------------------------------------------------------------

// pathState carries what is known along one path of a search: the operand that each boolean / error / pointer phi took when
// its block was entered, and the outcome of conditions whose repeated evaluation must agree (same boolean parameter, the
// same ==/!= comparison over identical operands).
type pathState struct {
	phi    map[*ssa.Phi]ssa.Value
	assume map[string]bool
	fi     *fnInfo // when set, only control-relevant phis are tracked and bindings are dropped once they cannot matter
}

func newPathState() *pathState {
	return &pathState{phi: map[*ssa.Phi]ssa.Value{}, assume: map[string]bool{}}
}

func (p *pathState) key() string {
	var ks []string
	for k, v := range p.phi {
		ks = append(ks, k.Name()+"="+valKey(v))
	}
	for k, v := range p.assume {
		ks = append(ks, fmt.Sprintf("%s=%v", k, v))
	}
	sort.Strings(ks)
	return strings.Join(ks, ";")
}

func valKey(v ssa.Value) string {
	if c, ok := v.(*ssa.Const); ok {
		return c.String()
	}
	return v.Name()
}

func trackedPhi(p *ssa.Phi) bool {
	switch t := p.Type().Underlying().(type) {
	case *types.Basic:
		return t.Info()&types.IsBoolean != 0
	case *types.Interface, *types.Pointer:
		return true
	}
	return false
}

// resolve follows the phi bindings of the path.
func (p *pathState) resolve(v ssa.Value) ssa.Value {
	for i := 0; i < 16; i++ {
		phi, ok := v.(*ssa.Phi)
		if !ok {
			return v
		}
		n, ok := p.phi[phi]
		if !ok {
			return v
		}
		v = n
	}
	return v
}

// enter returns the state after moving along prev -> b.
func (p *pathState) enter(b, prev *ssa.BasicBlock) *pathState {
	if prev == nil {
		return p
	}
	j := predIndex(b, prev)
	if j < 0 {
		return p
	}
	var out *pathState
	clone := func() {
		if out == nil {
			out = &pathState{phi: make(map[*ssa.Phi]ssa.Value, len(p.phi)+2), assume: p.assume, fi: p.fi}
			for k, v := range p.phi {
				out.phi[k] = v
			}
		}
	}
	var live map[*ssa.Phi]map[*ssa.BasicBlock]bool
	if p.fi != nil {
		live = p.fi.controlPhis()
		for k := range p.phi {
			if !live[k][b] {
				clone()
				delete(out.phi, k)
			}
		}
	}
	for _, in := range b.Instrs {
		phi, ok := in.(*ssa.Phi)
		if !ok {
			break
		}
		if j >= len(phi.Edges) {
			continue
		}
		if live != nil {
			if live[phi] == nil {
				continue // not relevant to any branch, return or registered use
			}
		} else if !trackedPhi(phi) {
			continue
		}
		clone()
		out.phi[phi] = p.resolve(phi.Edges[j])
	}
	if out == nil {
		return p
	}
	return out
}

// definitelyNonNil: the value is a freshly built error / interface / pointer.
func definitelyNonNil(v ssa.Value) bool {
	switch x := v.(type) {
	case *ssa.MakeInterface, *ssa.Alloc, *ssa.MakeClosure, *ssa.MakeMap, *ssa.MakeSlice, *ssa.FieldAddr, *ssa.IndexAddr:
		return true
	case *ssa.Call:
		switch calleeName(x.Common()) {
		case "fmt.Errorf", "errors.New", "errors.Join":
			return true
		}
	}
	return false
}

// branch evaluates taking successor i of block b: it returns the condition with phis resolved along the path and negations
// stripped, the polarity under which the successor is taken, the extended state, and whether the edge is feasible.
func (p *pathState) branch(b *ssa.BasicBlock, i int) (ssa.Value, bool, *pathState, bool) {
	iff, ok := lastInstr(b).(*ssa.If)
	if !ok {
		return nil, false, p, true
	}
	cond, pol := normCond(iff.Cond, i == 0)
	for k := 0; k < 8; k++ {
		r := p.resolve(cond)
		if r == cond {
			break
		}
		cond, pol = normCond(r, pol)
	}
	if bv, isC := constBool(cond); isC {
		return cond, pol, p, bv == pol
	}
	if x, fn, isFT := funcEqTest(cond); isFT {
		if got := funcConstOf(p.resolve(x)); got != nil {
			return cond, pol, p, (got == fn) == pol
		}
	}
	if x, nonNilWhenTrue, isNilTest := errNilTest(cond); isNilTest {
		rx := p.resolve(x)
		if isNilConst(rx) {
			// x is nil: the condition "x != nil" is false
			return cond, pol, p, nonNilWhenTrue != pol
		}
		if definitelyNonNil(rx) {
			return cond, pol, p, nonNilWhenTrue == pol
		}
		// remember what this branch says about the value: the same value is often tested again after an inlined return
		k := "nil:" + valKey(rx)
		isNilHere := nonNilWhenTrue != pol
		if v, ok := p.assume[k]; ok {
			return cond, pol, p, v == isNilHere
		}
		as := make(map[string]bool, len(p.assume)+1)
		for kk, vv := range p.assume {
			as[kk] = vv
		}
		as[k] = isNilHere
		return cond, pol, &pathState{phi: p.phi, assume: as, fi: p.fi}, true
	}
	k, kpol := condKey(cond, pol)
	if k == "" {
		return cond, pol, p, true
	}
	if v, ok := p.assume[k]; ok {
		return cond, pol, p, v == kpol
	}
	as := make(map[string]bool, len(p.assume)+1)
	for kk, vv := range p.assume {
		as[kk] = vv
	}
	as[k] = kpol
	return cond, pol, &pathState{phi: p.phi, assume: as, fi: p.fi}, true
}

// ---- feasible-path reachability ----------------------------------------------------------------------------------------------

// controlPhis computes, for the phis that can decide a branch (directly, negated, compared with nil, or through another
// phi), the blocks at which their binding can still matter (from which a branch using them is reachable).
func (fi *fnInfo) controlPhis() map[*ssa.Phi]map[*ssa.BasicBlock]bool {
	if fi.phiLive != nil {
		return fi.phiLive
	}
	uses := map[*ssa.Phi]map[*ssa.BasicBlock]bool{}
	var collect func(v ssa.Value, at *ssa.BasicBlock, depth int)
	collect = func(v ssa.Value, at *ssa.BasicBlock, depth int) {
		if depth > 6 || v == nil {
			return
		}
		switch x := v.(type) {
		case *ssa.Phi:
			if uses[x] == nil {
				uses[x] = map[*ssa.BasicBlock]bool{}
			}
			if uses[x][at] {
				return
			}
			uses[x][at] = true
			for _, e := range x.Edges {
				collect(e, x.Block(), depth+1)
			}
		case *ssa.UnOp:
			if x.Op == token.NOT {
				collect(x.X, at, depth+1)
			}
		case *ssa.BinOp:
			if x.Op == token.EQL || x.Op == token.NEQ {
				collect(x.X, at, depth+1)
				collect(x.Y, at, depth+1)
			}
		}
	}
	for _, ev := range extraControlValues[fi.fn] {
		if in, ok := ev.use.(ssa.Instruction); ok {
			collectAny(ev.val, in.Block(), 0, uses)
		}
	}
	for _, b := range fi.fn.Blocks {
		if iff, ok := lastInstr(b).(*ssa.If); ok {
			collect(iff.Cond, b, 0)
		}
		// returned errors are resolved through phis as well
		if ret, ok := lastInstr(b).(*ssa.Return); ok {
			for _, rv := range ret.Results {
				if phi, ok := rv.(*ssa.Phi); ok && isErrorType(phi.Type()) {
					collect(phi, b, 0)
				}
			}
			// functions with defers return through a result cell: the value stored into it counts
			if phi, ok := returnedErr(ret).(*ssa.Phi); ok {
				collect(phi, b, 0)
			}
		}
	}
	live := map[*ssa.Phi]map[*ssa.BasicBlock]bool{}
	for phi, at := range uses {
		m := map[*ssa.BasicBlock]bool{}
		var work []*ssa.BasicBlock
		for b := range at {
			work = append(work, b)
		}
		for len(work) > 0 {
			b := work[len(work)-1]
			work = work[:len(work)-1]
			if m[b] {
				continue
			}
			m[b] = true
			if b == phi.Block() {
				continue // the binding is (re)made here
			}
			work = append(work, b.Preds...)
		}
		live[phi] = m
	}
	fi.phiLive = live
	return live
}

func newPathStateFor(fn *ssa.Function) *pathState {
	p := newPathState()
	p.fi = globalInfo(fn)
	return p
}

// feasibleReach: blocks reachable from the entry on feasible paths that do not use edge cut (if any) nor enter block avoid (if any).
func (fi *fnInfo) feasibleReach(cut *edge, avoid *ssa.BasicBlock) map[*ssa.BasicBlock]bool {
	out := map[*ssa.BasicBlock]bool{}
	if len(fi.fn.Blocks) == 0 {
		return out
	}
	seen := map[string]bool{}
	type item struct {
		b  *ssa.BasicBlock
		ps *pathState
	}
	start := fi.fn.Blocks[0]
	if start == avoid {
		return out
	}
	if fi.tooManyStates {
		return reach(start, cutSet(cut), avoidSet(avoid))
	}
	work := []item{{start, newPathStateFor(fi.fn)}}
	for len(work) > 0 {
		it := work[len(work)-1]
		work = work[:len(work)-1]
		k := fmt.Sprintf("%d|%s", it.b.Index, it.ps.key())
		if seen[k] {
			continue
		}
		seen[k] = true
		// a function whose branches are this independent has too many path states to enumerate: fall back to plain
		// reachability for it, which can only make an edge dominate less (fewer guards are recognised, never more)
		if len(seen) > feasibleStateBudget {
			fi.tooManyStates = true
			return reach(start, cutSet(cut), avoidSet(avoid))
		}
		out[it.b] = true
		for i, s := range it.b.Succs {
			if cut != nil && cut.from == it.b && cut.idx == i {
				continue
			}
			if s == avoid {
				continue
			}
			_, _, next, ok := it.ps.branch(it.b, i)
			if !ok {
				continue
			}
			work = append(work, item{s, next.enter(s, it.b)})
		}
	}
	return out
}

const feasibleStateBudget = 20000

func cutSet(e *edge) map[edge]bool {
	if e == nil {
		return nil
	}
	return map[edge]bool{*e: true}
}

func avoidSet(b *ssa.BasicBlock) map[*ssa.BasicBlock]bool {
	if b == nil {
		return nil
	}
	return map[*ssa.BasicBlock]bool{b: true}
}

func (fi *fnInfo) feasibleAll() map[*ssa.BasicBlock]bool {
	if fi.reachAll == nil {
		fi.reachAll = fi.feasibleReach(nil, nil)
	}
	return fi.reachAll
}

func (fi *fnInfo) feasibleWithoutEdge(e edge) map[*ssa.BasicBlock]bool {
	if fi.reachNoEdge == nil {
		fi.reachNoEdge = map[edge]map[*ssa.BasicBlock]bool{}
	}
	if r, ok := fi.reachNoEdge[e]; ok {
		return r
	}
	r := fi.feasibleReach(&e, nil)
	fi.reachNoEdge[e] = r
	return r
}

func (fi *fnInfo) feasibleAvoiding(a *ssa.BasicBlock) map[*ssa.BasicBlock]bool {
	if fi.reachNoBlock == nil {
		fi.reachNoBlock = map[*ssa.BasicBlock]map[*ssa.BasicBlock]bool{}
	}
	if r, ok := fi.reachNoBlock[a]; ok {
		return r
	}
	r := fi.feasibleReach(nil, a)
	fi.reachNoBlock[a] = r
	return r
}

// feasiblyReaches: some feasible path that starts by taking edge e reaches block target (phi bindings and repeated conditions
// are followed along the path; what dominates the edge is assumed).
func feasiblyReaches(fi *fnInfo, e edge, target *ssa.BasicBlock) bool {
	ps := newPathStateFor(fi.fn).seedFromGuards(e.from)
	_, _, next, feasible := ps.branch(e.from, e.idx)
	if !feasible {
		return false
	}
	seen := map[string]bool{}
	found := false
	var dfs func(b *ssa.BasicBlock, ps *pathState)
	dfs = func(b *ssa.BasicBlock, ps *pathState) {
		if found {
			return
		}
		if b == target {
			found = true
			return
		}
		k := fmt.Sprintf("%d|%s", b.Index, ps.key())
		if seen[k] {
			return
		}
		seen[k] = true
		if len(seen) > feasibleStateBudget {
			found = true // too many path states: assume reachable (the plain answer)
			return
		}
		for i, s := range b.Succs {
			_, _, nps, ok := ps.branch(b, i)
			if !ok {
				continue
			}
			dfs(s, nps.enter(s, b))
		}
	}
	dfs(e.to(), next.enter(e.to(), e.from))
	return found
}

// seedFromGuards adds what the conditions that dominate block b say (nil-ness of tested values, outcomes of repeatable
// conditions): a search that starts in the middle of a function still knows, e.g., that it is under `err != nil`.
func (p *pathState) seedFromGuards(b *ssa.BasicBlock) *pathState {
	fi := globalInfo(b.Parent())
	out := &pathState{phi: p.phi, assume: map[string]bool{}, fi: p.fi}
	for k, v := range p.assume {
		out.assume[k] = v
	}
	for _, g := range fi.necessaryGuards(b) {
		if x, nonNilWhenTrue, ok := errNilTest(g.cond); ok {
			k := "nil:" + valKey(x)
			if _, dup := out.assume[k]; !dup {
				out.assume[k] = nonNilWhenTrue != g.pol
			}
			continue
		}
		if k, kpol := condKey(g.cond, g.pol); k != "" {
			if _, dup := out.assume[k]; !dup {
				out.assume[k] = kpol
			}
		}
	}
	return out
}

// mayBeNil: the (error) value can be nil on this path, taking phi bindings and recorded nil-facts into account.
func (p *pathState) mayBeNil(v ssa.Value) bool {
	rv := p.resolve(v)
	if isNil, ok := p.assume["nil:"+valKey(rv)]; ok {
		return isNil
	}
	if definitelyNonNil(rv) {
		return false
	}
	if p.fallibleResult(rv) {
		return true
	}
	return mayBeNil(rv, map[ssa.Value]bool{})
}

// fallibleResult: v is the error result of a call that has not been tested on this path and that is not handed an error
// known to be non-nil (a wrapper): such a call reports its own success with nil, so returning it on a failure path loses
// the failure whenever the call works (`return report(err)` where report returns the error of its write).
func (p *pathState) fallibleResult(v ssa.Value) bool {
	var call *ssa.Call
	switch x := v.(type) {
	case *ssa.Call:
		call = x
	case *ssa.Extract:
		call, _ = x.Tuple.(*ssa.Call)
	}
	if call == nil || !isErrorType(v.Type()) {
		return false
	}
	for _, a := range call.Common().Args {
		if !isErrorType(a.Type()) {
			continue
		}
		ra := p.resolve(a)
		if isNil, ok := p.assume["nil:"+valKey(ra)]; (ok && !isNil) || definitelyNonNil(ra) {
			return false
		}
	}
	if call.Common().IsInvoke() && call.Common().Method.Name() == "Err" {
		// Err() of a context, scanner, ...: the state of an object, not the outcome of an action started here
		return false
	}
	return true
}

// extraControlValues lets a rule ask the path searches to track further phis: values whose identity along a path matters
// to the rule (e.g. the digest handed to a cache update that is chosen by an if/else chain before a single update call).
type controlUse struct {
	val ssa.Value
	use ssa.Instruction
}

var extraControlValues = map[*ssa.Function][]controlUse{}

func registerControlValue(v ssa.Value, use ssa.Instruction) {
	fn := use.Parent()
	extraControlValues[fn] = append(extraControlValues[fn], controlUse{v, use})
	if fi, ok := infoCache[fn]; ok {
		fi.phiLive = nil
		fi.reachNoEdge, fi.reachNoBlock, fi.reachAll = nil, nil, nil
	}
}

func collectAny(v ssa.Value, at *ssa.BasicBlock, depth int, uses map[*ssa.Phi]map[*ssa.BasicBlock]bool) {
	if depth > 6 || v == nil {
		return
	}
	if x, ok := v.(*ssa.Phi); ok {
		if uses[x] == nil {
			uses[x] = map[*ssa.BasicBlock]bool{}
		}
		if uses[x][at] {
			return
		}
		uses[x][at] = true
		for _, e := range x.Edges {
			collectAny(e, x.Block(), depth+1, uses)
		}
	}
}

package main

import (
	"fmt"
	"go/token"
	"go/types"
	"strings"

	"golang.org/x/tools/go/ssa"
)

// ---- C05: glob expansion ---------------------------------------------------------------------------------------------

type globWalk struct {
	call *ssa.Call
	fn   *ssa.Function // function containing the call
	cb   *ssa.Function // the callback (for a bound method value: the method itself)
	mc   *ssa.MakeClosure
	// parameters of the callback by role, and the receiver when the callback is a bound method (state lives in its fields)
	pathParam, entryParam ssa.Value
	recvParam             ssa.Value // receiver parameter inside cb, nil for a closure
	recvArg               ssa.Value // the receiver value in fn (mc.Bindings[0]), nil for a closure
}

// cellOf: addr (inside the callback) names a piece of state shared with the enclosing function: a captured variable, or a
// field of the bound receiver. The returned key identifies it on both sides.
func (gw *globWalk) cellOf(addr ssa.Value) (string, bool) {
	if fv, ok := addr.(*ssa.FreeVar); ok && gw.recvParam == nil {
		for i, q := range gw.cb.FreeVars {
			if q == fv {
				return fmt.Sprintf("fv%d", i), true
			}
		}
	}
	if fa, ok := addr.(*ssa.FieldAddr); ok && gw.recvParam != nil {
		for _, o := range origins(fa.X) {
			if o == gw.recvParam {
				return fmt.Sprintf("field%d", fa.Field), true
			}
		}
	}
	return "", false
}

// outerCellOf: addr (inside the enclosing function) names the same piece of state.
func (gw *globWalk) outerCellOf(addr ssa.Value) (string, bool) {
	if gw.mc == nil {
		return "", false
	}
	if gw.recvArg == nil {
		for i, b := range gw.mc.Bindings {
			if b == addr {
				return fmt.Sprintf("fv%d", i), true
			}
		}
		return "", false
	}
	if fa, ok := addr.(*ssa.FieldAddr); ok {
		if fa.X == gw.recvArg || sameOrigins(fa.X, gw.recvArg) {
			return fmt.Sprintf("field%d", fa.Field), true
		}
	}
	return "", false
}

func (c *Ctx) globWalks() []globWalk {
	var out []globWalk
	for _, f := range c.ModFuncs {
		for _, site := range callsTo(f, "github.com/bmatcuk/doublestar/v4.GlobWalk") {
			call, ok := site.(*ssa.Call)
			if !ok {
				continue
			}
			gw := globWalk{call: call, fn: f}
			switch v := call.Common().Args[2].(type) {
			case *ssa.MakeClosure:
				gw.cb = v.Fn.(*ssa.Function)
				gw.mc = v
			case *ssa.Function:
				gw.cb = v
			default:
				for _, o := range origins(v) {
					switch w := o.(type) {
					case *ssa.MakeClosure:
						gw.cb = w.Fn.(*ssa.Function)
						gw.mc = w
					case *ssa.Function:
						gw.cb = w
					}
				}
			}
			if gw.cb != nil {
				// a bound method value: the synthetic wrapper just forwards to the method with the receiver it captured
				if gw.cb.Synthetic != "" && gw.mc != nil && len(gw.mc.Bindings) == 1 && len(gw.cb.Blocks) == 1 {
					for _, site := range callSites(gw.cb) {
						if m := site.Common().StaticCallee(); m != nil && inModule(m) && m.Signature.Recv() != nil {
							gw.cb = m
							gw.recvParam = m.Params[0]
							gw.recvArg = gw.mc.Bindings[0]
						}
					}
				}
				np := len(gw.cb.Params)
				if np >= 2 {
					gw.pathParam, gw.entryParam = gw.cb.Params[np-2], gw.cb.Params[np-1]
				}
			}
			out = append(out, gw)
		}
	}
	if len(out) == 0 {
		lost("no call of doublestar.GlobWalk in the module")
	}
	return out
}

func isSkipGlobal(v ssa.Value) (string, bool) {
	for _, o := range origins(v) {
		u, ok := o.(*ssa.UnOp)
		if !ok || u.Op != token.MUL {
			continue
		}
		g, ok := u.X.(*ssa.Global)
		if !ok {
			continue
		}
		if g.Name() == "SkipDir" || g.Name() == "SkipAll" {
			return g.Name(), true
		}
	}
	return "", false
}

// isDirGuardOn: cond is d.IsDir() or d.Type().IsDir() on the given entry value.
func isDirGuardOn(cond ssa.Value, entry ssa.Value) bool {
	call, ok := cond.(*ssa.Call)
	if !ok {
		return false
	}
	n := calleeName(call.Common())
	if !strings.HasSuffix(n, ").IsDir") {
		return false
	}
	var recv ssa.Value
	if call.Common().IsInvoke() {
		recv = call.Common().Value
	} else if len(call.Common().Args) > 0 {
		recv = call.Common().Args[0]
	}
	if recv == nil {
		return false
	}
	for _, o := range origins(recv) {
		if o == entry {
			return true
		}
		// d.Type().IsDir() / d.Info()
		if c2, ok := o.(*ssa.Call); ok && c2.Common().IsInvoke() {
			for _, oo := range origins(c2.Common().Value) {
				if oo == entry {
					return true
				}
			}
		}
		if ex, ok := o.(*ssa.Extract); ok {
			if c2, ok := ex.Tuple.(*ssa.Call); ok && c2.Common().IsInvoke() {
				for _, oo := range origins(c2.Common().Value) {
					if oo == entry {
						return true
					}
				}
			}
		}
	}
	return false
}

func ruleGL1(c *Ctx) *rule {
	r := &rule{ID: "GL1", Engine: "E2", Floor: 1,
		Statement: "no callback passed to doublestar.GlobWalk ever returns SkipDir or SkipAll",
		Necessity: "library contract (doublestar v4.7.1 globwalk.go): outside a `**` walk (globDirWalk) a SkipDir from the callback makes the library return from the directory listing for ANY entry — file or directory — so every later sibling that matches is silently omitted; for the bare pattern `**` the first callback is for \".\" and a SkipDir there abandons the whole walk; SkipAll ends the walk everywhere"}
	for _, gw := range c.globWalks() {
		r.note("GlobWalk at %s, callback %s", c.ipos(gw.call), fname(gw.cb))
		if gw.cb == nil || gw.entryParam == nil {
			r.undecided(fname(gw.fn)+" GlobWalk callback", c.ipos(gw.call), "cannot resolve the callback function value")
			continue
		}
		entry := gw.entryParam
		fi := c.info(gw.cb)
		n := 0
		check := func(v ssa.Value, gs []guard, pos string) {
			name, isSkip := isSkipGlobal(v)
			if !isSkip {
				return
			}
			n++
			key := fmt.Sprintf("%s return-%s#%d", fname(gw.cb), name, n)
			if name == "SkipAll" {
				r.bad(key, pos, "SkipAll ends the whole walk: every match after this entry is omitted")
				return
			}
			isDirOnly := false
			for _, g := range gs {
				if isDirGuardOn(g.cond, entry) && g.pol {
					isDirOnly = true
				}
			}
			if isDirOnly {
				r.bad(key, pos, "SkipDir is returned for (hidden) directories: when the directory matches a plain last segment of the pattern (`*`, `.*`) doublestar stops listing its parent, and for a bare `**` the root \".\" itself is skipped, so matching entries are omitted", describeGuards(c, gs)...)
			} else {
				r.bad(key, pos, "SkipDir can be returned for a file entry: the remaining entries of that file's directory are dropped from the expansion", describeGuards(c, gs)...)
			}
		}
		for _, ret := range returnsOf(gw.cb) {
			if len(ret.Results) == 0 {
				continue
			}
			v := ret.Results[len(ret.Results)-1]
			if phi, ok := v.(*ssa.Phi); ok {
				for i, e := range phi.Edges {
					pred := phi.Block().Preds[i]
					check(e, fi.guardsOfEdge(edge{pred, succIndex(pred, phi.Block())}), c.bpos(pred))
				}
				continue
			}
			check(v, fi.necessaryGuards(ret.Block()), c.ipos(ret))
		}
		if n == 0 {
			r.ok(fname(gw.cb)+" no-skip", c.pos(gw.cb.Pos()), "the callback never returns SkipDir/SkipAll")
		}
	}
	return r
}

// hiddenGuard: strings.HasPrefix(<derived from path>, ".")
func hiddenGuard(c *Ctx, cond ssa.Value, path ssa.Value) bool {
	call, ok := cond.(*ssa.Call)
	if !ok || calleeName(call.Common()) != "strings.HasPrefix" {
		return false
	}
	if s, ok := constString(call.Common().Args[1]); !ok || s != "." {
		return false
	}
	sl := c.newSlicer()
	sl.depth = 0
	return sl.run(call.Common().Args[0]).has(path)
}

func ruleGL2(c *Ctx) *rule {
	r := &rule{ID: "GL2", Engine: "E2+E3", Floor: 1,
		Statement: "on every path of the GlobWalk callback that returns nil without having taken the hidden-name branch, exactly one value derived from the callback's path (joined with the walk root) is appended to the result slice",
		Necessity: "a nil return without an append omits a matching file; two appends include it twice (and change the digest)"}
	for _, gw := range c.globWalks() {
		if gw.cb == nil || gw.pathParam == nil {
			r.undecided(fname(gw.fn)+" GlobWalk callback", c.ipos(gw.call), "cannot resolve the callback function value")
			continue
		}
		path := gw.pathParam
		appendCell := ""
		// appends: Store into shared state (captured variable / receiver field) of append(load cell, x...) with x derived from path
		isAppendStore := func(in ssa.Instruction) (bool, bool) {
			st, ok := in.(*ssa.Store)
			if !ok {
				return false, false
			}
			cell, ok := gw.cellOf(st.Addr)
			if !ok {
				return false, false
			}
			appendCell = cell
			for _, o := range origins(st.Val) {
				call, ok := o.(*ssa.Call)
				if !ok {
					continue
				}
				if bi, ok := call.Call.Value.(*ssa.Builtin); ok && bi.Name() == "append" {
					sl := c.newSlicer()
					sl.depth = 0
					res := sl.run(call.Call.Args[1:]...)
					return true, res.has(path)
				}
			}
			return false, false
		}
		type state struct {
			b      *ssa.BasicBlock
			n      int
			hidden bool
		}
		seen := map[state]bool{}
		bad := ""
		badPos := ""
		var dfs func(b *ssa.BasicBlock, n int, hidden bool)
		dfs = func(b *ssa.BasicBlock, n int, hidden bool) {
			if bad != "" {
				return
			}
			st := state{b, n, hidden}
			if seen[st] {
				return
			}
			seen[st] = true
			for _, in := range b.Instrs {
				if isApp, fromPath := isAppendStore(in); isApp {
					if !fromPath {
						bad, badPos = "a value not derived from the callback's path is appended to the result", c.ipos(in)
						return
					}
					n++
					if n > 2 {
						n = 2
					}
				}
				if ret, ok := in.(*ssa.Return); ok {
					ev := ret.Results[len(ret.Results)-1]
					if isNilConst(ev) && !hidden && n != 1 {
						bad, badPos = fmt.Sprintf("a path returns nil after %d appends (exactly one is required for a matching, non-hidden entry)", n), c.ipos(ret)
					}
					return
				}
			}
			for i, s := range b.Succs {
				h := hidden
				if iff, ok := lastInstr(b).(*ssa.If); ok {
					cond, pol := normCond(iff.Cond, i == 0)
					if hiddenGuard(c, cond, path) && pol {
						h = true
					}
				}
				dfs(s, n, h)
			}
		}
		dfs(gw.cb.Blocks[0], 0, false)
		key := fname(gw.cb) + " one-append-per-match"
		if bad == "" {
			r.ok(key, c.pos(gw.cb.Pos()), "every nil return outside the hidden-name branch follows exactly one append of the entry's path")
		} else {
			r.bad(key, badPos, bad)
		}
		// the captured result slice is what is remembered in SpokFile.Globs or returned by the expanding function
		if gw.mc != nil {
			key2 := fname(gw.fn) + " collected-slice-is-the-expansion"
			found := false
			isCell := func(v ssa.Value) bool {
				for _, o := range origins(v) {
					if u, ok := o.(*ssa.UnOp); ok && u.Op == token.MUL {
						if k, ok := gw.outerCellOf(u.X); ok && (appendCell == "" || k == appendCell) {
							return true
						}
					}
				}
				return false
			}
			for _, ret := range returnsOf(gw.fn) {
				if len(ret.Results) > 0 && isCell(ret.Results[0]) {
					found = true
				}
			}
			for _, b := range gw.fn.Blocks {
				for _, in := range b.Instrs {
					if mu, ok := in.(*ssa.MapUpdate); ok && isFieldLoad(mu.Map, "file.SpokFile.Globs") && isCell(mu.Value) {
						found = true
					}
					if ret, ok := in.(*ssa.Return); ok {
						for _, rv := range ret.Results {
							if isCell(rv) {
								found = true
							}
						}
					}
				}
			}
			// or it flows on through a phi / local before being stored or returned
			if !found {
				sl := c.newSlicer()
				sl.depth = 0
				for _, b := range gw.fn.Blocks {
					for _, in := range b.Instrs {
						var vals []ssa.Value
						if mu, ok := in.(*ssa.MapUpdate); ok && isFieldLoad(mu.Map, "file.SpokFile.Globs") {
							vals = append(vals, mu.Value)
						}
						if ret, ok := in.(*ssa.Return); ok {
							vals = append(vals, ret.Results...)
						}
						if len(vals) == 0 {
							continue
						}
						res := sl.run(vals...)
						for v := range res.vals {
							if u, ok := v.(*ssa.UnOp); ok && u.Op == token.MUL {
								if k, ok := gw.outerCellOf(u.X); ok && (appendCell == "" || k == appendCell) {
									found = true
								}
							}
						}
					}
				}
			}
			if found {
				r.ok(key2, c.ipos(gw.call), "the slice the callback appends to is what is remembered / returned")
			} else {
				r.bad(key2, c.ipos(gw.call), "the slice filled by the callback is neither stored in SpokFile.Globs nor returned")
			}
		}
	}
	return r
}

func ruleGL3(c *Ctx) *rule {
	r := &rule{ID: "GL3", Engine: "E3", Floor: 3,
		Statement: "GlobWalk walks os.DirFS(<SpokFile.Dir>) with the declared pattern unchanged, matches are made absolute with the same root, and SpokFile.Globs is keyed by the very pattern that was expanded",
		Necessity: "a different root, a rewritten pattern or a mismatched key makes a pattern denote files other than those matching it under the spokfile's directory"}
	// a glob primitive that takes one path-and-pattern string: the root directory must not be part of what is matched
	for _, f := range c.ModFuncs {
		for _, site := range callSites(f) {
			n := calleeName(site.Common())
			if !(strings.HasSuffix(n, "doublestar/v4.FilepathGlob") || n == "path/filepath.Glob") || len(site.Common().Args) == 0 {
				continue
			}
			ps := c.newSlicer()
			ps.depth = 3
			ps.fieldStop = true
			pres := ps.run(site.Common().Args[0])
			if pres.hasField("file.SpokFile.Dir") {
				r.bad(fname(f)+" "+n+" pattern", c.ipos(site), "the directory of the spokfile is joined into the pattern: a *, ?, [ or { in the project's own path is matched as a metacharacter and every glob of such a project expands to nothing (or to something else)")
				return r
			}
		}
	}
	for _, gw := range c.globWalks() {
		// fsys
		sl := c.newSlicer()
		sl.depth = 3
		sl.fieldStop = true
		fres := sl.run(gw.call.Common().Args[0])
		key := fname(gw.fn) + " GlobWalk fsys"
		if fres.hasCall("os.DirFS") && fres.hasField("file.SpokFile.Dir") {
			r.ok(key, c.ipos(gw.call), "os.DirFS of SpokFile.Dir")
		} else {
			r.bad(key, c.ipos(gw.call), "the file system walked is not os.DirFS(SpokFile.Dir) (calls: "+join(fres.callNames())+"; fields: "+join(fres.fieldKeys())+")")
		}
		// options: nothing that filters what the walk reports
		if args := gw.call.Common().Args; len(args) > 3 {
			key = fname(gw.fn) + " GlobWalk options"
			os := c.newSlicer()
			os.depth = 0
			ores := os.run(args[3:]...)
			filtering, unknown := "", ""
			for _, n := range ores.callNames() {
				switch {
				case strings.HasSuffix(n, "doublestar/v4.WithFilesOnly"):
					filtering = n
				case strings.Contains(n, "doublestar/v4.With"):
					unknown = n
				}
			}
			switch {
			case filtering != "":
				r.bad(key, c.ipos(gw.call), "the walk is run with "+filtering+": matching directories are never reported, so a pattern no longer denotes every entry it matches")
			case unknown != "":
				r.undecided(key, c.ipos(gw.call), "the walk is run with the option "+unknown+", whose effect on the reported matches this rule does not know")
			default:
				r.ok(key, c.ipos(gw.call), "no option that filters matches")
			}
		}
		// pattern: value-preserving back to the parameter, then to elements of the glob fields
		key = fname(gw.fn) + " GlobWalk pattern"
		pat := gw.call.Common().Args[1]
		transformed := ""
		ps := c.newSlicer()
		ps.depth = 3
		ps.fieldStop = true
		pres := ps.run(pat)
		for _, v := range pres.order {
			switch x := v.(type) {
			case *ssa.Call:
				n := calleeName(x.Common())
				if n != "builtin.append" && n != "builtin.len" && !elementPreserving(n) && !strings.HasPrefix(n, modPath) && !strings.HasPrefix(n, "("+modPath) && !strings.HasPrefix(n, "(*"+modPath) {
					transformed = n
				}
			case *ssa.BinOp:
				if x.Op == token.ADD {
					if b, ok := x.Type().Underlying().(*types.Basic); ok && b.Info()&types.IsString != 0 {
						transformed = "string concatenation"
					}
				}
			case *ssa.Slice:
				if b, ok := x.X.Type().Underlying().(*types.Basic); ok && b.Info()&types.IsString != 0 {
					transformed = "string slicing"
				}
			}
		}
		switch {
		case transformed != "":
			r.bad(key, c.ipos(gw.call), "the pattern is rewritten ("+transformed+") before it is matched")
		case !pres.hasField("task.Task.GlobDependencies") && !pres.hasField("task.Task.GlobOutputs") && unboundParam(c, pres, gw.fn):
			r.ok(key, c.ipos(gw.call), "the pattern is a parameter of an exported function that the program itself does not call")
		case !pres.hasField("task.Task.GlobDependencies") && !pres.hasField("task.Task.GlobOutputs"):
			r.bad(key, c.ipos(gw.call), "the pattern handed to GlobWalk does not come from Task.GlobDependencies / Task.GlobOutputs (fields: "+join(pres.fieldKeys())+")")
		default:
			r.ok(key, c.ipos(gw.call), "the declared patterns of GlobDependencies and GlobOutputs reach GlobWalk unchanged")
		}
		// absolute path built with the same root
		if gw.cb != nil && gw.pathParam != nil {
			key = fname(gw.cb) + " match=Join(root,path)"
			var dirfsArg ssa.Value
			for _, o := range origins(gw.call.Common().Args[0]) {
				if call, ok := o.(*ssa.Call); ok && calleeName(call.Common()) == "os.DirFS" {
					dirfsArg = call.Common().Args[0]
				}
			}
			// shared state whose value in the enclosing function is the walked root
			rootCells := map[string]bool{}
			if dirfsArg != nil {
				for _, b := range gw.fn.Blocks {
					for _, in := range b.Instrs {
						if st, ok := in.(*ssa.Store); ok && sameOrigins(st.Val, dirfsArg) {
							if k, ok := gw.outerCellOf(st.Addr); ok {
								rootCells[k] = true
							}
						}
					}
				}
			}
			okJoin := false
			for _, site := range callsTo(gw.cb, "path/filepath.Join") {
				js := c.newSlicer()
				js.depth = 0
				jr := js.run(site.Common().Args...)
				hasRoot := false
				for v := range jr.vals {
					if u, ok := v.(*ssa.UnOp); ok && u.Op == token.MUL {
						if k, ok := gw.cellOf(u.X); ok && rootCells[k] {
							hasRoot = true
						}
					}
				}
				if hasRoot && jr.has(gw.pathParam) {
					okJoin = true
				}
			}
			if okJoin {
				r.ok(key, c.pos(gw.cb.Pos()), "matches are joined with the same root that is walked")
			} else {
				r.bad(key, c.pos(gw.cb.Pos()), "the recorded match is not filepath.Join(<walk root>, <entry path>)")
			}
		}
	}
	// Globs[k] = <the expansion of k>: for every GlobWalk whose callback fills a captured slice, each store into SpokFile.Globs
	// of something derived from that slice must store the slice itself, under the pattern that was walked
	n := 0
	for _, gw := range c.globWalks() {
		if gw.mc == nil {
			continue
		}
		isCell := func(v ssa.Value) bool {
			os := origins(v)
			if len(os) == 0 {
				return false
			}
			nCell := 0
			for _, o := range os {
				if isNilConst(o) {
					continue // the error path of an inlined expansion helper
				}
				nCell++
				u, ok := o.(*ssa.UnOp)
				if !ok || u.Op != token.MUL {
					return false
				}
				if _, hit := gw.outerCellOf(u.X); !hit {
					return false
				}
			}
			return nCell > 0
		}
		for _, b := range gw.fn.Blocks {
			for _, in := range b.Instrs {
				mu, ok := in.(*ssa.MapUpdate)
				if !ok || !isFieldLoad(mu.Map, "file.SpokFile.Globs") {
					continue
				}
				sl := c.newSlicer()
				sl.depth = 0
				res := sl.run(mu.Value)
				derived := false
				for v := range res.vals {
					if u, ok := v.(*ssa.UnOp); ok && u.Op == token.MUL {
						if _, ok := gw.outerCellOf(u.X); ok {
							derived = true
						}
					}
				}
				if !derived {
					continue
				}
				n++
				key := fmt.Sprintf("%s Globs[k]=expansion(k)#%d", fname(gw.fn), n)
				switch {
				case !isCell(mu.Value):
					r.bad(key, c.ipos(mu), "what is remembered for the pattern is not the expansion itself but something derived from it (filtered, merged or de-duplicated against other patterns): the pattern no longer denotes every file it matches")
				case !samePlace(mu.Key, gw.call.Common().Args[1]):
					r.bad(key, c.ipos(mu), "the expansion is stored under a key that is not the expanded pattern")
				case c.sliceMutation(mu.Value, 2, map[ssa.Value]bool{}, "the recorded expansion") != "":
					r.bad(key, c.ipos(mu), c.sliceMutation(mu.Value, 2, map[ssa.Value]bool{}, "the recorded expansion")+": what is remembered for the pattern is no longer the list of files it matches")
				default:
					r.ok(key, c.ipos(mu), "the expansion itself, stored under the pattern that was expanded")
				}
			}
		}
	}
	return r
}

func ruleGL4(c *Ctx) *rule {
	r := &rule{ID: "GL4", Engine: "E1+E2", Floor: 2,
		Statement: "on the way from SpokFile.Run to GlobWalk the only guards are loop conditions, error checks and the 'already expanded' test taken on its miss side; a hit is only reported for a non-empty remembered expansion; a list looked up in SpokFile.Globs is only read (never overwritten or appended to in place)",
		Necessity: "any other guard leaves some declared pattern unexpanded (it then denotes no files: the task never re-runs / --clean removes nothing); a hit on the empty placeholder registered at load time would do the same for every pattern"}
	// what a pattern is remembered to denote is only read afterwards: no value looked up in SpokFile.Globs is overwritten, sorted or
	// appended to in place (a filter over `files[:0]` rewrites the remembered list for every later task and for --clean)
	nLook := 0
	for _, f := range c.ModFuncs {
		for _, b := range f.Blocks {
			for _, in := range b.Instrs {
				lk, ok := in.(*ssa.Lookup)
				if !ok || !isFieldLoad(lk.X, "file.SpokFile.Globs") {
					continue
				}
				var val ssa.Value = lk
				if lk.CommaOk {
					val = nil
					for _, ref := range valueReferrers(lk) {
						if ex, isEx := ref.(*ssa.Extract); isEx && ex.Index == 0 {
							val = ex
						}
					}
				}
				if val == nil {
					continue
				}
				nLook++
				if why := c.sliceMutation(val, 2, map[ssa.Value]bool{}, "the remembered expansion of a pattern"); why != "" && !strings.Contains(why, "re-ordered") {
					r.bad(fmt.Sprintf("%s Globs[pattern] read-only#%d", fname(f), nLook), c.ipos(lk), why+": the pattern then denotes other files for every later use in the same run")
				}
			}
		}
	}
	runM := c.method("file", "SpokFile", "Run")
	onWay := 0
	for _, gw := range c.globWalks() {
		if gw.fn != runM && !c.reachesFn(runM, gw.fn) {
			continue // an expansion used elsewhere (e.g. --clean): not what the run depends on
		}
		onWay++
		// call chain: walk up from gw.fn to runM through module call sites
		type link struct {
			site ssa.CallInstruction
		}
		var chain []ssa.CallInstruction
		cur := gw.fn
		seen := map[*ssa.Function]bool{}
		for cur != runM && !seen[cur] {
			seen[cur] = true
			var next ssa.CallInstruction
			for _, site := range c.callersOf(cur) {
				caller := site.Parent()
				if caller == runM || c.reachesFn(runM, caller) {
					next = site
					break
				}
			}
			if next == nil {
				break
			}
			chain = append(chain, next)
			cur = next.Parent()
		}
		if cur != runM {
			r.bad(fname(gw.fn)+" reachable-from-Run", c.ipos(gw.call), "the glob expansion is not reachable from file.(*SpokFile).Run")
			continue
		}
		sites := append([]ssa.CallInstruction{gw.call}, chain...)
		var hitFns []*ssa.Function
		for _, site := range sites {
			fi := c.info(site.Parent())
			key := fmt.Sprintf("%s guards-of %s", fname(site.Parent()), calleeName(site.Common()))
			bad := ""
			for _, g := range fi.necessaryGuards(site.Block()) {
				switch {
				case isLoopCond(fi, g):
				case isRangeFuncProtocol(g.cond):
				case isErrCond(g.cond):
				case c.isGlobHitTest(g.cond) != nil:
					if g.pol {
						bad = "the expansion happens on the HIT side of the already-expanded test"
					}
					hitFns = append(hitFns, c.isGlobHitTest(g.cond))
				default:
					bad = "guarded by " + condText(g.cond) + " at " + c.bpos(g.e.from)
				}
			}
			if bad == "" {
				r.ok(key, c.ipos(site), "only loop conditions, error checks and the already-expanded test (miss side) guard it")
			} else {
				r.bad(key, c.ipos(site), "a declared pattern can stay unexpanded: "+bad)
			}
		}
		// the pattern loop must range over the patterns of every task: the expanded list slices to all tasks
		for _, hf := range hitFns {
			key := fname(hf) + " hit-means-non-empty"
			hfi := c.info(hf)
			okAll := true
			n := 0
			for _, ret := range returnsOf(hf) {
				v := ret.Results[0]
				if b, isC := constBool(v); isC {
					if !b {
						continue
					}
					n++
					has := false
					for _, g := range hfi.necessaryGuards(ret.Block()) {
						if isLenNonZero(g) {
							has = true
						}
					}
					if !has {
						okAll = false
					}
				} else {
					n++
					// returned expression must itself imply len != 0
					cond, pol := normCond(v, true)
					if !isLenNonZero(guard{cond: cond, pol: pol}) {
						okAll = false
					}
				}
			}
			if okAll && n > 0 {
				r.ok(key, c.pos(hf.Pos()), "a hit requires a non-empty remembered expansion")
			} else if !c.emptyPlaceholdersStored() {
				r.ok(key, c.pos(hf.Pos()), "no empty placeholder is ever registered, so presence means expanded")
			} else {
				r.bad(key, c.pos(hf.Pos()), "the already-expanded test reports a hit for the empty placeholder that file.New registers for every pattern: no pattern would ever be expanded")
			}
		}
	}
	if onWay == 0 {
		r.bad("file.(*SpokFile).Run expands-globs", c.pos(runM.Pos()), "no glob expansion is reachable from file.(*SpokFile).Run")
	}
	// both kinds of pattern are expanded before the run
	{
		key := "file.(*SpokFile).Run expands dependency and output patterns"
		fields := map[string]bool{}
		for _, gw := range c.globWalks() {
			if gw.fn != runM && !c.reachesFn(runM, gw.fn) {
				continue
			}
			ps := c.newSlicer()
			ps.depth = 3
			ps.fieldStop = true
			for _, k := range ps.run(gw.call.Common().Args[1]).fieldKeys() {
				fields[k] = true
			}
		}
		if fields["task.Task.GlobDependencies"] && fields["task.Task.GlobOutputs"] {
			r.ok(key, c.pos(runM.Pos()), "patterns of GlobDependencies and GlobOutputs both reach GlobWalk")
		} else {
			r.bad(key, c.pos(runM.Pos()), "not both Task.GlobDependencies and Task.GlobOutputs reach GlobWalk on the way from SpokFile.Run")
		}
	}
	return r
}

func isLoopCond(fi *fnInfo, g guard) bool {
	l := fi.innermostLoop(g.e.from)
	if l == nil {
		return false
	}
	// the test that decides staying in / leaving the loop
	in0, in1 := l.body[g.e.from.Succs[0]], l.body[g.e.from.Succs[1]]
	if in0 == in1 {
		return false
	}
	switch x := g.cond.(type) {
	case *ssa.BinOp:
		return x.Op == token.LSS
	case *ssa.Extract:
		_, ok := x.Tuple.(*ssa.Next)
		return ok
	}
	return false
}

// isRangeFuncProtocol: cond compares the hidden state variable of a range-over-func loop (go/ssa calls it jump$N; the synthetic
// body function and its caller test it around every call of the body) with a constant. It belongs to the iteration
// protocol - "the body runs while the loop is live" - exactly like the test of an ordinary loop header.
func isRangeFuncProtocol(cond ssa.Value) bool {
	bo, ok := cond.(*ssa.BinOp)
	if !ok {
		return false
	}
	for _, pair := range [][2]ssa.Value{{bo.X, bo.Y}, {bo.Y, bo.X}} {
		if _, isC := constInt(pair[1]); !isC {
			continue
		}
		if ph, isPhi := pair[0].(*ssa.Phi); isPhi && strings.HasPrefix(ph.Comment, "jump$") {
			return true // the state cell after it was promoted to a register
		}
		ld, isLoad := pair[0].(*ssa.UnOp)
		if !isLoad || ld.Op != token.MUL {
			continue
		}
		switch cell := ld.X.(type) {
		case *ssa.FreeVar:
			if strings.HasPrefix(cell.Name(), "jump$") {
				return true
			}
		case *ssa.Alloc:
			if strings.HasPrefix(cell.Comment, "jump$") {
				return true
			}
		}
	}
	return false
}

func isErrCond(cond ssa.Value) bool {
	x, _, ok := errNilTest(cond)
	return ok && isErrorType(x.Type())
}

func isLenNonZero(g guard) bool {
	b, ok := g.cond.(*ssa.BinOp)
	if !ok {
		return false
	}
	call, ok := b.X.(*ssa.Call)
	if !ok {
		return false
	}
	bi, ok := call.Call.Value.(*ssa.Builtin)
	if !ok || bi.Name() != "len" {
		return false
	}
	n, ok := constInt(b.Y)
	if !ok {
		return false
	}
	switch {
	case b.Op == token.EQL && n == 0:
		return !g.pol
	case b.Op == token.NEQ && n == 0, b.Op == token.GTR && n == 0, b.Op == token.GEQ && n == 1:
		return g.pol
	case b.Op == token.LSS && n == 1, b.Op == token.LEQ && n == 0:
		return !g.pol
	}
	return false
}

// isGlobHitTest: cond is a call of a module function that looks its argument up in SpokFile.Globs and returns bool.
func (c *Ctx) isGlobHitTest(cond ssa.Value) *ssa.Function {
	call, ok := cond.(*ssa.Call)
	if !ok {
		return nil
	}
	f := call.Common().StaticCallee()
	if f == nil || !inModule(f) {
		return nil
	}
	if b, ok := firstResult(f).Underlying().(*types.Basic); !ok || b.Kind() != types.Bool {
		return nil
	}
	for _, blk := range f.Blocks {
		for _, in := range blk.Instrs {
			if lk, ok := in.(*ssa.Lookup); ok && isFieldLoad(lk.X, "file.SpokFile.Globs") {
				return f
			}
		}
	}
	return nil
}

// emptyPlaceholdersStored: some store into SpokFile.Globs writes a nil / empty slice.
func (c *Ctx) emptyPlaceholdersStored() bool {
	for _, f := range c.ModFuncs {
		for _, b := range f.Blocks {
			for _, in := range b.Instrs {
				mu, ok := in.(*ssa.MapUpdate)
				if !ok || !isFieldLoad(mu.Map, "file.SpokFile.Globs") {
					continue
				}
				for _, o := range origins(mu.Value) {
					if isNilConst(o) {
						return true
					}
					if cst, ok := o.(*ssa.Const); ok && cst.Value == nil {
						return true
					}
				}
			}
		}
	}
	return false
}

// elementPreserving: a library function that rearranges or copies a collection without changing any element.
func elementPreserving(n string) bool {
	for _, pfx := range []string{"slices.", "maps."} {
		if !strings.HasPrefix(n, pfx) {
			continue
		}
		base := strings.TrimPrefix(n, pfx)
		if i := strings.IndexByte(base, '['); i >= 0 {
			base = base[:i]
		}
		switch base {
		case "Concat", "Clone", "Sorted", "SortedFunc", "SortedStableFunc", "Collect", "Values", "Keys", "All", "Compact", "CompactFunc", "Grow", "Clip", "Reverse", "Sort", "SortFunc", "SortStableFunc", "AppendSeq":
			return true
		}
	}
	return false
}

// ---- C17: spokfile discovery --------------------------------------------------------------------------------------------

type findWalk struct {
	fn    *ssa.Function
	fi    *fnInfo
	loop  *loopInfo
	w     *ssa.Phi // the directory being searched
	stop  *ssa.Parameter
	start *ssa.Parameter
	rd    *ssa.Call // os.ReadDir
	// the two parameters and every canonical respelling of them (filepath.Abs / filepath.Clean of a member)
	stopSet, startSet map[ssa.Value]bool
}

// spellings: p and every value that is filepath.Abs / filepath.Clean of a member of the set (the same directory, spelled canonically).
func spellings(p *ssa.Parameter) map[ssa.Value]bool {
	set := map[ssa.Value]bool{p: true}
	for changed := true; changed; {
		changed = false
		for v := range set {
			for _, ref := range valueReferrers(v) {
				call, ok := ref.(*ssa.Call)
				if !ok || len(call.Call.Args) != 1 || call.Call.Args[0] != v {
					continue
				}
				switch calleeName(call.Common()) {
				case "path/filepath.Clean":
					if !set[call] {
						set[call], changed = true, true
					}
				case "path/filepath.Abs":
					for _, r2 := range valueReferrers(call) {
						if ex, ok := r2.(*ssa.Extract); ok && ex.Index == 0 && !set[ex] {
							set[ex], changed = true, true
						}
					}
				}
			}
		}
	}
	return set
}

// canonicalSpelling: v is the result of a function of path/filepath that returns a Clean path (Abs, Clean, Dir, Join, EvalSymlinks),
// on every way it can be produced.
func canonicalSpelling(v ssa.Value, seen map[ssa.Value]bool) bool {
	if seen[v] {
		return true
	}
	seen[v] = true
	switch x := v.(type) {
	case *ssa.Phi:
		for _, e := range x.Edges {
			if !canonicalSpelling(e, seen) {
				return false
			}
		}
		return len(x.Edges) > 0
	case *ssa.Extract:
		if call, ok := x.Tuple.(*ssa.Call); ok && x.Index == 0 {
			switch calleeName(call.Common()) {
			case "path/filepath.Abs", "path/filepath.EvalSymlinks":
				return true
			}
		}
	case *ssa.Call:
		switch calleeName(x.Common()) {
		case "path/filepath.Clean", "path/filepath.Dir", "path/filepath.Join":
			return true
		}
	}
	return false
}

func (c *Ctx) findWalk() *findWalk {
	fn := c.fn("file", "Find")
	fw := &findWalk{fn: fn, fi: c.info(fn)}
	var strs []*ssa.Parameter
	for _, p := range fn.Params {
		if b, ok := p.Type().Underlying().(*types.Basic); ok && b.Kind() == types.String {
			strs = append(strs, p)
		}
	}
	if len(strs) != 2 {
		lost("file.Find no longer has two string parameters (start, stop)")
	}
	fw.start, fw.stop = strs[0], strs[1]
	fw.startSet, fw.stopSet = spellings(fw.start), spellings(fw.stop)
	for _, site := range callsTo(fn, "os.ReadDir") {
		if call, ok := site.(*ssa.Call); ok {
			fw.rd = call
		}
	}
	// (a Find that does not list directories, e.g. one os.Stat per level, has rd == nil)
	// the walk loop: a loop with a header phi whose back-edge value derives from filepath.Dir of itself
	for _, l := range fw.fi.loops {
		for _, p := range l.headerPhis() {
			for i, pred := range l.header.Preds {
				if !l.body[pred] {
					continue
				}
				sl := c.newSlicer()
				sl.depth = 0
				res := sl.run(p.Edges[i])
				if res.hasCall("path/filepath.Dir") && res.has(p) {
					fw.loop, fw.w = l, p
				}
			}
		}
	}
	if fw.loop == nil {
		lost("file.Find has no loop that climbs with filepath.Dir")
	}
	return fw
}

func (fw *findWalk) fsTainted(c *Ctx, v ssa.Value) bool {
	if fw.rd == nil {
		return false
	}
	sl := c.newSlicer()
	sl.depth = 0
	return sl.run(v).has(fw.rd)
}

func ruleFD1(c *Ctx) *rule {
	r := &rule{ID: "FD1", Engine: "E2+E3", Floor: 2,
		Statement: "the upward walk has, on every iteration, an exit test that depends on the directory being searched and not on its contents (FD1), and one such test can fire at the file-system root whatever the stop directory is (FD2)",
		Necessity: "if every exit test sits under a branch on the directory listing, an empty directory skips it; if the only test is `dir == stop`, a start outside stop climbs to '/' and spins there forever since filepath.Dir(\"/\") == \"/\""}
	fw := c.findWalk()
	r.note("walk loop at %s over φ %s", c.bpos(fw.loop.header), fw.w.Comment)
	type exitTest struct {
		blk      *ssa.BasicBlock
		cond     ssa.Value
		tainted  bool
		hasW     bool
		domLatch bool
		bareStop bool
	}
	var tests []exitTest
	for _, b := range fw.fn.Blocks {
		if !fw.loop.body[b] {
			continue
		}
		iff, ok := lastInstr(b).(*ssa.If)
		if !ok {
			continue
		}
		// a branch one of whose sides can leave the loop without coming back
		leaves := false
		for _, s := range b.Succs {
			if !fw.loop.body[s] {
				leaves = true
			}
		}
		if !leaves {
			continue
		}
		cond, _ := normCond(iff.Cond, true)
		sl := c.newSlicer()
		sl.depth = 0
		res := sl.run(cond)
		et := exitTest{blk: b, cond: cond, hasW: res.has(fw.w)}
		et.tainted = fw.rd != nil && res.has(fw.rd)
		if res.hasCall("os.Stat") || res.hasCall("os.Lstat") {
			et.tainted = true // depends on what is in the directory
		}
		// control-tainted: the test sits inside a loop over the entries or under a branch on them
		for _, g := range fw.fi.necessaryGuards(b) {
			if fw.loop.body[g.e.from] && fw.fsTainted(c, g.cond) {
				if x, _, isErr := errNilTest(g.cond); isErr && isErrorType(x.Type()) {
					continue // the error check of ReadDir is not a dependence on the contents
				}
				if il := fw.fi.innermostLoop(g.e.from); il != nil && il != fw.loop && g.e.from == il.header && !il.body[g.e.to()] {
					continue // the exhaustion edge of the loop over the entries is taken for every listing
				}
				if _, _, found, isSearch := searchTest(g.cond, g.pol); isSearch && !found {
					continue // "no entry satisfies the predicate" is the same exhaustion edge, taken for every listing without a hit
				}
				et.tainted = true
			}
		}
		if inner := fw.fi.innermostLoop(b); inner != nil && inner != fw.loop {
			et.tainted = true // inside the loop over the entries: runs once per entry, never for an empty directory
		}
		et.domLatch = true
		for _, latch := range fw.loop.latchs {
			if !dominates(b, latch) {
				et.domLatch = false
			}
		}
		if bo, ok := cond.(*ssa.BinOp); ok && (bo.Op == token.EQL || bo.Op == token.NEQ) {
			isW := func(v ssa.Value) bool { return v == ssa.Value(fw.w) }
			isStop := func(v ssa.Value) bool { return fw.stopSet[v] }
			if (isW(bo.X) && isStop(bo.Y)) || (isW(bo.Y) && isStop(bo.X)) {
				et.bareStop = true
			}
		}
		tests = append(tests, et)
	}
	okFD1, okFD2 := false, false
	var desc []string
	for _, t := range tests {
		desc = append(desc, fmt.Sprintf("exit test %s at %s: depends-on-dir=%v content-dependent=%v dominates-latch=%v bare-stop-compare=%v", condText(t.cond), c.bpos(t.blk), t.hasW, t.tainted, t.domLatch, t.bareStop))
		if t.hasW && !t.tainted && t.domLatch {
			okFD1 = true
			if !t.bareStop {
				okFD2 = true
			}
		}
	}
	// FD2 alternative: a pre-loop test relating start and stop that returns early
	for _, b := range fw.fn.Blocks {
		if fw.loop.body[b] || !dominates(b, fw.loop.header) {
			continue
		}
		if iff, ok := lastInstr(b).(*ssa.If); ok {
			sl := c.newSlicer()
			sl.depth = 0
			res := sl.run(iff.Cond)
			if res.has(fw.start) && res.has(fw.stop) {
				for _, s := range b.Succs {
					if _, isRet := lastInstr(s).(*ssa.Return); isRet {
						okFD2 = okFD2 || okFD1
					}
				}
			}
		}
	}
	key := fname(fw.fn) + " walk-loop exit-test-every-iteration"
	if okFD1 {
		r.ok(key, c.bpos(fw.loop.header), "an exit test on the searched directory, independent of its contents, dominates the back edge")
	} else {
		r.bad(key, c.bpos(fw.loop.header), "no exit test of the walk both depends on the searched directory only and is evaluated on every iteration: empty directories are climbed past the stop directory", desc...)
	}
	key = fname(fw.fn) + " walk-loop exit-at-root"
	if okFD2 {
		r.ok(key, c.bpos(fw.loop.header), "an exit test can fire at the root regardless of stop (parent == dir, or a pre-check of start against stop)")
	} else {
		r.bad(key, c.bpos(fw.loop.header), "the only content-independent exit is `dir == stop`: a start directory that is not below stop never terminates", desc...)
	}
	return r
}

func ruleFD3(c *Ctx) *rule {
	r := &rule{ID: "FD3", Engine: "E2", Floor: 1,
		Statement: "inside the loop over a directory's entries no 'not found' answer (empty path with a freshly constructed error) is returned; 'not found' is only decided after the listing is exhausted",
		Necessity: "a negative answer given while entries remain makes the result depend on what sorts before `spokfile` in the directory"}
	fw := c.findWalk()
	n := 0
	for _, ret := range returnsOf(fw.fn) {
		inner := fw.fi.innermostLoop(ret.Block())
		// returns reached only from inside the entries loop: their block is dominated by a block of an inner loop
		inEntries := false
		for _, l := range fw.fi.loops {
			if l == fw.loop || !fw.loop.body[l.header] {
				continue
			}
			for _, g := range fw.fi.necessaryGuards(ret.Block()) {
				if l.body[g.e.from] && g.e.from != l.header {
					inEntries = true
				}
				if g.e.from == l.header && l.body[g.e.to()] {
					inEntries = true
				}
			}
		}
		_ = inner
		if !inEntries {
			continue
		}
		ev := returnedErr(ret)
		if ev == nil || isNilConst(ev) {
			continue // the found-return
		}
		n++
		key := fmt.Sprintf("%s entries-loop return#%d", fname(fw.fn), n)
		// wrapping the error of a failed call is fine; a fresh error is a negative answer
		sl := c.newSlicer()
		sl.depth = 0
		res := sl.run(ev)
		wraps := false
		for v := range res.vals {
			if ex, ok := v.(*ssa.Extract); ok && isErrorType(ex.Type()) {
				wraps = true
			}
		}
		if wraps {
			r.ok(key, c.ipos(ret), "returns the error of a failed call")
		} else {
			r.bad(key, c.ipos(ret), "returns a 'not found' error from inside the loop over the entries: entries that sort after the current one are never looked at")
		}
	}
	if n == 0 {
		r.ok(fname(fw.fn)+" entries-loop no-negative-return", c.bpos(fw.loop.header), "the loop over the entries only returns on a hit")
	}
	// the walk as a whole: a negative answer (a freshly made error, not the error of a failed call) is only given where the
	// walk gives up, i.e. under a test of the searched directory that does not depend on what the directory contains
	m := 0
	for _, ret := range returnsOf(fw.fn) {
		if !dominates(fw.loop.header, ret.Block()) {
			continue
		}
		ev := returnedErr(ret)
		if ev == nil || isNilConst(ev) {
			continue
		}
		sl := c.newSlicer()
		sl.depth = 0
		res := sl.run(ev)
		wraps := false
		for v := range res.vals {
			if ex, ok := v.(*ssa.Extract); ok && isErrorType(ex.Type()) {
				wraps = true
			}
			if call, ok := v.(*ssa.Call); ok && isErrorType(call.Type()) && !definitelyNonNil(call) {
				wraps = true
			}
		}
		if wraps {
			continue
		}
		m++
		key := fmt.Sprintf("%s walk negative-return#%d", fname(fw.fn), m)
		isGiveUpTest := func(cond ssa.Value) bool {
			gs := c.newSlicer()
			gs.depth = 0
			gres := gs.run(cond)
			return gres.has(fw.w) && !(fw.rd != nil && gres.has(fw.rd)) && !gres.hasCall("os.Stat") && !gres.hasCall("os.Lstat")
		}
		giveUp := false
		for _, g := range fw.fi.necessaryGuards(ret.Block()) {
			if fw.loop.body[g.e.from] && isGiveUpTest(g.cond) {
				giveUp = true
			}
		}
		// or: every way into the return comes straight from such a test (`dir == stop || parent == dir` is two tests)
		if !giveUp {
			var viaTests func(b *ssa.BasicBlock, depth int) bool
			viaTests = func(b *ssa.BasicBlock, depth int) bool {
				if depth > 4 || len(b.Preds) == 0 {
					return false
				}
				for _, p := range b.Preds {
					if iff, ok := lastInstr(p).(*ssa.If); ok && fw.loop.body[p] {
						cond, _ := normCond(iff.Cond, true)
						if isGiveUpTest(cond) {
							continue
						}
						return false
					}
					if _, ok := lastInstr(p).(*ssa.Jump); ok && len(p.Instrs) == 1 && viaTests(p, depth+1) {
						continue
					}
					return false
				}
				return true
			}
			giveUp = viaTests(ret.Block(), 0)
		}
		if giveUp {
			r.ok(key, c.ipos(ret), "given only where the walk gives up (a test of the searched directory itself)")
		} else {
			r.bad(key, c.ipos(ret), "the search is abandoned with a 'not found'-style error because of what one directory contains, although a spokfile may exist further up")
		}
	}
	return r
}

func ruleFD4(c *Ctx) *rule {
	r := &rule{ID: "FD4", Engine: "E2+E3", Floor: 3,
		Statement: "the found-return has the necessary guards Name() == file.NAME and not-a-directory of the same entry, returns a path built from the searched directory and that name, and the CLI passes the working directory and the home directory as start and stop",
		Necessity: "without the name guard any file is a spokfile; without the directory guard a directory called spokfile hides the real one above it; a path not built from the searched directory is not the file that was found"}
	fw := c.findWalk()
	nameConst := ""
	if m, ok := c.pkg("file").Members["NAME"].(*ssa.NamedConst); ok {
		nameConst = constantStringValOf(m)
	}
	n := 0
	for _, ret := range returnsOf(fw.fn) {
		ev := returnedErr(ret)
		if ev == nil || !isNilConst(ev) {
			continue
		}
		n++
		gs := fw.fi.necessaryGuards(ret.Block())
		var nameEntry, dirEntry ssa.Value
		statShape, statRegular := false, false
		// the hit decided by a predicate over the entries (slices.ContainsFunc / IndexFunc): its ways of returning true carry the guards
		for _, g := range gs {
			coll, pred, found, isSearch := searchTest(g.cond, g.pol)
			if !isSearch || !found || !fw.fsTainted(c, coll) || predElem(pred) == nil {
				continue
			}
			sets := c.trueGuardSets(pred)
			allName, allDir := len(sets) > 0, len(sets) > 0
			for _, set := range sets {
				ne, de, _ := fdGuardFacts(set, nameConst)
				if ne == nil || !sameOrigins(ne, predElem(pred)) {
					allName = false
				}
				if de == nil || !sameOrigins(de, predElem(pred)) {
					allDir = false
				}
			}
			if allName {
				nameEntry = coll
			}
			if allDir {
				dirEntry = coll
			}
		}
		if ne, de, sr := fdGuardFacts(gs, nameConst); true {
			if ne != nil {
				nameEntry = ne
			}
			if de != nil {
				dirEntry = de
			}
			statRegular = sr
		}
		// the shape without a directory listing: the hit is a successful os.Stat of <dir>/NAME
		if nameEntry == nil {
			ps := c.newSlicer()
			ps.depth = 0
			pres := ps.run(ret.Results[0])
			for _, cst := range pres.consts {
				if sv, ok := constString(cst); ok && sv == nameConst && pres.has(fw.w) {
					statShape = true
				}
			}
		}
		key := fmt.Sprintf("%s found-return#%d name-guard", fname(fw.fn), n)
		if statShape {
			r.ok(key, c.ipos(ret), "the returned path is <searched directory>/"+nameConst)
			key = fmt.Sprintf("%s found-return#%d not-a-directory-guard", fname(fw.fn), n)
			if statRegular {
				r.ok(key, c.ipos(ret), "guarded by a not-a-directory / regular-file test")
			} else {
				r.bad(key, c.ipos(ret), "the existence of <dir>/"+nameConst+" is accepted without testing that it is not a directory: a directory named "+nameConst+" is returned as the spokfile", describeGuards(c, gs)...)
			}
			continue
		}
		if nameEntry != nil {
			r.ok(key, c.ipos(ret), "guarded by Name() == "+nameConst)
		} else {
			r.bad(key, c.ipos(ret), "a path is returned as found without the guard Name() == \""+nameConst+"\"", describeGuards(c, gs)...)
		}
		key = fmt.Sprintf("%s found-return#%d not-a-directory-guard", fname(fw.fn), n)
		if dirEntry != nil && (nameEntry == nil || sameOrigins(dirEntry, nameEntry)) {
			r.ok(key, c.ipos(ret), "guarded by !IsDir() of the same entry")
		} else {
			r.bad(key, c.ipos(ret), "a directory named "+nameConst+" would be returned as the spokfile (no !IsDir() guard on the same entry)", describeGuards(c, gs)...)
		}
		key = fmt.Sprintf("%s found-return#%d path", fname(fw.fn), n)
		sl := c.newSlicer()
		sl.depth = 0
		res := sl.run(ret.Results[0])
		if res.hasCall("path/filepath.EvalSymlinks") || res.hasCall("os.Readlink") {
			r.bad(key, c.ipos(ret), "the returned path is resolved through symbolic links: a spokfile that is a link makes the directory of its target the project root (cache, globs and --clean then work on another directory than the one the spokfile was found in)")
		} else if res.has(fw.w) && res.hasCall("path/filepath.Join") {
			r.ok(key, c.ipos(ret), "the returned path is built from the searched directory")
		} else {
			r.bad(key, c.ipos(ret), "the returned path is not built from the directory in which the entry was found")
		}
	}
	if n == 0 {
		r.bad(fname(fw.fn)+" found-return", c.pos(fw.fn.Pos()), "Find never returns a path with a nil error")
	}
	// call site in the CLI
	for _, site := range c.callersOf(fw.fn) {
		key := fmt.Sprintf("%s Find(start=cwd, stop=home)", fname(site.Parent()))
		args := site.Common().Args
		idx := func(p *ssa.Parameter) int {
			for i, q := range fw.fn.Params {
				if q == p {
					return i
				}
			}
			return -1
		}
		s1 := c.newSlicer()
		s1.depth = 0
		a := s1.run(args[idx(fw.start)])
		s2 := c.newSlicer()
		s2.depth = 0
		b := s2.run(args[idx(fw.stop)])
		if a.hasCall("os.Getwd") && b.hasCall("os.UserHomeDir") && (b.hasCall("os.Getwd") || a.hasCall("os.UserHomeDir")) {
			r.bad(key, c.ipos(site), "the start or the stop directory of the search is chosen between the working directory and the home directory: when the other one is picked the directories between them are never searched")
		} else if norm := func() string {
			// the walk ends when the two compare equal: a path rewriting applied to one of them only (symlink resolution, cleaning,
			// case folding) makes them differ where they name the same directory
			rewriters := []string{"path/filepath.EvalSymlinks", "os.Readlink", "path/filepath.Abs", "path/filepath.Clean", "strings.ToLower", "strings.ToUpper", "path/filepath.ToSlash", "path/filepath.FromSlash"}
			for _, n := range rewriters {
				if a.hasCall(n) != b.hasCall(n) {
					return n
				}
			}
			return ""
		}(); a.hasCall("os.Getwd") && b.hasCall("os.UserHomeDir") && norm != "" {
			r.bad(key, c.ipos(site), "only one of start and stop goes through "+norm+": where the other names the same directory differently (a symbolic link on the way) the walk never sees start == stop and climbs past the stop directory")
		} else if a.hasCall("os.Getwd") && b.hasCall("os.UserHomeDir") {
			r.ok(key, c.ipos(site), "start is the working directory, stop the home directory")
		} else {
			r.bad(key, c.ipos(site), "Find is not called with (working directory, home directory)")
		}
	}
	return r
}

// fdGuardFacts reads a guard set: the entry whose Name() is compared equal to NAME, the entry tested !IsDir(), and
// whether a not-a-directory / regular-file test is among the guards.
func fdGuardFacts(gs []guard, nameConst string) (nameEntry, dirEntry ssa.Value, statRegular bool) {
	for _, g := range gs {
		if bo, ok := g.cond.(*ssa.BinOp); ok && ((bo.Op == token.EQL && g.pol) || (bo.Op == token.NEQ && !g.pol)) {
			for _, pair := range [][2]ssa.Value{{bo.X, bo.Y}, {bo.Y, bo.X}} {
				if s, ok := constString(pair[1]); ok && s == nameConst {
					if call, ok := pair[0].(*ssa.Call); ok && call.Common().IsInvoke() && call.Common().Method.Name() == "Name" {
						nameEntry = call.Common().Value
					}
				}
			}
		}
		if call, ok := g.cond.(*ssa.Call); ok && strings.HasSuffix(calleeName(call.Common()), ").IsDir") && !g.pol {
			if call.Common().IsInvoke() {
				dirEntry = call.Common().Value
			}
		}
	}
	for _, g := range gs {
		if call, ok := g.cond.(*ssa.Call); ok && strings.HasSuffix(calleeName(call.Common()), ").IsRegular") && g.pol {
			dirEntry = nameEntry
			statRegular = true
		}
		if call, ok := g.cond.(*ssa.Call); ok && strings.HasSuffix(calleeName(call.Common()), ").IsDir") && !g.pol {
			statRegular = true
		}
	}
	return
}

func constantStringValOf(m *ssa.NamedConst) string {
	if s, ok := constString(m.Value); ok {
		return s
	}
	return ""
}

func ruleFD5(c *Ctx) *rule {
	r := &rule{ID: "FD5", Engine: "E2", Floor: 1,
		Statement: "the comparison with the stop directory that can end the walk is made on the directory that was listed in this iteration (not on its parent) and only after its entries have been examined",
		Necessity: "comparing the parent, or comparing before the listing, gives up without searching the stop directory itself, where the nearest spokfile may be"}
	fw := c.findWalk()
	n := 0
	for _, b := range fw.fn.Blocks {
		if !fw.loop.body[b] {
			continue
		}
		iff, ok := lastInstr(b).(*ssa.If)
		if !ok {
			continue
		}
		bo, ok := iff.Cond.(*ssa.BinOp)
		if !ok || (bo.Op != token.EQL && bo.Op != token.NEQ) {
			continue
		}
		var other ssa.Value
		if fw.stopSet[bo.X] {
			other = bo.Y
		} else if fw.stopSet[bo.Y] {
			other = bo.X
		} else {
			continue
		}
		n++
		key := fmt.Sprintf("%s stop-compare#%d", fname(fw.fn), n)
		if other != ssa.Value(fw.w) {
			r.bad(key, c.bpos(b), "the stop directory is compared with something other than the directory just listed (e.g. its parent): the stop directory itself is never searched")
			continue
		}
		// after the entries: every entries loop header dominates the test or the test is inside it (FD1/FD3 judge that)
		after := true
		for _, l := range fw.fi.loops {
			if l == fw.loop || !fw.loop.body[l.header] {
				continue
			}
			if !dominates(l.header, b) {
				after = false
			}
		}
		if fw.rd != nil && !before(fw.rd, iff) {
			after = false
		}
		if after {
			r.ok(key, c.bpos(b), "compares the listed directory, after its entries were read")
		} else {
			r.bad(key, c.bpos(b), "the walk can stop at the stop directory before its entries have been examined")
		}
	}
	// any other test on the stop directory that can end the walk (a prefix test, a relative path): the walk must end at the stop
	// directory and at the root, nowhere else
	m := 0
	for _, b := range fw.fn.Blocks {
		if !fw.loop.body[b] {
			continue
		}
		iff, ok := lastInstr(b).(*ssa.If)
		if !ok {
			continue
		}
		if bo, isBin := iff.Cond.(*ssa.BinOp); isBin && (bo.Op == token.EQL || bo.Op == token.NEQ) && (fw.stopSet[bo.X] || fw.stopSet[bo.Y]) {
			continue
		}
		call, isCall := iff.Cond.(*ssa.Call)
		if !isCall {
			if u, isNot := iff.Cond.(*ssa.UnOp); isNot && u.Op == token.NOT {
				call, isCall = u.X.(*ssa.Call)
			}
		}
		if !isCall {
			continue
		}
		onStop := false
		for _, a := range call.Common().Args {
			for _, o := range append([]ssa.Value{a}, origins(a)...) {
				if fw.stopSet[o] {
					onStop = true
				}
			}
		}
		if !onStop {
			continue
		}
		leaves := false
		for _, sx := range b.Succs {
			if !fw.loop.body[sx] {
				leaves = true
			}
		}
		if leaves {
			m++
			r.bad(fmt.Sprintf("%s stop-test#%d", fname(fw.fn), m), c.bpos(b), "the walk can also end on "+calleeName(call.Common())+" of the stop directory: it gives up (or goes on) where the stop directory is merely related to the directory searched, e.g. when the search started above it")
		}
	}
	if n == 0 {
		r.bad(fname(fw.fn)+" stop-compare", c.bpos(fw.loop.header), "the walk never compares the searched directory with the stop directory: it can climb above it")
	}
	return r
}

// ---- FD7: directories are compared in one spelling ------------------------------------------------------------------------------

func ruleFD7(c *Ctx) *rule {
	r := &rule{ID: "FD7", Engine: "E3", Floor: 2,
		Statement: "file.Find compares directories by their spelling, so both sides are spelled canonically: the directory the walk starts in and the stop directory it is compared with are results of filepath.Abs / Clean (or of Dir / Join / EvalSymlinks, which clean their result), never the caller's string as given",
		Necessity: "every later directory is filepath.Dir of the previous one and therefore clean; a stop directory given as \"$HOME/\" (os.UserHomeDir returns $HOME verbatim) never compares equal and the walk climbs above it, a relative start has no parent to climb to"}
	fw := c.findWalk()
	// the directory the walk starts in
	key := fname(fw.fn) + " walk starts in a canonical spelling"
	okStart := true
	for i, pred := range fw.loop.header.Preds {
		if fw.loop.body[pred] {
			continue
		}
		if !canonicalSpelling(fw.w.Edges[i], map[ssa.Value]bool{}) {
			okStart = false
		}
	}
	if okStart {
		r.ok(key, c.bpos(fw.loop.header), "the first directory searched is a cleaned path")
	} else {
		r.bad(key, c.bpos(fw.loop.header), "the walk starts in the directory as the caller spelled it: a relative start such as \".\" is its own filepath.Dir and the enclosing directories are never searched")
	}
	// the stop directory in every comparison inside the walk
	n := 0
	for _, b := range fw.fn.Blocks {
		if !fw.loop.body[b] {
			continue
		}
		for _, in := range b.Instrs {
			bo, ok := in.(*ssa.BinOp)
			if !ok || (bo.Op != token.EQL && bo.Op != token.NEQ) {
				continue
			}
			for _, v := range []ssa.Value{bo.X, bo.Y} {
				if !fw.stopSet[v] {
					continue
				}
				n++
				k := fmt.Sprintf("%s stop-compare#%d canonical spelling", fname(fw.fn), n)
				if canonicalSpelling(v, map[ssa.Value]bool{}) {
					r.ok(k, c.ipos(bo), "the stop directory is compared in its cleaned spelling")
				} else {
					r.bad(k, c.ipos(bo), "the stop directory is compared as the caller spelled it: \"/home/me/\" (what os.UserHomeDir returns for HOME=/home/me/) never equals the cleaned directory being searched and the walk climbs above the stop directory")
				}
			}
		}
	}
	if n == 0 {
		r.undecided(fname(fw.fn)+" stop-compare canonical spelling", c.bpos(fw.loop.header), "no equality test on the stop directory inside the walk (FD5 judges that)")
	}
	return r
}

func fsProperties() []*propertySpec {
	return []*propertySpec{
		{ID: "C05", Title: "A glob denotes exactly the matching non-hidden files under the spokfile dir",
			Explanation: "Static analysis of the single doublestar.GlobWalk call and its callback: GL1 proves by edge dominance that SkipDir is returned only for directory entries (library contract read in the module cache); GL2 enumerates every path of the callback and proves exactly one append of the entry's path per nil return outside the hidden-name branch; GL3 proves by slicing that the walked file system is os.DirFS(SpokFile.Dir), the pattern is the declared one unchanged, matches are joined with the same root and SpokFile.Globs is keyed by the expanded pattern; GL4 proves that nothing but loop conditions, error checks and the already-expanded test (miss side, non-empty hit) guards the expansion on the way from SpokFile.Run.",
			NotCovered:  []string{"the doublestar matcher itself", "the exact hidden-name predicate (top-level vs nested dot entries)", "symlinks"},
			Assumptions: []string{"doublestar v4.7.1 GlobWalk: SkipDir for a non-directory entry abandons the rest of its parent directory (globwalk.go); patterns are matched against paths relative to the fs.FS root"},
			Rules:       []func(*Ctx) *rule{ruleGL1, ruleGL2, ruleGL3, ruleGL4, ruleTK2, ruleAB2}},
		{ID: "C17", Title: "Spokfile discovery terminates and finds the nearest enclosing spokfile",
			Explanation: "Static analysis of file.Find: the walk loop is identified by its header phi fed by filepath.Dir of itself; FD1/FD2 classify every exit test of the loop by backward slicing (depends on the searched directory, independent of os.ReadDir results, dominates the back edge, can fire at the root); FD3 proves no negative answer is returned from inside the loop over the entries; FD4 proves the found-return is guarded by Name()==NAME and !IsDir() of the same entry and that the CLI passes cwd/home; FD5 proves the stop comparison is made on the listed directory after its entries were read.",
			NotCovered:  []string{"symlinked directories, permission errors other than being reported", "that filepath.Dir reaches a fixed point at the root (library fact)"},
			Assumptions: []string{"filepath.Dir(d) == d exactly at a file-system root; os.ReadDir returns all entries of a directory"},
			Rules:       []func(*Ctx) *rule{ruleFD1, ruleFD3, ruleFD4, ruleFD5, ruleFD6, ruleFD7, ruleAB2}},
	}
}

// unboundParam: the slice ends in a parameter of fn, and fn has no caller in the module (exported API entry).
func unboundParam(c *Ctx, res *sliceResult, fn *ssa.Function) bool {
	if len(c.callersOf(fn)) > 0 {
		return false
	}
	for _, p := range res.params {
		if p.Parent() == fn {
			return true
		}
	}
	return false
}

package main

import (
	"fmt"
	"go/token"
	"go/types"
	"sort"
	"strings"

	"golang.org/x/tools/go/ssa"
)

// ---- E5: concurrency shape of the hasher ----------------------------------------------------------------------------

type chanSite struct {
	instr ssa.Instruction
	fn    *ssa.Function
}

type chanInfo struct {
	mk    *ssa.MakeChan
	alias map[ssa.Value]bool
	cells map[ssa.Value]bool
	send  []chanSite
	recv  []chanSite
	close []chanSite
	other []chanSite // any other use (passed to unknown code, len, cap, ...)
}

// signal: a channel nothing is ever sent on: it only tells its receivers "closed" (a stop / done signal). It carries no data
// of the producer/workers/collector pipeline, so the pipeline rules ignore it; CC10 proves it is closed at most once.
func (ci *chanInfo) signal() bool { return len(ci.send) == 0 }

type wgInfo struct {
	alloc ssa.Value
	alias map[ssa.Value]bool
	add   []ssa.CallInstruction
	done  []ssa.CallInstruction
	wait  []ssa.CallInstruction
}

type goSite struct {
	g      *ssa.Go
	callee *ssa.Function
}

type hashTopo struct {
	c       *Ctx
	fn      *ssa.Function // the Hash implementation containing the go statements
	fi      *fnInfo
	gos     []goSite
	chans   []*chanInfo
	wgs     []*wgInfo
	jobs    *chanInfo // sent by a producer goroutine, received by workers
	results *chanInfo // sent by workers, received by the spawner
	workers []*ssa.Function
	procs   map[*ssa.Function]bool // all functions running as goroutines of this topology (+ the spawner)
}

var hashTopoCache = map[*Ctx]*hashTopo{}

// funcsOfTopology: the spawner, its go callees and closures.
func (c *Ctx) hashTopology() *hashTopo {
	if t, ok := hashTopoCache[c]; ok {
		return t
	}
	// trigger anchor: the implementation(s) of hash.Hasher.Hash that contain go statements
	iface := c.hasherIface()
	var cands []*ssa.Function
	for _, f := range c.ModFuncs {
		if f.Name() != "Hash" || f.Signature.Recv() == nil || f.Synthetic != "" {
			continue
		}
		if !types.Implements(f.Signature.Recv().Type(), iface) && !types.Implements(types.NewPointer(f.Signature.Recv().Type()), iface) {
			continue
		}
		for _, b := range f.Blocks {
			for _, in := range b.Instrs {
				if _, ok := in.(*ssa.Go); ok {
					cands = append(cands, f)
					goto next
				}
			}
		}
	next:
	}
	if len(cands) != 1 {
		lost("expected exactly one implementation of hash.Hasher.Hash that starts goroutines, found %d", len(cands))
	}
	// a worker pool packaged as a range-over-func iterator: once inlined, the consumer's loop body sits between the protocol checks
	// of the iterator (state variable jump$N, early exit = "stop the producers"); that is not the shape the rules below model
	for _, b := range cands[0].Blocks {
		if strings.HasPrefix(b.Comment, "rangefunc.") {
			lost("the hasher consumes its results through a range-over-func iterator: the goroutine topology is not the understood producer/jobs/workers/results/collector shape")
		}
	}
	t := &hashTopo{c: c, fn: cands[0], procs: map[*ssa.Function]bool{cands[0]: true}}
	t.fi = c.info(t.fn)
	for _, b := range t.fn.Blocks {
		for _, in := range b.Instrs {
			if g, ok := in.(*ssa.Go); ok {
				gs := goSite{g: g}
				switch v := g.Call.Value.(type) {
				case *ssa.Function:
					gs.callee = v
				case *ssa.MakeClosure:
					gs.callee = v.Fn.(*ssa.Function)
				}
				if gs.callee == nil {
					for _, f := range c.callees(g) {
						gs.callee = f
					}
				}
				if gs.callee != nil {
					t.procs[gs.callee] = true
				}
				t.gos = append(t.gos, gs)
			}
		}
	}
	// channels and wait groups created in the spawner
	wgField := map[string]bool{}
	for _, b := range t.fn.Blocks {
		for _, in := range b.Instrs {
			switch x := in.(type) {
			case *ssa.MakeChan:
				ci := &chanInfo{mk: x}
				ci.alias, ci.cells = t.aliases(x)
				t.chans = append(t.chans, ci)
			case *ssa.Alloc:
				if isNamed(x.Type(), "sync", "WaitGroup") {
					wi := &wgInfo{alloc: x}
					wi.alias, _ = t.aliases(x)
					t.wgs = append(t.wgs, wi)
				}
			case *ssa.FieldAddr:
				// a WaitGroup that is a field of a shared state object made here
				if isNamed(x.Type(), "sync", "WaitGroup") && !wgField[fmt.Sprintf("%s#%d", x.X.Type().String(), x.Field)] {
					made := false
					for _, o := range append([]ssa.Value{x.X}, origins(x.X)...) {
						if a, isA := o.(*ssa.Alloc); isA && a.Parent() == t.fn {
							made = true
						}
					}
					if made {
						wgField[fmt.Sprintf("%s#%d", x.X.Type().String(), x.Field)] = true
						wi := &wgInfo{alloc: x}
						wi.alias = map[ssa.Value]bool{x: true}
						for _, peer := range t.fieldPeers(x) {
							wi.alias[peer] = true
						}
						t.wgs = append(t.wgs, wi)
					}
				}
			}
		}
	}
	for _, ci := range t.chans {
		t.collectChanSites(ci)
	}
	for _, wi := range t.wgs {
		t.collectWGSites(wi)
	}
	// roles
	for _, ci := range t.chans {
		if ci.signal() {
			continue
		}
		recvInSpawner, sentInSpawner := false, false
		for _, s := range ci.recv {
			if s.fn == t.fn {
				recvInSpawner = true
			}
		}
		for _, s := range ci.send {
			if s.fn == t.fn {
				sentInSpawner = true
			}
		}
		if recvInSpawner && !sentInSpawner {
			t.results = ci
		}
	}
	for _, ci := range t.chans {
		if ci == t.results {
			continue
		}
		if len(ci.recv) > 0 && len(ci.send) > 0 {
			t.jobs = ci
		}
	}
	if t.results != nil {
		seen := map[*ssa.Function]bool{}
		for _, s := range t.results.send {
			if !seen[s.fn] {
				seen[s.fn] = true
				t.workers = append(t.workers, s.fn)
			}
		}
	}
	hashTopoCache[c] = t
	return t
}

// aliases propagates a value through stores to local cells, closure bindings, conversions, phis and call arguments
// of the topology's functions; it returns the aliasing values and the cells (addresses) holding it.
func (t *hashTopo) aliases(root ssa.Value) (map[ssa.Value]bool, map[ssa.Value]bool) {
	vals := map[ssa.Value]bool{root: true}
	cells := map[ssa.Value]bool{}
	work := []ssa.Value{root}
	push := func(v ssa.Value, cell bool) {
		if cell {
			if !cells[v] {
				cells[v] = true
				work = append(work, v)
			}
			return
		}
		if !vals[v] {
			vals[v] = true
			work = append(work, v)
		}
	}
	bindCall := func(cc *ssa.CallCommon, v ssa.Value, isCell bool) {
		var callee *ssa.Function
		var mc *ssa.MakeClosure
		switch f := cc.Value.(type) {
		case *ssa.Function:
			callee = f
		case *ssa.MakeClosure:
			callee = f.Fn.(*ssa.Function)
			mc = f
		}
		_ = mc
		if callee == nil || !inModule(callee) {
			return
		}
		for i, a := range cc.Args {
			if a == v && i < len(callee.Params) {
				push(callee.Params[i], isCell)
			}
		}
	}
	for len(work) > 0 {
		v := work[len(work)-1]
		work = work[:len(work)-1]
		isCell := cells[v] && !vals[v]
		// a cell that is a field of a struct shared between the goroutines (a pool / state object): every access to that field
		// of that struct type in the topology's functions names the same cell
		if fa, ok := v.(*ssa.FieldAddr); ok && isCell {
			for _, peer := range t.fieldPeers(fa) {
				push(peer, true)
			}
		}
		for _, ref := range valueReferrers(v) {
			switch r := ref.(type) {
			case *ssa.Store:
				if r.Val == v && !isCell {
					push(r.Addr, true)
				}
			case *ssa.UnOp:
				if r.Op == token.MUL && r.X == v && isCell {
					push(r, false)
				}
			case *ssa.ChangeType:
				push(r, isCell)
			case *ssa.MakeInterface:
			case *ssa.Phi:
				push(r, isCell)
			case *ssa.MakeClosure:
				fn := r.Fn.(*ssa.Function)
				for i, b := range r.Bindings {
					if b == v && i < len(fn.FreeVars) {
						push(fn.FreeVars[i], isCell)
					}
				}
			case *ssa.Call:
				bindCall(r.Common(), v, isCell)
			case *ssa.Go:
				bindCall(r.Common(), v, isCell)
			case *ssa.Defer:
				bindCall(r.Common(), v, isCell)
			}
		}
	}
	return vals, cells
}

// fieldPeers: the FieldAddr instructions, in the spawner and in every function it starts as a goroutine, that address the same
// field of the same struct type as fa.
func (t *hashTopo) fieldPeers(fa *ssa.FieldAddr) []*ssa.FieldAddr {
	key := func(x *ssa.FieldAddr) string {
		pt, ok := x.X.Type().Underlying().(*types.Pointer)
		if !ok {
			return ""
		}
		return fmt.Sprintf("%s#%d", pt.Elem().String(), x.Field)
	}
	want := key(fa)
	if want == "" {
		return nil
	}
	var out []*ssa.FieldAddr
	for f := range t.procs {
		for _, b := range f.Blocks {
			for _, in := range b.Instrs {
				if x, ok := in.(*ssa.FieldAddr); ok && x != fa && key(x) == want {
					out = append(out, x)
				}
			}
		}
	}
	return out
}

func (t *hashTopo) collectChanSites(ci *chanInfo) {
	for v := range ci.alias {
		for _, ref := range valueReferrers(v) {
			fn := ref.Parent()
			switch r := ref.(type) {
			case *ssa.Send:
				if r.Chan == v {
					ci.send = append(ci.send, chanSite{r, fn})
				}
			case *ssa.UnOp:
				if r.Op == token.ARROW && r.X == v {
					ci.recv = append(ci.recv, chanSite{r, fn})
				}
			case *ssa.Select:
				for _, st := range r.States {
					if st.Chan == v {
						if st.Dir == types.SendOnly {
							ci.send = append(ci.send, chanSite{r, fn})
						} else {
							ci.recv = append(ci.recv, chanSite{r, fn})
						}
					}
				}
			case *ssa.Range:
				ci.recv = append(ci.recv, chanSite{r, fn})
			case ssa.CallInstruction:
				if b, ok := r.Common().Value.(*ssa.Builtin); ok && b.Name() == "close" {
					ci.close = append(ci.close, chanSite{r, fn})
				} else if b, ok := r.Common().Value.(*ssa.Builtin); ok && (b.Name() == "len" || b.Name() == "cap") {
					ci.other = append(ci.other, chanSite{r, fn})
				} else {
					callee := r.Common().StaticCallee()
					if mc, ok := r.Common().Value.(*ssa.MakeClosure); ok {
						callee = mc.Fn.(*ssa.Function)
					}
					if callee == nil || !inModule(callee) {
						ci.other = append(ci.other, chanSite{r, fn})
					}
				}
			}
		}
	}
	by := func(s []chanSite) {
		sort.Slice(s, func(i, j int) bool { return s[i].instr.Pos() < s[j].instr.Pos() })
	}
	by(ci.send)
	by(ci.recv)
	by(ci.close)
}

func (t *hashTopo) collectWGSites(wi *wgInfo) {
	for v := range wi.alias {
		for _, ref := range valueReferrers(v) {
			ci, ok := ref.(ssa.CallInstruction)
			if !ok || len(ci.Common().Args) == 0 || ci.Common().Args[0] != v {
				continue
			}
			switch calleeName(ci.Common()) {
			case "(*sync.WaitGroup).Add":
				wi.add = append(wi.add, ci)
			case "(*sync.WaitGroup).Done":
				wi.done = append(wi.done, ci)
			case "(*sync.WaitGroup).Wait":
				wi.wait = append(wi.wait, ci)
			}
		}
	}
}

func (t *hashTopo) describe(r *rule) {
	c := t.c
	r.note("spawner %s: %d go statements, %d channels, %d wait groups", fname(t.fn), len(t.gos), len(t.chans), len(t.wgs))
	for _, g := range t.gos {
		r.note("go %s at %s", fname(g.callee), c.ipos(g.g))
	}
	for _, ci := range t.chans {
		role := "?"
		if ci == t.jobs {
			role = "jobs"
		}
		if ci == t.results {
			role = "results"
		}
		r.note("channel %s (%s): %d send, %d receive, %d close site(s)", ci.mk.Name(), role, len(ci.send), len(ci.recv), len(ci.close))
	}
}

// requireTopology: producer -> jobs -> workers -> results -> collector, one wait group. Anything else is undecided.
func (t *hashTopo) requireTopology(r *rule) bool {
	c := t.c
	nData := 0
	for _, ci := range t.chans {
		if !ci.signal() {
			nData++
		}
	}
	if t.jobs == nil || t.results == nil || len(t.workers) == 0 || len(t.wgs) != 1 || nData != 2 {
		r.undecided(fname(t.fn)+" topology", c.pos(t.fn.Pos()), fmt.Sprintf("the goroutine topology is not the understood producer/jobs/workers/results/collector shape (channels=%d, wait groups=%d, workers=%d)", len(t.chans), len(t.wgs), len(t.workers)))
		return false
	}
	// every function that sends on or receives from a data channel is the spawner or the body of a go statement: a send made in
	// a function that a goroutine only calls (a callback, an `emit` closure handed to the work function) is not attributed to
	// the goroutine that makes it, and the per-goroutine rules would judge the wrong function
	spawned := map[*ssa.Function]bool{t.fn: true}
	for _, g := range t.gos {
		if g.callee != nil {
			spawned[g.callee] = true
		}
	}
	for _, ci := range []*chanInfo{t.jobs, t.results} {
		for _, s := range append(append([]chanSite{}, ci.send...), ci.recv...) {
			if !spawned[s.fn] {
				r.undecided(fname(t.fn)+" topology", c.ipos(s.instr), "the channel operation is made in "+fname(s.fn)+", which no go statement of the hasher starts (it is called from a goroutine through a function value): the goroutine topology is not the understood shape")
				return false
			}
		}
	}
	return true
}

// recvLoop returns the loop whose header performs the receive site (range over channel / for { <-ch }).
func (t *hashTopo) recvLoop(s chanSite) (*fnInfo, *loopInfo) {
	fi := t.c.info(s.fn)
	return fi, fi.innermostLoop(s.instr.Block())
}

// ---- C18 rules ----------------------------------------------------------------------------------------------------------

func nilable(t types.Type) bool {
	switch t.Underlying().(type) {
	case *types.Pointer, *types.Interface, *types.Map, *types.Slice, *types.Chan, *types.Signature:
		return true
	}
	return false
}

// definiteDerefs lists the instructions that dereference v for sure when executed.
func definiteDerefs(v ssa.Value) []ssa.Instruction {
	var out []ssa.Instruction
	for _, ref := range valueReferrers(v) {
		switch r := ref.(type) {
		case ssa.CallInstruction:
			if r.Common().IsInvoke() && r.Common().Value == v {
				out = append(out, ref)
			}
		case *ssa.FieldAddr:
			if r.X == v {
				out = append(out, ref)
			}
		case *ssa.IndexAddr:
			if r.X == v {
				if _, isPtr := v.Type().Underlying().(*types.Pointer); isPtr {
					out = append(out, ref)
				}
			}
		case *ssa.UnOp:
			if r.Op == token.MUL && r.X == v {
				out = append(out, ref)
			}
		}
	}
	return out
}

type valErrCall struct {
	call *ssa.Call
	val  *ssa.Extract
	err  *ssa.Extract
}

// valueErrorCalls finds `v, err := f(...)` calls of fn with a nil-able v.
func valueErrorCalls(fn *ssa.Function) []valErrCall {
	var out []valErrCall
	for _, site := range callSites(fn) {
		call, ok := site.(*ssa.Call)
		if !ok {
			continue
		}
		tup, ok := call.Type().(*types.Tuple)
		if !ok || tup.Len() != 2 || !isErrorType(tup.At(1).Type()) {
			continue
		}
		ve := valErrCall{call: call}
		for _, ref := range valueReferrers(call) {
			if ex, ok := ref.(*ssa.Extract); ok {
				if ex.Index == 0 {
					ve.val = ex
				} else {
					ve.err = ex
				}
			}
		}
		out = append(out, ve)
	}
	return out
}

func ruleCC1(c *Ctx) *rule {
	r := &rule{ID: "CC1", Engine: "E2+E5", Floor: 2,
		Statement: "in the hashing goroutines, a nil-able result paired with an error is never definitely dereferenced where the error was discarded or on the err != nil edge",
		Necessity: "os.Open/(*os.File).Stat return a nil value with a non-nil error; dereferencing it crashes the whole process on a missing, dangling or vanished dependency"}
	t := c.hashTopology()
	t.describe(r)
	fns := []*ssa.Function{}
	for f := range t.procs {
		fns = append(fns, f)
	}
	sort.Slice(fns, func(i, j int) bool { return fns[i].String() < fns[j].String() })
	for _, fn := range fns {
		fi := c.info(fn)
		for _, ve := range valueErrorCalls(fn) {
			if ve.val == nil || !nilable(ve.val.Type()) {
				continue
			}
			derefs := definiteDerefs(ve.val)
			key := fmt.Sprintf("%s %s result", fname(fn), calleeName(ve.call.Common()))
			if len(derefs) == 0 {
				r.ok(key, c.ipos(ve.call), "result is never dereferenced directly (only passed to nil-safe concrete methods / calls)")
				continue
			}
			if ve.err == nil || len(valueReferrers(ve.err)) == 0 {
				r.bad(key, c.ipos(derefs[0]), fmt.Sprintf("the error of %s is discarded and its %s result is dereferenced (%s) — nil when the call fails", calleeName(ve.call.Common()), ve.val.Type(), describeInstr(derefs[0])))
				continue
			}
			// dereference reachable from the err != nil edge within the iteration
			badAt := ""
			for _, ref := range valueReferrers(ve.err) {
				b, ok := ref.(*ssa.BinOp)
				if !ok {
					continue
				}
				x, nonNilWhenTrue, ok := errNilTest(b)
				if !ok || x != ssa.Value(ve.err) {
					continue
				}
				for _, rr := range valueReferrers(b) {
					iff, ok := rr.(*ssa.If)
					if !ok {
						continue
					}
					idx := 1
					if nonNilWhenTrue {
						idx = 0
					}
					start := iff.Block().Succs[idx]
					reg := fi.regionOf(fi.innermostLoop(iff.Block()))
					seen := map[*ssa.BasicBlock]bool{}
					work := []*ssa.BasicBlock{start}
					for len(work) > 0 {
						blk := work[len(work)-1]
						work = work[:len(work)-1]
						if blk == nil || seen[blk] || !reg.in[blk] {
							continue
						}
						seen[blk] = true
						for _, d := range derefs {
							if d.Block() == blk {
								badAt = c.ipos(d)
							}
						}
						work = append(work, reg.succs(blk)...)
					}
				}
			}
			if badAt != "" {
				r.bad(key, badAt, fmt.Sprintf("the %s result of %s is dereferenced on a path where its error is non-nil", ve.val.Type(), calleeName(ve.call.Common())))
			} else {
				r.ok(key, c.ipos(ve.call), "every dereference is off the err != nil edge")
			}
		}
	}
	return r
}

func describeInstr(i ssa.Instruction) string {
	if ci, ok := i.(ssa.CallInstruction); ok {
		return "call of " + calleeName(ci.Common())
	}
	return i.String()
}

func ruleCC2(c *Ctx) *rule {
	r := &rule{ID: "CC2", Engine: "E2+E3+E5", Floor: 2,
		Statement: "each error a worker obtains from a call whose value it goes on to use is carried, on its non-nil edge, in a result that is sent on every path to the next receive",
		Necessity: "an open/read error that is dropped (or followed by `continue`) yields a digest computed without that file instead of an error"}
	t := c.hashTopology()
	t.describe(r)
	if !t.requireTopology(r) {
		return r
	}
	for _, w := range t.workers {
		fi := c.info(w)
		for _, ve := range valueErrorCalls(w) {
			// relevant if the value result is used, or if the call feeds the content hash (its data result is its side effect)
			feeds := map[string]bool{"io.Copy": true, "io.CopyN": true, "io.CopyBuffer": true, "io.ReadAll": true, "io.ReadFull": true, "(*os.File).Read": true, "os.ReadFile": true}
			if (ve.val == nil || len(valueReferrers(ve.val)) == 0) && !feeds[calleeName(ve.call.Common())] {
				continue
			}
			key := fmt.Sprintf("%s err-of %s", fname(w), calleeName(ve.call.Common()))
			if ve.err == nil || len(valueReferrers(ve.err)) == 0 {
				r.bad(key, c.ipos(ve.call), "the error is discarded (or overwritten before it is looked at) although the call's result is used: a failure here can never reach the caller")
				continue
			}
			ok, why := t.errSentOnAllPaths(fi, ve.err)
			if ok {
				r.ok(key, c.ipos(ve.call), "on the non-nil edge every path to the next receive sends a result carrying the error")
			} else {
				r.bad(key, c.ipos(ve.call), why)
			}
		}
	}
	return r
}

// errSentOnAllPaths: from every `err != nil` edge, every intra-iteration path reaches a send on the results channel
// whose value slices to err before the iteration ends.
func (t *hashTopo) errSentOnAllPaths(fi *fnInfo, errv ssa.Value) (bool, string) {
	c := t.c
	// the error-typed values stored into the fields of the struct that a send transmits; they are followed along the
	// path (which operand a phi took), so "carries the error" means the error obtained on this path, not on another one
	errFieldVals := map[*ssa.Send][]ssa.Value{}
	for _, b := range fi.fn.Blocks {
		for _, in := range b.Instrs {
			s, ok := in.(*ssa.Send)
			if !ok || !t.results.alias[s.Chan] {
				continue
			}
			for _, o := range origins(s.X) {
				u, ok := o.(*ssa.UnOp)
				if !ok || u.Op != token.MUL {
					continue
				}
				for _, ref := range valueReferrers(u.X) {
					fa, ok := ref.(*ssa.FieldAddr)
					if !ok || !isErrorType(fa.Type().Underlying().(*types.Pointer).Elem()) {
						continue
					}
					for _, rr := range valueReferrers(fa) {
						if st, ok := rr.(*ssa.Store); ok && st.Addr == ssa.Value(fa) {
							errFieldVals[s] = append(errFieldVals[s], st.Val)
							registerControlValue(st.Val, s)
						}
					}
				}
			}
		}
	}
	isSendOfErr := func(in ssa.Instruction, ps *pathState) bool {
		s, ok := in.(*ssa.Send)
		if !ok || !t.results.alias[s.Chan] {
			return false
		}
		if vals := errFieldVals[s]; len(vals) > 0 && ps != nil {
			for _, v := range vals {
				sl := c.newSlicer()
				sl.depth = 0
				if sl.run(ps.resolve(v)).has(errv) {
					return true
				}
			}
			return false
		}
		sl := c.newSlicer()
		sl.depth = 0
		return sl.run(s.X).has(errv)
	}
	search := func(from *ssa.BasicBlock, fromIdx int, ps *pathState, what string) (bool, string) {
		loop := fi.innermostLoop(from)
		reg := fi.regionOf(loop)
		seen := map[string]bool{}
		bad := ""
		var dfs func(b *ssa.BasicBlock, idx int, ps *pathState)
		dfs = func(b *ssa.BasicBlock, idx int, ps *pathState) {
			if bad != "" {
				return
			}
			if b == nil {
				bad = "a path from " + what + " reaches the next receive (or leaves the worker) without sending the error"
				return
			}
			if idx == 0 {
				k := fmt.Sprintf("%d|%s", b.Index, ps.key())
				if seen[k] {
					return
				}
				seen[k] = true
			}
			for _, in := range b.Instrs[idx:] {
				if isSendOfErr(in, ps) {
					return
				}
			}
			for i, s := range reg.succs(b) {
				_, _, next, feasible := ps.branch(b, i)
				if !feasible {
					continue
				}
				var nps *pathState
				if s != nil {
					nps = next.enter(s, b)
				}
				dfs(s, 0, nps)
			}
		}
		dfs(from, fromIdx, ps)
		return bad == "", bad
	}
	tested := false
	for _, ref := range valueReferrers(errv) {
		b, ok := ref.(*ssa.BinOp)
		if !ok {
			continue
		}
		x, nonNilWhenTrue, ok := errNilTest(b)
		if !ok || x != errv {
			continue
		}
		for _, rr := range valueReferrers(b) {
			iff, ok := rr.(*ssa.If)
			if !ok {
				continue
			}
			tested = true
			idx := 1
			if nonNilWhenTrue {
				idx = 0
			}
			ps := newPathStateFor(fi.fn).seedFromGuards(iff.Block())
			if _, _, next, feasible := ps.branch(iff.Block(), idx); feasible {
				ps = next
			}
			start := iff.Block().Succs[idx]
			if ok, why := search(start, 0, ps.enter(start, iff.Block()), "the err != nil edge at "+c.bpos(iff.Block())); !ok {
				return false, why
			}
		}
	}
	if !tested {
		// the error is stored into the result unconditionally (`_, res.err = io.Copy(...)`): every path from the call must send it
		in, ok := errv.(ssa.Instruction)
		if !ok {
			return false, "the error is never tested against nil"
		}
		stored := false
		for _, ref := range valueReferrers(errv) {
			if _, isStore := ref.(*ssa.Store); isStore {
				stored = true
			}
		}
		// or it reaches the error field of a result that is sent through the merge of a helper's return values
		for _, vals := range errFieldVals {
			for _, v := range vals {
				for _, o := range origins(v) {
					if o == errv {
						stored = true
					}
				}
			}
		}
		if !stored {
			return false, "the error is never tested against nil nor stored into the result"
		}
		pos := 0
		for i, x := range in.Block().Instrs {
			if x == in {
				pos = i + 1
			}
		}
		return search(in.Block(), pos, newPathStateFor(fi.fn).seedFromGuards(in.Block()), "the call at "+c.ipos(in))
	}
	return true, ""
}

func ruleCC3(c *Ctx) *rule {
	r := &rule{ID: "CC3", Engine: "E2+E3", Floor: 1,
		Statement: "the digest-with-nil-error return of Hash is guarded by a condition computed from the error field of every received result, and the complementary edge returns a non-nil error",
		Necessity: "otherwise a file that could not be read yields a digest instead of an error"}
	t := c.hashTopology()
	t.describe(r)
	if !t.requireTopology(r) {
		return r
	}
	// the error field of the result struct: the field of error type in the channel's element type
	elem := t.results.mk.Type().Underlying().(*types.Chan).Elem()
	st, ok := elem.Underlying().(*types.Struct)
	if !ok {
		r.undecided(fname(t.fn)+" result type", c.ipos(t.results.mk), "results channel does not carry a struct")
		return r
	}
	errField := ""
	for i := 0; i < st.NumFields(); i++ {
		if isErrorType(st.Field(i).Type()) {
			errField = st.Field(i).Name()
		}
	}
	if errField == "" {
		r.bad(fname(t.fn)+" result.err", c.ipos(t.results.mk), "the result sent by workers has no error field: failures cannot be reported")
		return r
	}
	owner := namedOf(elem)
	fkey := ""
	if owner != nil {
		fkey = shortPkg(owner.Obj().Pkg().Path()) + "." + owner.Obj().Name() + "." + errField
	}
	n := 0
	for _, ret := range returnsOf(t.fn) {
		ev := returnedErr(ret)
		if ev == nil || !isNilConst(ev) {
			continue
		}
		n++
		key := fmt.Sprintf("%s return-nil-error#%d", fname(t.fn), n)
		found := false
		for _, g := range t.fi.necessaryGuards(ret.Block()) {
			sl := c.newSlicer()
			sl.depth = 0
			res := sl.run(g.cond)
			if res.hasField(fkey) {
				// the other edge must end in an error
				other := edge{g.e.from, 1 - g.e.idx}
				if ok, _ := c.edgeEndsInError(other); ok {
					found = true
				}
			}
		}
		if found {
			r.ok(key, c.ipos(ret), "guarded by a test over the received results' error field whose other edge returns an error")
		} else {
			r.bad(key, c.ipos(ret), "Hash can return a digest with a nil error without any guard derived from the errors carried by the received results")
		}
	}
	if n == 0 {
		r.undecided(fname(t.fn)+" return-nil-error", c.pos(t.fn.Pos()), "Hash has no return with a nil error")
	}
	return r
}

func ruleCC4(c *Ctx) *rule {
	r := &rule{ID: "CC4", Engine: "E2+E5", Floor: 2,
		Statement: "every goroutine registered with the wait group signals Done exactly once on every exit (deferred at entry), and each Add(1) precedes its go statement in the spawning goroutine, once per go",
		Necessity: "a missing Done blocks Wait forever (results never closed: deadlock); a late or missing Add lets Wait return early so results is closed under a sending worker (panic)"}
	t := c.hashTopology()
	t.describe(r)
	if !t.requireTopology(r) {
		return r
	}
	wg := t.wgs[0]
	for _, w := range t.workers {
		key := fname(w) + " Done"
		var dones []ssa.CallInstruction
		for _, d := range wg.done {
			if d.Parent() == w {
				dones = append(dones, d)
			}
		}
		switch {
		case len(dones) == 0:
			r.bad(key, c.pos(w.Pos()), "a goroutine that sends on the results channel never calls Done on the wait group that gates closing it")
		case len(dones) > 1:
			r.bad(key, c.ipos(dones[1]), "Done can be called more than once per worker (negative WaitGroup counter panics)")
		default:
			d := dones[0]
			if _, isDefer := d.(*ssa.Defer); isDefer && d.Block() == w.Blocks[0] {
				r.ok(key, c.ipos(d), "deferred in the entry block: runs on every exit")
			} else if _, isDefer := d.(*ssa.Defer); isDefer {
				r.bad(key, c.ipos(d), "Done is deferred only on some paths; an earlier return leaves the wait group waiting forever")
			} else {
				// plain call: must dominate every return and not be in a loop
				ok := c.info(w).innermostLoop(d.Block()) == nil
				for _, ret := range returnsOf(w) {
					if !before(d, ret) {
						ok = false
					}
				}
				// ... and after the worker's last send: a Done that can be followed by a send lets Wait return, and the
				// results channel be closed, under a sending worker
				early := ""
				for _, sd := range t.results.send {
					if sd.fn != w {
						continue
					}
					in := sd.instr
					if (in.Block() == d.Block() && before(d, in)) || (in.Block() != d.Block() && blockReaches(d.Block(), in.Block())) || (in.Block() == d.Block() && c.info(w).innermostLoop(d.Block()) != nil) {
						early = c.ipos(in)
					}
				}
				if early != "" {
					r.bad(key, c.ipos(d), "Done is signalled before the worker's last send ("+early+"): Wait can return and the results channel be closed while this worker still sends (panic: send on closed channel)")
				} else if ok {
					r.ok(key, c.ipos(d), "called once on every path to every return")
				} else {
					r.bad(key, c.ipos(d), "Done is not executed exactly once on every exit of the worker")
				}
			}
		}
	}
	// Add precedes go, same multiplicity
	for _, g := range t.gos {
		isWorker := false
		for _, w := range t.workers {
			if g.callee == w {
				isWorker = true
			}
		}
		if !isWorker {
			continue
		}
		key := fmt.Sprintf("%s Add-before-go %s", fname(t.fn), fname(g.callee))
		var add ssa.CallInstruction
		for _, a := range wg.add {
			if a.Parent() == t.fn && before(a, g.g) {
				add = a
			}
		}
		if add == nil {
			r.bad(key, c.ipos(g.g), "no wg.Add precedes this go statement in the spawning goroutine")
			continue
		}
		n, isConst := constInt(add.Common().Args[1])
		sameLoop := t.fi.innermostLoop(add.Block()) == t.fi.innermostLoop(g.g.Block())
		switch {
		case isConst && n == 1 && sameLoop:
			r.ok(key, c.ipos(add), "Add(1) in the same loop iteration as the go statement")
		case !sameLoop:
			// Add(n) before the loop with n the loop bound
			if bound := t.workerLoopBound(g); bound != nil && add.Common().Args[1] == bound {
				r.ok(key, c.ipos(add), "Add(bound) before the loop that starts bound workers")
			} else {
				r.bad(key, c.ipos(add), "the Add is not executed once per started worker (different loop nesting than the go statement)")
			}
		default:
			r.bad(key, c.ipos(add), "Add does not register exactly one goroutine per go statement")
		}
	}
	return r
}

// workerLoopBound returns the SSA value bounding the loop that contains the go statement (iter < bound), or nil.
func (t *hashTopo) workerLoopBound(g goSite) ssa.Value {
	l := t.fi.innermostLoop(g.g.Block())
	if l == nil {
		return nil
	}
	for _, b := range t.fn.Blocks {
		if !l.body[b] {
			continue
		}
		iff, ok := lastInstr(b).(*ssa.If)
		if !ok {
			continue
		}
		bo, ok := iff.Cond.(*ssa.BinOp)
		if !ok || bo.Op != token.LSS {
			continue
		}
		// one successor outside the loop
		if l.body[b.Succs[0]] && l.body[b.Succs[1]] {
			continue
		}
		return bo.Y
	}
	return nil
}

func ruleCC5(c *Ctx) *rule {
	r := &rule{ID: "CC5", Engine: "E2+E5", Floor: 3,
		Statement: "each channel is closed exactly once: jobs by its sole producer after its last send on every path, results after Wait() on the group of all its senders; there are no other senders",
		Necessity: "an unclosed jobs channel leaves the workers blocked forever; closing results before all workers are done panics a sender; a second closer or sender breaks both arguments"}
	t := c.hashTopology()
	t.describe(r)
	if !t.requireTopology(r) {
		return r
	}
	// jobs
	{
		key := fname(t.fn) + " close(jobs)"
		ci := t.jobs
		prod := map[*ssa.Function]bool{}
		for _, s := range ci.send {
			prod[s.fn] = true
		}
		switch {
		case len(ci.close) != 1:
			r.bad(key, c.ipos(ci.mk), fmt.Sprintf("the jobs channel has %d close sites, exactly one is required", len(ci.close)))
		case len(prod) != 1:
			r.bad(key, c.ipos(ci.mk), fmt.Sprintf("the jobs channel has %d sending functions, a sole producer is required", len(prod)))
		case !prod[ci.close[0].fn]:
			r.bad(key, c.ipos(ci.close[0].instr), "the jobs channel is closed by a goroutine other than its producer (a send may follow the close)")
		default:
			cl := ci.close[0].instr
			ok := true
			why := ""
			_, deferred := cl.(*ssa.Defer)
			rs := reachFromInstr(cl)
			for _, s := range ci.send {
				if rs[s.instr.Block()] && !deferred {
					ok, why = false, "a send on jobs is reachable after the close"
				}
				if s.instr.Block() == cl.Block() && before(cl, s.instr) && !deferred {
					ok, why = false, "a send on jobs follows the close"
				}
			}
			if !deferred {
				for _, ret := range returnsOf(ci.close[0].fn) {
					if !before(cl, ret) {
						ok, why = false, "the producer can return without closing jobs (workers would wait forever)"
					}
				}
			} else if cl.Block() != ci.close[0].fn.Blocks[0] {
				ok, why = false, "the deferred close is not registered on every path"
			}
			if ok {
				r.ok(key, c.ipos(cl), "closed once, by the sole producer, after the last send, on every path")
			} else {
				r.bad(key, c.ipos(cl), why)
			}
		}
	}
	// results
	{
		key := fname(t.fn) + " close(results)"
		ci := t.results
		wg := t.wgs[0]
		if len(ci.close) != 1 {
			r.bad(key, c.ipos(ci.mk), fmt.Sprintf("the results channel has %d close sites, exactly one is required", len(ci.close)))
		} else {
			cl := ci.close[0].instr
			var wait ssa.CallInstruction
			for _, w := range wg.wait {
				if w.Parent() == cl.Parent() && before(w, cl) {
					wait = w
				}
			}
			if _, clDeferred := cl.(*ssa.Defer); clDeferred && wait == nil && cl.Block() == cl.Parent().Blocks[0] {
				// `defer close(results); wg.Wait()`: the deferred close runs when the goroutine returns, and every return
				// comes after the Wait
				for _, w := range wg.wait {
					if _, wDeferred := w.(*ssa.Defer); wDeferred || w.Parent() != cl.Parent() {
						continue
					}
					all := true
					for _, ret := range returnsOf(cl.Parent()) {
						if !before(w, ret) {
							all = false
						}
					}
					if all {
						wait = w
					}
				}
			}
			if wait == nil {
				r.bad(key, c.ipos(cl), "the results channel is closed without first waiting for the wait group of its senders")
			} else if _, isDefer := wait.(*ssa.Defer); isDefer {
				r.bad(key, c.ipos(cl), "Wait is deferred, so the close does not come after it")
			} else {
				r.ok(key, c.ipos(cl), "closed once, after Wait() on the workers' wait group")
			}
		}
		// all senders are workers registered with the group (Done)
		for _, s := range ci.send {
			k2 := fmt.Sprintf("%s send(results) in %s", fname(t.fn), fname(s.fn))
			has := false
			for _, d := range wg.done {
				if d.Parent() == s.fn {
					has = true
				}
			}
			if has {
				r.ok(k2, c.ipos(s.instr), "sender is registered with the wait group")
			} else {
				r.bad(k2, c.ipos(s.instr), "a goroutine sends on results without being registered with the wait group that gates its close")
			}
		}
		for _, o := range append(append([]chanSite{}, t.jobs.other...), t.results.other...) {
			r.undecided(fmt.Sprintf("%s channel escapes", fname(o.fn)), c.ipos(o.instr), "a channel of the topology is passed to code that is not analysed")
		}
	}
	return r
}

// activatedOnce: fn runs at most once per call of the spawner: it is the spawner, or all its activations (call, go, defer,
// sync.Once.Do) add up to one site outside every loop in a function that itself runs at most once.
func (t *hashTopo) activatedOnce(fn *ssa.Function, seen map[*ssa.Function]bool) (bool, string) {
	c := t.c
	if fn == t.fn {
		return true, ""
	}
	if seen[fn] {
		return false, fname(fn) + " is recursive"
	}
	seen[fn] = true
	sites := c.callersOf(fn)
	if len(sites) == 0 {
		return false, "no activation of " + fname(fn) + " was found"
	}
	n := 0
	for _, site := range sites {
		parent := site.Parent()
		if !inModule(parent) {
			if pn := fname(parent); strings.Contains(pn, "sync.Once") {
				n++
				continue
			}
			return false, fname(fn) + " is called from " + fname(parent)
		}
		if l := c.info(parent).innermostLoop(site.Block()); l != nil {
			return false, fmt.Sprintf("%s is started inside the loop at %s (%s)", fname(fn), c.bpos(l.header), c.ipos(site))
		}
		if ok, why := t.activatedOnce(parent, seen); !ok {
			return false, why
		}
		n++
	}
	if n > 1 {
		return false, fmt.Sprintf("%s has %d activation sites", fname(fn), n)
	}
	return true, ""
}

func ruleCC10(c *Ctx) *rule {
	r := &rule{ID: "CC10", Engine: "E2+E5", Floor: 2,
		Statement: "every close of a channel made by Hash is executed at most once per call: one close site per channel, outside every loop (or on a way out of it), in a function that is itself activated once (not in a goroutine started per worker, not in a helper called per result)",
		Necessity: "closing a closed channel panics and takes the whole process down: a close that can run once per failing file, per worker or per result does so as soon as two of them occur"}
	t := c.hashTopology()
	t.describe(r)
	nSig := 0
	for i, ci := range t.chans {
		name := fmt.Sprintf("channel#%d", i+1)
		if ci == t.jobs {
			name = "jobs"
		} else if ci == t.results {
			name = "results"
		} else if ci.signal() {
			nSig++
			name = fmt.Sprintf("signal#%d", nSig)
		}
		key := fmt.Sprintf("%s close(%s) at most once", fname(t.fn), name)
		if len(ci.close) == 0 {
			if ci.signal() && len(ci.recv) > 0 {
				r.ok(key, c.ipos(ci.mk), "never closed (receivers are in selects with other cases)")
			}
			continue
		}
		if len(ci.close) > 1 {
			var at []string
			for _, s := range ci.close {
				at = append(at, c.ipos(s.instr))
			}
			r.bad(key, c.ipos(ci.mk), fmt.Sprintf("the channel has %d close sites (%s): when two of them run the second panics", len(ci.close), strings.Join(at, ", ")))
			continue
		}
		s := ci.close[0]
		fi := c.info(s.fn)
		if _, isDefer := s.instr.(*ssa.Defer); !isDefer {
			if l := fi.innermostLoop(s.instr.Block()); l != nil && reachFromInstr(s.instr)[s.instr.Block()] && !closeGuardedByFlag(fi, l, s.instr) {
				r.bad(key, c.ipos(s.instr), fmt.Sprintf("the close sits in the loop at %s and can be reached again on a later iteration: the second close panics", c.bpos(l.header)))
				continue
			}
		} else if l := fi.innermostLoop(s.instr.Block()); l != nil {
			r.bad(key, c.ipos(s.instr), fmt.Sprintf("the close is deferred inside the loop at %s: one deferred close per iteration", c.bpos(l.header)))
			continue
		}
		if ok, why := t.activatedOnce(s.fn, map[*ssa.Function]bool{}); !ok {
			r.bad(key, c.ipos(s.instr), "the function containing the close can run more than once per Hash call: "+why)
			continue
		}
		r.ok(key, c.ipos(s.instr), "one close site, outside loops, in "+fname(s.fn)+" which is activated once")
	}
	return r
}

// closeGuardedByFlag: the close inside loop l is guarded by `!flag` where flag is a loop-carried boolean that is true on
// every way back to the header that passes the close.
func closeGuardedByFlag(fi *fnInfo, l *loopInfo, cl ssa.Instruction) bool {
	for _, g := range fi.necessaryGuards(cl.Block()) {
		p, ok := g.cond.(*ssa.Phi)
		if !ok || g.pol || p.Block() != l.header {
			continue
		}
		after := reachFromInstr(cl)
		after[cl.Block()] = true
		good := true
		var check func(v ssa.Value, from *ssa.BasicBlock, depth int) bool
		check = func(v ssa.Value, from *ssa.BasicBlock, depth int) bool {
			if b, isC := constBool(v); isC {
				return b
			}
			m, isPhi := v.(*ssa.Phi)
			if !isPhi || depth > 4 || m == p {
				return false
			}
			for i, pred := range m.Block().Preds {
				if !l.body[pred] || !passesThrough(cl.Block(), pred, l) {
					continue
				}
				if !check(m.Edges[i], pred, depth+1) {
					return false
				}
			}
			return true
		}
		for i, pred := range l.header.Preds {
			if !l.body[pred] || !passesThrough(cl.Block(), pred, l) {
				continue
			}
			if !check(p.Edges[i], pred, 0) {
				good = false
			}
		}
		if good {
			return true
		}
	}
	return false
}

// passesThrough: inside loop l, block `to` can be reached from block `via` without going through the header.
func passesThrough(via, to *ssa.BasicBlock, l *loopInfo) bool {
	seen := map[*ssa.BasicBlock]bool{}
	work := []*ssa.BasicBlock{via}
	for len(work) > 0 {
		b := work[len(work)-1]
		work = work[:len(work)-1]
		if b == to {
			return true
		}
		if seen[b] {
			continue
		}
		seen[b] = true
		for _, s := range b.Succs {
			if s != l.header && l.body[s] {
				work = append(work, s)
			}
		}
	}
	return false
}

func ruleCC6(c *Ctx) *rule {
	r := &rule{ID: "CC6", Engine: "E2+E5", Floor: 2,
		Statement: "every receive loop on the jobs and results channels is left only on the channel-closed edge: no return, break or panic inside",
		Necessity: "a consumer that stops early leaves its producers blocked on an unbuffered send forever (goroutine leak / deadlock of Wait)"}
	t := c.hashTopology()
	t.describe(r)
	if !t.requireTopology(r) {
		return r
	}
	for _, ci := range []*chanInfo{t.jobs, t.results} {
		name := "results"
		if ci == t.jobs {
			name = "jobs"
		}
		for i, s := range ci.recv {
			key := fmt.Sprintf("%s recv(%s)#%d", fname(s.fn), name, i+1)
			fi, l := t.recvLoop(s)
			if l == nil {
				r.bad(key, c.ipos(s.instr), "a single receive outside a loop cannot drain the channel")
				continue
			}
			// the ok-edge: recv is `v, ok := <-ch` in the header; leaving edges must come from the If on ok
			var okVal ssa.Value
			if u, isU := s.instr.(*ssa.UnOp); isU && u.CommaOk {
				for _, ref := range valueReferrers(u) {
					if ex, isE := ref.(*ssa.Extract); isE && ex.Index == 1 {
						okVal = ex
					}
				}
			}
			bad := ""
			for _, b := range fi.fn.Blocks {
				if !l.body[b] {
					continue
				}
				switch lastInstr(b).(type) {
				case *ssa.Return, *ssa.Panic:
					bad = "the loop body returns/panics at " + c.bpos(b)
				}
				for i2, su := range b.Succs {
					if l.body[su] {
						continue
					}
					iff, isIf := lastInstr(b).(*ssa.If)
					if !isIf || okVal == nil {
						bad = "the loop is left at " + c.bpos(b) + " by something other than the channel-closed test"
						continue
					}
					cond, pol := normCond(iff.Cond, i2 == 0)
					if cond != okVal || pol {
						bad = "the loop is left at " + c.bpos(b) + " on a condition other than 'channel closed'"
					}
				}
			}
			if bad == "" {
				r.ok(key, c.ipos(s.instr), "the loop ends only when the channel is closed")
			} else {
				r.bad(key, c.ipos(s.instr), bad)
			}
		}
	}
	return r
}

func ruleCC7(c *Ctx) *rule {
	r := &rule{ID: "CC7", Engine: "E5", Floor: 3,
		Statement: "memory shared with a goroutine (captured by reference, or passed by address to a go call) is a channel or sync value, or is never written after the go statement by anyone; goroutines write no package-level variable",
		Necessity: "any other shared write is a data race between workers or with the collector"}
	t := c.hashTopology()
	t.describe(r)
	for _, g := range t.gos {
		var shared []ssa.Value
		if mc, ok := g.g.Call.Value.(*ssa.MakeClosure); ok {
			shared = append(shared, mc.Bindings...)
		}
		for _, a := range g.g.Call.Args {
			if _, ok := a.Type().Underlying().(*types.Pointer); ok {
				shared = append(shared, a)
			}
			if _, ok := a.Type().Underlying().(*types.Slice); ok {
				shared = append(shared, a)
			}
			if _, ok := a.Type().Underlying().(*types.Map); ok {
				shared = append(shared, a)
			}
		}
		for i, v := range shared {
			key := fmt.Sprintf("%s go %s shared#%d", fname(t.fn), fname(g.callee), i+1)
			pt, isPtr := v.Type().Underlying().(*types.Pointer)
			if isPtr {
				et := pt.Elem()
				if _, isChan := et.Underlying().(*types.Chan); isChan {
					r.ok(key, c.ipos(g.g), "a channel variable")
					continue
				}
				if isSyncOnly(et, 0) {
					r.ok(key, c.ipos(g.g), "a sync value (or a struct of sync values and channels only)")
					continue
				}
			}
			// writes after the go statement in the spawner, or anywhere in a goroutine
			al, cells := t.aliases(v)
			bad := ""
			check := func(addr ssa.Value) {
				for _, d := range derivedAddrs(addr) {
					for _, ref := range valueReferrers(d) {
						switch st := ref.(type) {
						case *ssa.Store:
							if st.Addr != d {
								continue
							}
							if st.Parent() != t.fn {
								bad = "written inside goroutine " + fname(st.Parent()) + " at " + c.ipos(st)
							} else if !before(st, g.g) {
								bad = "written by the spawner at " + c.ipos(st) + " after the goroutine has started"
							}
						case *ssa.MapUpdate:
							bad = "map updated at " + c.ipos(st)
						}
					}
				}
			}
			for a := range al {
				if _, ok := a.Type().Underlying().(*types.Pointer); ok {
					check(a)
				}
				if _, ok := a.Type().Underlying().(*types.Slice); ok {
					// element stores through IndexAddr on the slice in goroutines
					for _, ref := range valueReferrers(a) {
						if ia, ok := ref.(*ssa.IndexAddr); ok && ia.X == a && ia.Parent() != t.fn {
							for _, rr := range valueReferrers(ia) {
								if st, ok := rr.(*ssa.Store); ok && st.Addr == ssa.Value(ia) {
									bad = "slice element written inside goroutine at " + c.ipos(st)
								}
							}
						}
					}
				}
			}
			for a := range cells {
				check(a)
			}
			if bad == "" {
				r.ok(key, c.ipos(g.g), "read-only after the go statement")
			} else {
				r.bad(key, c.ipos(g.g), "memory shared with a goroutine is "+bad)
			}
		}
	}
	// no stores to globals from goroutine functions
	for f := range t.procs {
		if f == t.fn {
			continue
		}
		key := fname(f) + " global-writes"
		bad := ""
		for _, b := range f.Blocks {
			for _, in := range b.Instrs {
				if st, ok := in.(*ssa.Store); ok {
					if _, isG := st.Addr.(*ssa.Global); isG {
						bad = c.ipos(st)
					}
				}
			}
		}
		if bad == "" {
			r.ok(key, c.pos(f.Pos()), "writes no package-level variable")
		} else {
			r.bad(key, bad, "a goroutine writes a package-level variable")
		}
	}
	return r
}

// isSyncOnly: a type of package sync / sync/atomic, a channel, or a struct all of whose fields are (a WaitGroup wrapped in a helper type
// is still only ever touched through the methods of sync).
func isSyncOnly(t types.Type, depth int) bool {
	if depth > 3 {
		return false
	}
	if n := namedOf(t); n != nil && n.Obj().Pkg() != nil && (n.Obj().Pkg().Path() == "sync" || n.Obj().Pkg().Path() == "sync/atomic") {
		return true
	}
	switch u := t.Underlying().(type) {
	case *types.Chan:
		return true
	case *types.Struct:
		if u.NumFields() == 0 {
			return false
		}
		for i := 0; i < u.NumFields(); i++ {
			if !isSyncOnly(u.Field(i).Type(), depth+1) {
				return false
			}
		}
		return true
	}
	return false
}

// ---- interval evaluation for HS4 / CC8 ---------------------------------------------------------------------------------------

const unknownLow = -1 << 40

// lowerBound evaluates a lower bound of an int value under len(<input list>) >= 1, NumCPU() >= 1, GOMAXPROCS(_) >= 1.
func (t *hashTopo) lowerBound(v ssa.Value, depth int) int64 {
	if depth > 12 {
		return unknownLow
	}
	switch x := v.(type) {
	case *ssa.Const:
		if n, ok := constInt(x); ok {
			return n
		}
	case *ssa.Call:
		name := calleeName(x.Common())
		switch name {
		case "runtime.NumCPU", "runtime.GOMAXPROCS":
			return 1
		case "builtin.len":
			// len of the input list
			sl := t.c.newSlicer()
			sl.depth = 0
			res := sl.run(x.Call.Args[0])
			for _, p := range res.params {
				if _, ok := p.Type().Underlying().(*types.Slice); ok && p.Parent() == t.fn {
					return 1
				}
			}
			return 0
		case "builtin.min":
			lo := int64(1 << 40)
			for _, a := range x.Call.Args {
				if b := t.lowerBound(a, depth+1); b < lo {
					lo = b
				}
			}
			return lo
		case "builtin.max":
			lo := int64(unknownLow)
			for _, a := range x.Call.Args {
				if b := t.lowerBound(a, depth+1); b > lo {
					lo = b
				}
			}
			return lo
		}
		// module-local helper such as a hand-written min
		if f := x.Common().StaticCallee(); f != nil && inModule(f) && len(f.Blocks) > 0 {
			lo := int64(1 << 40)
			for _, ret := range returnsOf(f) {
				rv := ret.Results[0]
				var b int64 = unknownLow
				if p, ok := rv.(*ssa.Parameter); ok {
					for i, q := range f.Params {
						if q == p {
							b = t.lowerBound(x.Common().Args[i], depth+1)
						}
					}
				} else if phi, ok := rv.(*ssa.Phi); ok {
					b = int64(1 << 40)
					for _, e := range phi.Edges {
						var eb int64 = unknownLow
						if p, ok := e.(*ssa.Parameter); ok {
							for i, q := range f.Params {
								if q == p {
									eb = t.lowerBound(x.Common().Args[i], depth+1)
								}
							}
						} else if n, ok := constInt(e); ok {
							eb = n
						}
						if eb < b {
							b = eb
						}
					}
				} else if n, ok := constInt(rv); ok {
					b = n
				}
				if b < lo {
					lo = b
				}
			}
			return lo
		}
	case *ssa.BinOp:
		a, b := t.lowerBound(x.X, depth+1), t.lowerBound(x.Y, depth+1)
		switch x.Op {
		case token.ADD:
			if a > unknownLow && b > unknownLow {
				return a + b
			}
		case token.SUB:
			if n, ok := constInt(x.Y); ok && a > unknownLow {
				return a - n
			}
		case token.MUL:
			if a >= 0 && b >= 0 {
				return a * b
			}
		case token.QUO:
			if n, ok := constInt(x.Y); ok && n > 0 && a >= 0 {
				return a / n
			}
		}
	case *ssa.Phi:
		lo := int64(1 << 40)
		for _, e := range x.Edges {
			if b := t.lowerBound(e, depth+1); b < lo {
				lo = b
			}
		}
		return lo
	case *ssa.Field:
		// a field of the hasher value: whatever any store of the module puts there, or the zero value (the type's zero value is
		// usable: nothing forces callers through a constructor)
		return t.fieldLowerBound(fieldKey(x), depth)
	case *ssa.UnOp:
		if x.Op == token.MUL {
			if fa, ok := x.X.(*ssa.FieldAddr); ok {
				if _, isAlloc := fa.X.(*ssa.Alloc); !isAlloc || true {
					if k := fieldKey(fa); strings.HasPrefix(k, "hash.") {
						return t.fieldLowerBound(k, depth)
					}
				}
			}
			if a, ok := x.X.(*ssa.Alloc); ok {
				lo := int64(1 << 40)
				n := 0
				for _, ref := range valueReferrers(a) {
					if st, ok := ref.(*ssa.Store); ok && st.Addr == ssa.Value(a) {
						n++
						if b := t.lowerBound(st.Val, depth+1); b < lo {
							lo = b
						}
					}
				}
				if n > 0 {
					return lo
				}
			}
		}
	case *ssa.Convert:
		return t.lowerBound(x.X, depth+1)
	}
	return unknownLow
}

// fieldLowerBound: the least value an integer field of a hash-package struct can hold: 0 (zero value) or what a store gives it.
func (t *hashTopo) fieldLowerBound(key string, depth int) int64 {
	if depth > 6 {
		return unknownLow
	}
	lo := int64(0)
	for _, st := range t.c.fieldStores()[key] {
		if b := t.lowerBound(st.Val, depth+1); b < lo {
			lo = b
		}
	}
	return lo
}

func ruleHS4(id string) func(c *Ctx) *rule {
	return func(c *Ctx) *rule {
		r := &rule{ID: id, Engine: "E3+E5", Floor: 1,
			Statement: "at least one worker is started whenever the input list is non-empty: the lower bound of the worker loop's trip count under len(files) >= 1, NumCPU() >= 1 is >= 1",
			Necessity: "with zero workers the producer blocks forever on its first send (deadlock), or — if it is not started either — the digest ignores every file"}
		t := c.hashTopology()
		t.describe(r)
		if !t.requireTopology(r) {
			return r
		}
		for _, g := range t.gos {
			isWorker := false
			for _, w := range t.workers {
				if g.callee == w {
					isWorker = true
				}
			}
			if !isWorker {
				continue
			}
			key := fmt.Sprintf("%s workers>=1 go %s", fname(t.fn), fname(g.callee))
			l := t.fi.innermostLoop(g.g.Block())
			if l == nil {
				// not in a loop: started once if unconditional
				gs := t.fi.necessaryGuards(g.g.Block())
				if len(gs) == 0 {
					r.ok(key, c.ipos(g.g), "a worker is started unconditionally")
				} else {
					r.undecided(key, c.ipos(g.g), "a single worker is started under a condition the checker does not evaluate")
				}
				continue
			}
			bound := t.workerLoopBound(g)
			if bound == nil {
				r.undecided(key, c.ipos(g.g), "cannot identify the bound of the loop that starts the workers")
				continue
			}
			lo := t.lowerBound(bound, 0)
			switch {
			case lo >= 1:
				r.ok(key, c.ipos(g.g), fmt.Sprintf("loop bound %s has lower bound %d", bound.Name(), lo))
			case lo == unknownLow:
				r.undecided(key, c.ipos(g.g), "the worker-count expression is outside the interval evaluator (len, NumCPU, GOMAXPROCS, constants, min, max, +, -, phi)")
			default:
				r.bad(key, c.ipos(g.g), fmt.Sprintf("the number of workers can be %d for a non-empty input list", lo))
			}
		}
		return r
	}
}

// ---- C04 rules ------------------------------------------------------------------------------------------------------------------

var sortFuncs = map[string]bool{
	"sort.Sort": true, "sort.Stable": true, "sort.Slice": true, "sort.SliceStable": true, "sort.Strings": true,
	"slices.Sort": true, "slices.SortFunc": true, "slices.SortStableFunc": true,
}

func (t *hashTopo) collectorAccumulators() (loop *loopInfo, accs []*ssa.Phi) {
	for _, s := range t.results.recv {
		if s.fn != t.fn {
			continue
		}
		_, l := t.recvLoop(s)
		if l == nil {
			continue
		}
		loop = l
		for _, p := range l.headerPhis() {
			if _, ok := p.Type().Underlying().(*types.Slice); !ok {
				continue
			}
			accs = append(accs, p)
		}
	}
	return
}

func ruleHS1(c *Ctx) *rule {
	r := &rule{ID: "HS1", Engine: "E3+E5", Floor: 1,
		Statement: "every slice filled in arrival order from the results channel is sorted, with a comparator over whole elements, before anything derived from it reaches the returned digest",
		Necessity: "the arrival order depends on the scheduler and on the order of the input list; hashing it unsorted makes the digest differ between runs on identical files"}
	t := c.hashTopology()
	t.describe(r)
	if !t.requireTopology(r) {
		return r
	}
	loop, accs := t.collectorAccumulators()
	if loop == nil {
		r.undecided(fname(t.fn)+" collector", c.pos(t.fn.Pos()), "no receive loop on the results channel in the spawner")
		return r
	}
	// digest = result #0 of non-error returns
	var digestVals []ssa.Value
	for _, ret := range returnsOf(t.fn) {
		if ev := returnedErr(ret); ev != nil && isNilConst(ev) {
			digestVals = append(digestVals, ret.Results[0])
		}
	}
	sl := c.newSlicer()
	sl.depth = 0
	sl.objFlow = true
	dres := sl.run(digestVals...)
	n := 0
	// an accumulator is a loop-carried slice (a phi of the loop header) or, when the variable is captured by a closure (the
	// comparison function of sort.Slice), a local cell that is stored inside the loop: its loads after the loop are the slice
	type accumulator struct {
		root  ssa.Value
		name  string
		seeds []ssa.Value
	}
	var accums []accumulator
	for _, acc := range accs {
		name := acc.Comment
		if name == "" {
			name = acc.Name()
		}
		accums = append(accums, accumulator{acc, name, []ssa.Value{acc}})
	}
	for _, b := range t.fn.Blocks {
		for _, in := range b.Instrs {
			cell, ok := in.(*ssa.Alloc)
			if !ok {
				continue
			}
			if _, isSlice := cell.Type().Underlying().(*types.Pointer).Elem().Underlying().(*types.Slice); !isSlice {
				continue
			}
			storedInLoop := false
			var loads []ssa.Value
			for _, ref := range valueReferrers(cell) {
				switch x := ref.(type) {
				case *ssa.Store:
					if x.Addr == ssa.Value(cell) && loop.body[x.Block()] {
						storedInLoop = true
					}
				case *ssa.UnOp:
					if x.Op == token.MUL && !loop.body[x.Block()] {
						loads = append(loads, x)
					}
				}
			}
			if storedInLoop {
				accums = append(accums, accumulator{cell, cell.Comment, loads})
			}
		}
	}
	for _, ac := range accums {
		acc := ac.root
		if !dres.has(acc) {
			continue
		}
		n++
		key := fmt.Sprintf("%s accumulator %s", fname(t.fn), ac.name)
		// consumers of the accumulator after the loop that are in the digest slice
		var consumers []ssa.Instruction
		var sorts []*ssa.Call
		aliases := map[ssa.Value]bool{}
		for _, s := range ac.seeds {
			aliases[s] = true
		}
		grow := true
		for grow {
			grow = false
			for a := range aliases {
				for _, ref := range valueReferrers(a) {
					switch x := ref.(type) {
					case *ssa.ChangeType, *ssa.MakeInterface, *ssa.Slice:
						if !aliases[x.(ssa.Value)] && !loop.body[x.Block()] {
							aliases[x.(ssa.Value)] = true
							grow = true
						}
					}
				}
			}
		}
		for a := range aliases {
			for _, ref := range valueReferrers(a) {
				if loop.body[ref.Block()] {
					continue
				}
				if call, ok := ref.(*ssa.Call); ok {
					if sortFuncs[calleeName(call.Common())] {
						sorts = append(sorts, call)
						continue
					}
					if bi, ok := call.Call.Value.(*ssa.Builtin); ok && (bi.Name() == "len" || bi.Name() == "cap") {
						continue
					}
				}
				switch ref.(type) {
				case *ssa.ChangeType, *ssa.MakeInterface, *ssa.Slice, *ssa.DebugRef:
					continue
				}
				if v, ok := ref.(ssa.Value); ok && dres.has(v) {
					consumers = append(consumers, ref)
				} else if _, ok := ref.(*ssa.Range); ok {
					consumers = append(consumers, ref)
				} else if _, ok := ref.(*ssa.IndexAddr); ok {
					consumers = append(consumers, ref)
				}
			}
		}
		if len(consumers) == 0 {
			r.undecided(key, c.pos(acc.Pos()), "cannot find where the accumulator is consumed on the way to the digest")
			continue
		}
		if len(sorts) == 0 {
			r.bad(key, c.ipos(consumers[0]), "the arrival-ordered accumulator reaches the digest without being sorted")
			continue
		}
		okAll := true
		for _, cons := range consumers {
			dominated := false
			for _, s := range sorts {
				if before(s, cons) {
					dominated = true
				}
			}
			if !dominated {
				okAll = false
				r.bad(key, c.ipos(cons), "the accumulator is consumed on a path that has not sorted it")
			}
		}
		if !okAll {
			continue
		}
		// comparator
		verdict, why := t.comparatorWholeElement(sorts[0])
		if strings.HasPrefix(verdict, "field:") {
			// elements are structs ordered by one field: every other field of the element that reaches the digest is left in
			// arrival order among elements that tie on the compared one
			compared := strings.TrimPrefix(verdict, "field:")
			owner := compared[:strings.LastIndexByte(compared, '.')+1]
			var ignored []string
			for _, k := range dres.fieldKeys() {
				if strings.HasPrefix(k, owner) && k != compared {
					ignored = append(ignored, k)
				}
			}
			if len(ignored) > 0 {
				verdict, why = vViolation, why+"; "+strings.Join(ignored, ", ")+" also reach the digest: elements that tie on the compared field (files with identical content) keep their arrival order, which depends on the scheduler"
			} else {
				verdict = vOK
			}
		}
		switch verdict {
		case vOK:
			r.ok(key, c.ipos(sorts[0]), "sorted before use; "+why)
		case vViolation:
			r.bad(key, c.ipos(sorts[0]), "sorted with a comparator that does not order whole elements: "+why)
		default:
			r.undecided(key, c.ipos(sorts[0]), why)
		}
	}
	if n == 0 {
		r.ok(fname(t.fn)+" no-ordered-flow", c.pos(t.fn.Pos()), "no arrival-ordered slice flows into the digest (order-independent combination)")
	}
	return r
}

// comparatorWholeElement inspects the ordering used by a sort call.
func (t *hashTopo) comparatorWholeElement(s *ssa.Call) (string, string) {
	c := t.c
	name := calleeName(s.Common())
	switch name {
	case "sort.Strings", "slices.Sort":
		return vOK, "natural order of whole elements"
	case "sort.Sort", "sort.Stable":
		arg := s.Common().Args[0]
		mi, ok := arg.(*ssa.MakeInterface)
		if !ok {
			return vUndecided, "sort.Interface value of unknown dynamic type"
		}
		var less *ssa.Function
		for _, f := range c.ModFuncs {
			if f.Name() == "Less" && f.Signature.Recv() != nil && f.Synthetic == "" && types.Identical(f.Signature.Recv().Type(), mi.X.Type()) {
				less = f
			}
		}
		if less == nil {
			return vUndecided, "cannot find the Less method of " + mi.X.Type().String()
		}
		return lessIsWholeElement(less, less.Params[0], less.Params[1], less.Params[2])
	case "sort.Slice", "sort.SliceStable":
		if mc, ok := s.Common().Args[1].(*ssa.MakeClosure); ok {
			f := mc.Fn.(*ssa.Function)
			if len(f.FreeVars) == 1 && len(f.Params) == 2 {
				return lessIsWholeElement(f, f.FreeVars[0], f.Params[0], f.Params[1])
			}
		}
		return vUndecided, "less function of sort.Slice is not a simple closure over the slice"
	case "slices.SortFunc", "slices.SortStableFunc":
		if f, ok := s.Common().Args[1].(*ssa.Function); ok {
			if f.String() == "bytes.Compare" || f.String() == "strings.Compare" || f.String() == "cmp.Compare" {
				return vOK, "ordered by " + f.String() + " over whole elements"
			}
		}
		return vUndecided, "comparison function of slices.SortFunc is not bytes.Compare / strings.Compare"
	}
	return vUndecided, "unknown sort function " + name
}

// lessIsWholeElement checks that a Less(i, j) body compares recv[i] with recv[j] as whole values.
func lessIsWholeElement(f *ssa.Function, recv, pi, pj ssa.Value) (string, string) {
	isElem := func(v ssa.Value, idx ssa.Value) bool {
		for _, o := range origins(v) {
			u, ok := o.(*ssa.UnOp)
			if !ok || u.Op != token.MUL {
				return false
			}
			ia, ok := u.X.(*ssa.IndexAddr)
			if !ok || ia.Index != idx {
				return false
			}
			base := ia.X
			if bu, ok := base.(*ssa.UnOp); ok && bu.Op == token.MUL {
				base = bu.X // free variable cell
			}
			if base != recv {
				return false
			}
		}
		return true
	}
	rets := returnsOf(f)
	if len(rets) != 1 {
		return vUndecided, "Less has several returns"
	}
	rv := rets[0].Results[0]
	bo, ok := rv.(*ssa.BinOp)
	if !ok {
		return vUndecided, "Less does not return a comparison"
	}
	// string(a[i]) < string(a[j])  or  a[i] < a[j]
	strip := func(v ssa.Value) ssa.Value {
		if cv, ok := v.(*ssa.Convert); ok {
			return cv.X
		}
		return v
	}
	if bo.Op == token.LSS || bo.Op == token.GTR {
		x, y := strip(bo.X), strip(bo.Y)
		if (isElem(x, pi) && isElem(y, pj)) || (isElem(x, pj) && isElem(y, pi)) {
			return vOK, "Less compares whole elements with " + bo.Op.String()
		}
	}
	// bytes.Compare(a[i], a[j]) <op> const
	call, ok := bo.X.(*ssa.Call)
	if !ok {
		return vUndecided, "Less is not of a recognised form"
	}
	cn := calleeName(call.Common())
	if cn != "bytes.Compare" && cn != "strings.Compare" && cn != "cmp.Compare" {
		return vUndecided, "Less calls " + cn
	}
	k, isConst := constInt(bo.Y)
	if !isConst {
		return vUndecided, "comparison result is not tested against a constant"
	}
	strict := (bo.Op == token.EQL && (k == -1 || k == 1)) || (bo.Op == token.LSS && k == 0) || (bo.Op == token.GTR && k == 0)
	if !strict {
		return vViolation, fmt.Sprintf("Compare(...) %s %d is not a strict ordering", bo.Op, k)
	}
	a0, a1 := call.Common().Args[0], call.Common().Args[1]
	if (isElem(a0, pi) && isElem(a1, pj)) || (isElem(a0, pj) && isElem(a1, pi)) {
		return vOK, "Less is " + cn + " over whole elements"
	}
	// one field of struct elements on both sides
	fieldOfElem := func(v ssa.Value, idx ssa.Value) string {
		for _, o := range origins(v) {
			u, ok := o.(*ssa.UnOp)
			if !ok || u.Op != token.MUL {
				return ""
			}
			fa, ok := u.X.(*ssa.FieldAddr)
			if !ok {
				return ""
			}
			ia, ok := fa.X.(*ssa.IndexAddr)
			if !ok || ia.Index != idx {
				return ""
			}
			return fieldKey(fa)
		}
		return ""
	}
	for _, pair := range [][2]ssa.Value{{pi, pj}, {pj, pi}} {
		if f0, f1 := fieldOfElem(a0, pair[0]), fieldOfElem(a1, pair[1]); f0 != "" && f0 == f1 {
			return "field:" + f0, "Less is " + cn + " over the field " + f0 + " of the elements"
		}
	}
	// a slice / index / len of an element: partial comparison
	for _, a := range []ssa.Value{a0, a1} {
		switch a.(type) {
		case *ssa.Slice:
			return vViolation, "Less compares only a sub-slice of the elements (distinct items tie and keep their arrival order)"
		}
	}
	return vUndecided, "arguments of " + cn + " are not recognised as the two elements"
}

// sizeArithmetic: the value is computed from len/cap results and constants only.
func sizeArithmetic(v ssa.Value, depth int) bool {
	if depth > 4 {
		return false
	}
	switch x := v.(type) {
	case *ssa.Const:
		return true
	case *ssa.Call:
		if bi, ok := x.Call.Value.(*ssa.Builtin); ok && (bi.Name() == "len" || bi.Name() == "cap") {
			return true
		}
	case *ssa.BinOp:
		return sizeArithmetic(x.X, depth+1) && sizeArithmetic(x.Y, depth+1)
	case *ssa.Convert:
		return sizeArithmetic(x.X, depth+1)
	}
	return false
}

func ruleHS2(c *Ctx) *rule {
	r := &rule{ID: "HS2", Engine: "E3+E5", Floor: 4,
		Statement: "each hashed item carries the SHA-256 of the entire content of the file opened on the job string and that job string itself, unchanged, and both reach the accumulated element",
		Necessity: "content that is not read completely, or a path that is shortened (base name) or dropped, lets an edit / rename / move leave the digest unchanged"}
	t := c.hashTopology()
	t.describe(r)
	if !t.requireTopology(r) {
		return r
	}
	elem := t.results.mk.Type().Underlying().(*types.Chan).Elem()
	owner := namedOf(elem)
	st, ok := elem.Underlying().(*types.Struct)
	if !ok || owner == nil {
		r.undecided(fname(t.fn)+" result type", c.ipos(t.results.mk), "results channel does not carry a named struct")
		return r
	}
	prefix := shortPkg(owner.Obj().Pkg().Path()) + "." + owner.Obj().Name() + "."
	hashField, fileField := "", ""
	for i := 0; i < st.NumFields(); i++ {
		f := st.Field(i)
		if sl, ok := f.Type().Underlying().(*types.Slice); ok {
			if b, ok := sl.Elem().Underlying().(*types.Basic); ok && b.Kind() == types.Byte {
				hashField = f.Name()
			}
		}
		if b, ok := f.Type().Underlying().(*types.Basic); ok && b.Kind() == types.String {
			fileField = f.Name()
		}
	}
	if hashField == "" || fileField == "" {
		r.bad(fname(t.fn)+" result fields", c.ipos(t.results.mk), "the result struct does not have both a []byte content hash and a string path")
		return r
	}
	// collector side: accumulated element slices to both fields of the received result
	loop, accs := t.collectorAccumulators()
	if loop != nil {
		// the items of different files must be kept apart until they are hashed together: no arithmetic fold
		for _, b := range t.fn.Blocks {
			if !loop.body[b] {
				continue
			}
			for _, in := range b.Instrs {
				// the library form of the same fold
				if site, isCall := in.(ssa.CallInstruction); isCall {
					if n := calleeName(site.Common()); n == "crypto/subtle.XORBytes" || n == "math/big.(*Int).Xor" || n == "(*math/big.Int).Xor" || n == "(*math/big.Int).Add" {
						fs := c.newSlicer()
						fs.depth = 0
						fs.objFlow = true
						fres := fs.run(site.Common().Args...)
						if fres.hasField(prefix+hashField) || fres.hasField(prefix+fileField) {
							r.bad(fmt.Sprintf("%s items folded arithmetically", fname(t.fn)), c.ipos(in),
								"the per-file items are folded into the accumulator with "+n+": equal items cancel (a path that is listed twice), different collections of files give the same accumulator, so a change can leave the digest unchanged")
						}
					}
				}
				bo, ok := in.(*ssa.BinOp)
				if !ok {
					continue
				}
				switch bo.Op {
				case token.XOR, token.ADD, token.SUB, token.OR, token.AND, token.MUL, token.AND_NOT:
				default:
					continue
				}
				if bt, ok := bo.Type().Underlying().(*types.Basic); !ok || bt.Info()&types.IsInteger == 0 {
					continue
				}
				if sizeArithmetic(bo, 0) {
					continue // len(a)+len(b): a capacity, not content
				}
				fs := c.newSlicer()
				fs.depth = 0
				fs.objFlow = true
				fres := fs.run(bo.X, bo.Y)
				if fres.hasField(prefix+hashField) || fres.hasField(prefix+fileField) {
					r.bad(fmt.Sprintf("%s items folded arithmetically", fname(t.fn)), c.ipos(bo),
						"the per-file items are folded into the accumulator with the operator "+bo.Op.String()+": different collections of files give the same accumulator (items cancel or collide), so a change can leave the digest unchanged")
				}
			}
		}
	}
	nAcc := 0
	defer func() {
		if loop != nil && nAcc == 0 && r.violated() == 0 {
			r.undecided(fname(t.fn)+" item accumulator", c.bpos(loop.header), "the collector loop has no slice of byte slices that accumulates one element per received result")
		}
	}()
	for _, acc := range accs {
		if loop == nil {
			break
		}
		// back-edge value append(acc, elems...)
		var appended []ssa.Value
		for i, pred := range loop.header.Preds {
			if !loop.body[pred] {
				continue
			}
			for _, o := range origins(acc.Edges[i]) {
				if call, ok := o.(*ssa.Call); ok {
					if bi, ok := call.Call.Value.(*ssa.Builtin); ok && bi.Name() == "append" {
						appended = append(appended, call.Call.Args[1:]...)
					}
				}
			}
		}
		if len(appended) == 0 {
			continue
		}
		// only the accumulator that flows into the digest matters: elements of [][]byte
		if sl, ok := acc.Type().Underlying().(*types.Slice); !ok || !isByteSlice(sl.Elem()) {
			continue
		}
		nAcc++
		sl := c.newSlicer()
		sl.depth = 0
		res := sl.run(appended...)
		for _, f := range []string{hashField, fileField} {
			key := fmt.Sprintf("%s item<-result.%s", fname(t.fn), f)
			if res.hasField(prefix + f) {
				r.ok(key, c.ipos(acc), "reaches the accumulated element")
			} else {
				r.bad(key, c.ipos(acc), "result."+f+" of the received result does not reach the element that is accumulated for the digest")
			}
		}
		// the path must be used whole on the collector side too
		for _, v := range res.order {
			if call, ok := v.(*ssa.Call); ok {
				n := calleeName(call.Common())
				if strings.HasPrefix(n, "path/filepath.") || strings.HasPrefix(n, "path.") || n == "strings.TrimPrefix" || n == "strings.ToLower" {
					r.bad(fmt.Sprintf("%s item path transformed", fname(t.fn)), c.ipos(call), "the path is transformed by "+n+" before it is hashed")
				}
			}
			if s, ok := v.(*ssa.Slice); ok {
				if b, ok := s.X.Type().Underlying().(*types.Basic); ok && b.Kind() == types.String {
					r.bad(fmt.Sprintf("%s item path sliced", fname(t.fn)), c.ipos(s), "only part of the path string is hashed")
				}
			}
		}
	}
	// worker side
	for _, w := range t.workers {
		var job ssa.Value
		for _, s := range t.jobs.recv {
			if s.fn != w {
				continue
			}
			if u, ok := s.instr.(*ssa.UnOp); ok {
				if u.CommaOk {
					for _, ref := range valueReferrers(u) {
						if ex, ok := ref.(*ssa.Extract); ok && ex.Index == 0 {
							job = ex
						}
					}
				} else {
					job = u
				}
			}
		}
		if job == nil {
			r.undecided(fname(w)+" job", c.pos(w.Pos()), "cannot identify the received job value")
			continue
		}
		fstores := c.fieldStores()
		// path field <- job, value-preserving
		nFile := 0
		for _, s := range fstores[prefix+fileField] {
			if s.Parent() != w {
				continue
			}
			nFile++
			key := fmt.Sprintf("%s result.%s<-job", fname(w), fileField)
			os := origins(s.Val)
			if len(os) == 1 && os[0] == job {
				r.ok(key, c.ipos(s), "the job string is stored unchanged")
			} else {
				r.bad(key, c.ipos(s), "the path recorded in the result is not the job string itself (it must be the whole path as given)")
			}
		}
		if nFile == 0 {
			r.bad(fmt.Sprintf("%s result.%s<-job", fname(w), fileField), c.pos(w.Pos()), "the worker never records the path in its result")
		}
		// content hash <- Sum() of a hasher fed with the whole file opened on job
		nHash := 0
		for _, s := range fstores[prefix+hashField] {
			if s.Parent() != w {
				continue
			}
			nHash++
			key := fmt.Sprintf("%s result.%s<-sha256(whole file)", fname(w), hashField)
			ok, why := wholeFileHash(c, s, job)
			if ok {
				r.ok(key, c.ipos(s), why)
			} else {
				r.bad(key, c.ipos(s), why)
			}
		}
		if nHash == 0 {
			r.bad(fmt.Sprintf("%s result.%s<-sha256(whole file)", fname(w), hashField), c.pos(w.Pos()), "the worker never records a content hash in its result")
		}
	}
	return r
}

func isByteSlice(t types.Type) bool {
	sl, ok := t.Underlying().(*types.Slice)
	if !ok {
		return false
	}
	b, ok := sl.Elem().Underlying().(*types.Basic)
	return ok && b.Kind() == types.Byte
}

// wholeFileHash: the stored value is h.Sum(...) where h = sha256.New() and io.Copy(h, f) / h.Write(os.ReadFile(job)) precedes,
// with f = os.Open(job).
func wholeFileHash(c *Ctx, st *ssa.Store, job ssa.Value) (bool, string) {
	var sum *ssa.Call
	for _, o := range origins(st.Val) {
		if call, ok := o.(*ssa.Call); ok && call.Common().IsInvoke() && call.Common().Method.Name() == "Sum" {
			sum = call
		}
		if call, ok := o.(*ssa.Call); ok {
			n := calleeName(call.Common())
			if n == "crypto/sha256.Sum256" {
				// Sum256(data) with data = os.ReadFile(job)
				sl := c.newSlicer()
				sl.depth = 0
				res := sl.run(call.Common().Args[0])
				if res.hasCall("os.ReadFile") && res.has(job) {
					return true, "sha256.Sum256 of os.ReadFile(job)"
				}
			}
		}
	}
	if sum == nil {
		return false, "the stored content hash is not the Sum() of a hash"
	}
	hv := sum.Common().Value
	horig := origins(hv)
	isSha := false
	for _, o := range horig {
		if call, ok := o.(*ssa.Call); ok && calleeName(call.Common()) == "crypto/sha256.New" {
			isSha = true
		}
	}
	if !isSha {
		return false, "the content hash is not produced by crypto/sha256.New()"
	}
	fn := st.Parent()
	for _, site := range callSites(fn) {
		call, ok := site.(*ssa.Call)
		if !ok {
			continue
		}
		n := calleeName(call.Common())
		switch n {
		case "io.Copy", "io.CopyBuffer":
			w, rd := call.Common().Args[0], call.Common().Args[1]
			if !sameOrigins(w, hv) {
				continue
			}
			if !before(call, sum) {
				return false, "the copy into the hash does not precede Sum()"
			}
			// reader = file opened on job
			okOpen := false
			for _, o := range origins(rd) {
				if ex, ok := o.(*ssa.Extract); ok {
					if oc, ok := ex.Tuple.(*ssa.Call); ok && calleeName(oc.Common()) == "os.Open" {
						ao := origins(oc.Common().Args[0])
						if len(ao) == 1 && ao[0] == job {
							okOpen = true
						}
					}
				}
			}
			if !okOpen {
				return false, "the reader copied into the hash is not the file opened on the job path (wrapped, limited or another file)"
			}
			return true, "io.Copy of the whole file opened on the job path into sha256, then Sum()"
		case "io.CopyN":
			if sameOrigins(call.Common().Args[0], hv) {
				return false, "only a bounded number of bytes (io.CopyN) is hashed"
			}
		}
	}
	// h.Write(data) with data = os.ReadFile(job) / io.ReadAll(f)
	for _, site := range callSites(fn) {
		call, ok := site.(*ssa.Call)
		if !ok || !call.Common().IsInvoke() || call.Common().Method.Name() != "Write" || !sameOrigins(call.Common().Value, hv) {
			continue
		}
		sl := c.newSlicer()
		sl.depth = 0
		res := sl.run(call.Common().Args[0])
		if (res.hasCall("os.ReadFile") || res.hasCall("io.ReadAll")) && res.has(job) && before(call, sum) {
			for _, v := range res.order {
				if _, isSlice := v.(*ssa.Slice); isSlice {
					if _, isArr := v.(*ssa.Slice).X.Type().Underlying().(*types.Pointer); !isArr {
						return false, "only part of the file content is written into the hash"
					}
				}
			}
			return true, "whole content read with ReadFile/ReadAll and written into sha256"
		}
	}
	return false, "no io.Copy / full read of the job's file into the hash precedes Sum()"
}

func ruleHS3(c *Ctx) *rule {
	r := &rule{ID: "HS3", Engine: "E2+E5", Floor: 1,
		Statement: "in each worker, every path from receiving a job to the next receive sends exactly one result, except the path on which the entry is known to be a directory",
		Necessity: "a job without a result drops a file from the digest; two results count it twice; both make the digest wrong for some inputs"}
	t := c.hashTopology()
	t.describe(r)
	if !t.requireTopology(r) {
		return r
	}
	for _, w := range t.workers {
		fi := c.info(w)
		for _, s := range t.jobs.recv {
			if s.fn != w {
				continue
			}
			key := fmt.Sprintf("%s one-result-per-job", fname(w))
			l := fi.innermostLoop(s.instr.Block())
			if l == nil {
				r.bad(key, c.ipos(s.instr), "the job receive is not in a loop")
				continue
			}
			reg := fi.regionOf(l)
			seen := map[string]bool{}
			bad := ""
			var dfs func(b *ssa.BasicBlock, sends int, dir bool, first bool, ps *pathState)
			dfs = func(b *ssa.BasicBlock, sends int, dir bool, first bool, ps *pathState) {
				if bad != "" {
					return
				}
				if b == nil {
					if dir && sends == 0 {
						return
					}
					if sends != 1 {
						bad = fmt.Sprintf("a path through the loop body sends %d results for one job", sends)
					}
					return
				}
				k := fmt.Sprintf("%d|%d|%v|%s", b.Index, sends, dir, ps.key())
				if seen[k] {
					return
				}
				seen[k] = true
				for _, in := range b.Instrs {
					if sd, ok := in.(*ssa.Send); ok && t.results.alias[sd.Chan] {
						sends++
						if sends > 2 {
							sends = 2
						}
					}
				}
				for i, nx := range reg.succs(b) {
					// leaving the loop through the header's closed-channel edge is not a job path
					if first && nx == nil {
						continue
					}
					if b == l.header && nx == nil {
						continue
					}
					cond, pol, next, feasible := ps.branch(b, i)
					if !feasible {
						continue
					}
					ndir := dir
					if cond != nil && isDirTest(cond) && pol {
						ndir = true
					}
					var nps *pathState
					if nx != nil {
						nps = next.enter(nx, b)
					}
					dfs(nx, sends, ndir, false, nps)
				}
			}
			dfs(l.header, 0, false, true, newPathStateFor(w))
			if bad == "" {
				r.ok(key, c.ipos(s.instr), "exactly one send per job on every path (none for directories)")
			} else {
				r.bad(key, c.ipos(s.instr), bad)
			}
		}
	}
	return r
}

func isDirTest(cond ssa.Value) bool {
	call, ok := cond.(*ssa.Call)
	if !ok {
		return false
	}
	n := calleeName(call.Common())
	return strings.HasSuffix(n, ").IsDir")
}

// ---- HS8: every hasher hashes -------------------------------------------------------------------------------------------------------

func ruleHS8(c *Ctx) *rule {
	r := &rule{ID: "HS8", Engine: "E3", Floor: 1,
		Statement: "every implementation of Hasher.Hash other than the concurrent one returns, with a nil error, either a constant (a stand-in that never equals a digest) or the result of calling another hasher in the same invocation; none returns a value it kept from an earlier call (a map or field)",
		Necessity: "a digest describes the files as they are when it is computed: one that is remembered across calls (memoised per file list) describes them as they were, so a task that runs after an earlier task rewrote its inputs is recorded with, and later compared against, a stale digest"}
	iface := c.hasherIface()
	t := c.hashTopology()
	n := 0
	for _, f := range c.ModFuncs {
		if f.Name() != "Hash" || f.Signature.Recv() == nil || f.Synthetic != "" || len(f.Blocks) == 0 || (t != nil && f == t.fn) {
			continue
		}
		if !types.Implements(f.Signature.Recv().Type(), iface) && !types.Implements(types.NewPointer(f.Signature.Recv().Type()), iface) {
			continue
		}
		n++
		key := fname(f) + " computes or delegates"
		bad := ""
		for _, ret := range returnsOf(f) {
			if len(ret.Results) != 2 {
				continue
			}
			if ev := ret.Results[1]; !isNilConst(ev) && !mayBeNil(ev, map[ssa.Value]bool{}) {
				if _, isExtract := ev.(*ssa.Extract); !isExtract {
					continue
				}
			}
			for _, o := range origins(ret.Results[0]) {
				switch x := o.(type) {
				case *ssa.Const:
				case *ssa.Extract:
					if call, ok := x.Tuple.(*ssa.Call); !ok || !c.isHashCall(call) {
						bad = condText(o)
					}
				default:
					bad = condText(o)
				}
			}
		}
		if bad != "" {
			r.bad(key, c.pos(f.Pos()), "a digest that was not computed by this call is returned ("+bad+")")
		} else {
			r.ok(key, c.pos(f.Pos()), "returns a constant or the result of the hasher it wraps")
		}
	}
	if n == 0 {
		r.ok("other Hasher implementations", "-", "the concurrent hasher is the only implementation")
	}
	return r
}

// ---- HS7: the hasher does not touch the list it is given ---------------------------------------------------------------------------

func ruleHS7(c *Ctx) *rule {
	r := &rule{ID: "HS7", Engine: "E3", Floor: 1,
		Statement: "a list that may share its backing array with a remembered glob expansion (it is, or is appended to, a value looked up in SpokFile.Globs) is never handed to a Hasher.Hash implementation that overwrites, sorts, compacts or appends in place to its argument",
		Necessity: "the remembered expansion of a pattern is what the pattern denotes for every later task and for --clean: a hasher that sorts or compacts a list sharing its storage rewrites it (each half alone - a hasher that sorts a private list, a caller that shares a list with a read-only hasher - changes nothing and is accepted)"}
	iface := c.hasherIface()
	mutates := ""
	for _, f := range c.ModFuncs {
		if f.Name() != "Hash" || f.Signature.Recv() == nil || f.Synthetic != "" || len(f.Blocks) == 0 {
			continue
		}
		if !types.Implements(f.Signature.Recv().Type(), iface) && !types.Implements(types.NewPointer(f.Signature.Recv().Type()), iface) {
			continue
		}
		for _, p := range f.Params {
			if _, isSlice := p.Type().Underlying().(*types.Slice); !isSlice {
				continue
			}
			if why := c.sliceMutation(p, 2, map[ssa.Value]bool{}, "the list handed to the hasher"); why != "" {
				mutates = why
			}
		}
	}
	// may the list at a call site share storage with an entry of SpokFile.Globs?
	var sharesGlobs func(v ssa.Value, seen map[ssa.Value]bool) bool
	sharesGlobs = func(v ssa.Value, seen map[ssa.Value]bool) bool {
		if seen[v] {
			return false
		}
		seen[v] = true
		switch x := v.(type) {
		case *ssa.Phi:
			for _, e := range x.Edges {
				if sharesGlobs(e, seen) {
					return true
				}
			}
		case *ssa.Lookup:
			return isFieldLoad(x.X, "file.SpokFile.Globs")
		case *ssa.Extract:
			if lk, ok := x.Tuple.(*ssa.Lookup); ok && x.Index == 0 {
				return isFieldLoad(lk.X, "file.SpokFile.Globs")
			}
		case *ssa.Slice:
			return sharesGlobs(x.X, seen)
		case *ssa.Call:
			if bi, ok := x.Call.Value.(*ssa.Builtin); ok && bi.Name() == "append" && len(x.Call.Args) > 0 {
				return sharesGlobs(x.Call.Args[0], seen) // the appended elements are copied, the base may be kept
			}
		}
		return false
	}
	n := 0
	for _, f := range c.ModFuncs {
		for _, site := range callSites(f) {
			call, ok := site.(*ssa.Call)
			if !ok || !c.isHashCall(call) {
				continue
			}
			args := call.Common().Args
			if len(args) == 0 {
				continue
			}
			n++
			key := fmt.Sprintf("%s Hash#%d argument", fname(f), n)
			shared := sharesGlobs(args[len(args)-1], map[ssa.Value]bool{})
			switch {
			case shared && mutates != "":
				r.bad(key, c.ipos(call), "the list may share its storage with a remembered glob expansion, and "+mutates)
			case shared:
				r.ok(key, c.ipos(call), "the list may share storage with a remembered expansion; every hasher only reads it")
			default:
				r.ok(key, c.ipos(call), "the list is built in a slice of its own")
			}
		}
	}
	if n == 0 {
		r.undecided("calls of Hasher.Hash", "-", "no call of Hasher.Hash found in the module")
	}
	return r
}

// ---- HS6: a digest is never a constant -----------------------------------------------------------------------------------------

func ruleHS6(c *Ctx) *rule {
	r := &rule{ID: "HS6", Engine: "E3", Floor: 1,
		Statement: "every return of the hashing implementation that carries a nil error returns a string computed from the SHA-256 sum (an encoding of the state), never a constant; the only constants are returned together with a non-nil error",
		Necessity: "the cache stands for 'no recorded success' with the empty string, and the run loop compares digests for equality: a digest that can be the empty string (or any other fixed text) for some file list makes that list equal to 'never succeeded' or to another list, and a task is reported skipped on it"}
	t := c.hashTopology()
	if t == nil || t.fn == nil {
		r.undecided("hash implementation", "-", "the concurrent Hash implementation was not found")
		return r
	}
	n := 0
	for _, ret := range returnsOf(t.fn) {
		if len(ret.Results) != 2 {
			continue
		}
		ev := ret.Results[1]
		if !isNilConst(ev) && !mayBeNil(ev, map[ssa.Value]bool{}) {
			continue // an error return: the digest is not used
		}
		n++
		key := fmt.Sprintf("%s digest return#%d", fname(t.fn), n)
		_ = key
		// digest and error are paired edge by edge where both are merged in the same block (a helper returning
		// (digest, error) that was inlined): a constant digest is fine on the edges whose error is not nil
		bad, unsure := "", ""
		// errors the guards of this return say are not nil (`if firstErr != nil { return "", firstErr }`)
		nonNil := map[ssa.Value]bool{}
		for _, g := range c.info(t.fn).necessaryGuards(ret.Block()) {
			if x, nonNilWhenTrue, isTest := errNilTest(g.cond); isTest && nonNilWhenTrue == g.pol {
				nonNil[x] = true
			}
		}
		var pair func(val, err ssa.Value, depth int)
		pair = func(val, err ssa.Value, depth int) {
			if depth > 6 || bad != "" {
				return
			}
			vp, vIsPhi := val.(*ssa.Phi)
			ep, eIsPhi := err.(*ssa.Phi)
			switch {
			case vIsPhi && eIsPhi && vp.Block() == ep.Block():
				for i := range vp.Edges {
					pair(vp.Edges[i], ep.Edges[i], depth+1)
				}
			case vIsPhi:
				for i := range vp.Edges {
					pair(vp.Edges[i], err, depth+1)
				}
			default:
				k, isC := val.(*ssa.Const)
				if !isC {
					return
				}
				switch {
				case nonNil[err]:
				case isNilConst(err):
					bad = condText(k)
				case eIsPhi && mayBeNil(err, map[ssa.Value]bool{}):
					unsure = condText(k) // merged elsewhere: which error goes with the constant is not visible edge by edge
				}
			}
		}
		pair(ret.Results[0], ev, 0)
		switch {
		case bad != "":
			r.bad(key, c.ipos(ret), "the constant "+bad+" can be returned as a digest with a nil error")
		case unsure != "":
			r.undecided(key, c.ipos(ret), "the constant "+unsure+" and a possibly nil error are merged in different places: whether they can be returned together is not decided")
		default:
			r.ok(key, c.ipos(ret), "the digest is computed, not a constant (constants only go with a non-nil error)")
		}
	}
	if n == 0 {
		r.undecided(fname(t.fn)+" digest returns", c.pos(t.fn.Pos()), "no return with a nil error found")
	}
	return r
}

// ---- HE1: the hasher's error stops the run ---------------------------------------------------------------------------------------

func ruleHE1(c *Ctx) *rule {
	r := &rule{ID: "HE1", Engine: "E2", Floor: 1,
		Statement: "every call of Hasher.Hash made by the module uses the returned error, and the error's non-nil edge reaches only non-nil error returns: no caller goes on with the digest of a failed hashing",
		Necessity: "a file that cannot be opened or read yields an error and no digest; a caller that ignores or downgrades that error continues with an empty or partial digest, so spok neither stops with a message nor decides on the task's real inputs"}
	n := 0
	for _, f := range c.ModFuncs {
		for _, site := range callSites(f) {
			call, ok := site.(*ssa.Call)
			if !ok || !c.isHashCall(call) {
				continue
			}
			n++
			key := fmt.Sprintf("%s Hash#%d error", fname(f), n)
			ev := errOfCall(call)
			if ev == nil {
				r.bad(key, c.ipos(call), "the error of Hash is discarded")
				continue
			}
			if ok, why := c.errEdgeDischarged(ev); !ok {
				r.bad(key, c.ipos(call), "the error of Hash does not stop the run: "+why)
				continue
			}
			r.ok(key, c.ipos(call), "the non-nil edge of the error reaches only non-nil error returns")
		}
	}
	return r
}

func hashProperties() []*propertySpec {
	trusted := []string{
		"sync.WaitGroup, unbuffered channel and close semantics of the Go memory model",
		"os.Open / (*os.File).Stat return a nil value together with a non-nil error; (*os.File) methods are nil-safe",
		"io.Copy reads its source to EOF or returns an error; crypto/sha256 and sort.Stable are correct",
	}
	return []*propertySpec{
		{ID: "C04", Title: "The digest is a deterministic, change-sensitive function of the file set",
			Explanation: "Static analysis of the goroutine topology of the Hash implementation (channels, senders, receivers recovered by alias propagation through closures and parameters): HS1 proves that the only arrival-ordered slice that flows into the returned digest is sorted (dominance of the sort call over every consumer) with a comparator that orders whole elements; HS2 proves by origin tracing that every item is sha256 of the entire file opened on the job path plus that unmodified path, and that both reach the accumulated element; HS3 proves by path enumeration that each job yields exactly one item unless it is a directory; HS4 proves by interval evaluation that at least one worker exists for a non-empty list.",
			NotCovered:  []string{"injectivity of the hash||path framing and collision resistance of SHA-256", "that min(NumCPU, len) is the best bound", "duplicate paths in the list (value-level)"},
			Assumptions: trusted,
			Rules:       []func(*Ctx) *rule{ruleHS1, ruleHS2, ruleHS3, ruleHS4("HS4"), ruleHS5, ruleHS8}},
		{ID: "C18", Title: "Hashing any path list returns cleanly: no crash, deadlock, race or leak",
			Explanation: "Schedules and fault sequences are covered by shape conditions on the fixed producer/jobs/workers/results/collector topology recovered from the SSA form: CC1 (no dereference of a value whose paired error is non-nil or discarded), CC2 (every worker error is sent on all paths), CC3 (nil-error return guarded by the received errors), CC4 (Done deferred at entry, Add(1) before each go in the same iteration), CC5 (single close of jobs by the sole producer after the last send on every path; close of results after Wait), CC6 (receive loops leave only on channel-closed), CC7 (no shared writable memory), CC8 (>= 1 worker). CC4-CC8 together with HS3 are sufficient for deadlock-, leak- and race-freedom of this topology under any schedule: every worker terminates iff jobs is closed and drained; jobs is closed after finitely many sends, each of which is matched because >= 1 worker loops until closed; each worker's sends are matched because the collector drains until closed; results is closed exactly when all workers are done. A different topology makes the check undecided, not green.",
			NotCovered:  []string{"panics inside the standard library", "liveness if the file system blocks a read forever"},
			Assumptions: trusted,
			Rules:       []func(*Ctx) *rule{ruleCC1, ruleCC2, ruleCC3, ruleCC4, ruleCC5, ruleCC6, ruleCC7, ruleHS4("CC8"), ruleCC9, ruleCC10, ruleHE1}},
	}
}

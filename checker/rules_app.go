package main

import (
	"fmt"
	"go/token"
	"go/types"
	"sort"
	"strings"

	"golang.org/x/tools/go/ssa"
)

// ---- C12: --clean ------------------------------------------------------------------------------------------------------------

var outputFields = []string{"FileOutputs", "NamedOutputs", "GlobOutputs"}

type removalSink struct {
	site ssa.CallInstruction
	fn   *ssa.Function
	arg  ssa.Value
	cond map[string]bool
}

// removalSinks: os.Remove / os.RemoveAll call sites whose entry conditions include Options.Clean == true.
func (c *Ctx) removalSinks() []removalSink {
	var out []removalSink
	for _, m := range c.mutatingSites() {
		if m.callee != "os.Remove" && m.callee != "os.RemoveAll" {
			continue
		}
		cond := c.condsAt(m.site)
		out = append(out, removalSink{m.site, m.fn, m.site.Common().Args[0], cond})
	}
	return out
}

func (c *Ctx) checkOutputTable() {
	st := c.namedType("task", "Task").Underlying().(*types.Struct)
	have := map[string]bool{}
	for i := 0; i < st.NumFields(); i++ {
		have[st.Field(i).Name()] = true
	}
	for _, f := range outputFields {
		if !have[f] {
			lost("task.Task has no field %s", f)
		}
	}
	// every []string field filled from ast.Task.Outputs must be in the table
	newF := c.fn("task", "New")
	for i := 0; i < st.NumFields(); i++ {
		name := st.Field(i).Name()
		for _, s := range c.fieldStores()["task.Task."+name] {
			if s.Parent() != newF {
				continue
			}
			sl := c.newSlicer()
			sl.depth = 0
			res := sl.run(s.Val)
			if res.hasField("ast.Task.Outputs") && !res.hasField("ast.Task.Dependencies") {
				in := false
				for _, f := range outputFields {
					if f == name {
						in = true
					}
				}
				if !in {
					lost("task.Task.%s is filled from ast.Task.Outputs but is not in the checker's table of output fields", name)
				}
			}
		}
	}
}

func ruleCL1(c *Ctx) *rule {
	r := &rule{ID: "CL1", Engine: "E1+E3", Floor: 1,
		Statement: "every path handed to os.Remove/RemoveAll under --clean derives only from the output fields of the tasks (literal, named through SpokFile.Vars, glob through its expansion) and from SpokFile.Dir joined with the cache directory constant",
		Necessity: "any other root (dependencies, the spokfile's own path, the working directory, a parent directory) makes --clean delete something that is not a declared output"}
	c.checkOutputTable()
	sinks := c.removalSinks()
	r.note("%d removal call site(s) in the module", len(sinks))
	allowedFields := map[string]bool{
		"task.Task.FileOutputs": true, "task.Task.NamedOutputs": true, "task.Task.GlobOutputs": true,
		"file.SpokFile.Tasks": true, "file.SpokFile.Vars": true, "file.SpokFile.Globs": true, "file.SpokFile.Dir": true,
	}
	allowedCalls := map[string]bool{
		"path/filepath.Abs": true, "path/filepath.Join": true, "path/filepath.Clean": true, "builtin.append": true, "builtin.len": true,
		"builtin.min": true, "builtin.max": true, "builtin.make": true,
		"slices.Concat": true, "slices.Clone": true, "slices.Grow": true, "slices.Clip": true, // copies: what they copy is sliced through
		"github.com/bmatcuk/doublestar/v4.GlobWalk": true, "os.DirFS": true, "path/filepath.FromSlash": true, "path/filepath.ToSlash": true,
	}
	for i, s := range sinks {
		key := fmt.Sprintf("%s %s#%d provenance", fname(s.fn), calleeName(s.site.Common()), i+1)
		if !s.cond["opt:Clean=true"] {
			r.bad(key, c.ipos(s.site), "a removal is reachable without --clean: entry conditions "+atomList(s.cond))
			continue
		}
		sl := c.newSlicer()
		sl.depth = 3
		sl.fieldStop = true
		res := sl.run(s.arg)
		var bad []string
		for _, k := range res.fieldKeys() {
			if !allowedFields[k] {
				bad = append(bad, "field "+k)
			}
		}
		for _, n := range res.callNames() {
			if allowedCalls[n] || strings.HasPrefix(n, modPath) || strings.HasPrefix(n, "("+modPath) || strings.HasPrefix(n, "(*"+modPath) {
				continue
			}
			bad = append(bad, "call "+n)
		}
		for _, g := range res.globs {
			if g.Pkg != nil && g.Pkg.Pkg.Path() == pkgPath("cache") {
				continue
			}
			bad = append(bad, "global "+g.String())
		}
		if len(bad) == 0 {
			r.ok(key, c.ipos(s.site), "roots: "+join(res.fieldKeys()))
		} else {
			r.bad(key, c.ipos(s.site), "the removed path can derive from "+strings.Join(bad, ", ")+", which is not a declared output nor the cache directory")
		}
	}
	if len(sinks) == 0 {
		r.bad("module no-removal", "?", "--clean removes nothing: there is no os.Remove/RemoveAll in the module")
	}
	return r
}

func ruleCL2(c *Ctx) *rule {
	r := &rule{ID: "CL2", Engine: "E3", Floor: 4,
		Statement: "each output field of task.Task (FileOutputs, NamedOutputs, GlobOutputs) and the cache directory reach a removal call under --clean",
		Necessity: "an output kind that never reaches the removal is left behind by --clean (e.g. files matching an output glob)"}
	c.checkOutputTable()
	fields := map[string]bool{}
	cacheDir := false
	var at ssa.CallInstruction
	for _, s := range c.removalSinks() {
		if !s.cond["opt:Clean=true"] {
			continue
		}
		at = s.site
		sl := c.newSlicer()
		sl.depth = 3
		sl.fieldStop = true
		res := sl.run(s.arg)
		for _, k := range res.fieldKeys() {
			fields[k] = true
		}
		if res.hasField("file.SpokFile.Dir") {
			for _, cst := range res.consts {
				if s, ok := constString(cst); ok && s == constStringMember(c, "cache", "Dir") {
					cacheDir = true
				}
			}
			if sliceHasGlobal(res, "Path", pkgPath("cache")) || sliceHasGlobal(res, "Dir", pkgPath("cache")) {
				cacheDir = true
			}
		}
	}
	// a removal that is only made when os.Stat succeeds on the path skips what Stat cannot resolve: a dangling symbolic link
	for _, s := range c.removalSinks() {
		if !s.cond["opt:Clean=true"] {
			continue
		}
		in, isIn := s.site.(ssa.Instruction)
		if !isIn {
			continue
		}
		statSucceeded := func(g guard) bool {
			x, nonNilWhenTrue, isTest := errNilTest(g.cond)
			if !isTest || nonNilWhenTrue == g.pol {
				return false // not "the error is nil"
			}
			ex, isEx := x.(*ssa.Extract)
			if !isEx {
				return false
			}
			call, isCall := ex.Tuple.(*ssa.Call)
			return isCall && calleeName(call.Common()) == "os.Stat"
		}
		// the guards of the removal itself and of every append that puts a path on the list the removal works through
		type guarded struct {
			g  guard
			at ssa.Instruction
		}
		var gs []guarded
		for _, g := range c.info(in.Parent()).necessaryGuards(in.Block()) {
			gs = append(gs, guarded{g, in})
		}
		if pa := s.site.Common().Args; len(pa) > 0 {
			ps := c.newSlicer()
			ps.depth = 2
			for _, v := range ps.run(pa[0]).order {
				app, isCall := v.(*ssa.Call)
				if !isCall {
					continue
				}
				if bi, isB := app.Call.Value.(*ssa.Builtin); !isB || bi.Name() != "append" {
					continue
				}
				for _, g := range c.info(app.Parent()).necessaryGuards(app.Block()) {
					gs = append(gs, guarded{g, app})
				}
			}
		}
		for _, gg := range gs {
			g, in := gg.g, gg.at
			hit := statSucceeded(g)
			if call, isCall := g.cond.(*ssa.Call); isCall && !hit {
				// a module predicate (`exists(path)`): the ways it returns the value this edge needs
				if pred := call.Common().StaticCallee(); pred != nil && inModule(pred) && len(pred.Blocks) > 0 {
					sets := c.resultGuardSets(pred, g.pol)
					all := len(sets) > 0
					for _, gs := range sets {
						one := false
						for _, pg := range gs {
							if statSucceeded(pg) {
								one = true
							}
						}
						if !one {
							all = false
						}
					}
					hit = all
				}
			}
			if !hit {
				continue
			}
			r.bad(fname(in.Parent())+" removal guarded by os.Stat", c.ipos(in), "the removal is only made when os.Stat succeeds on the path: os.Stat follows symbolic links, so a declared output that is a dangling link (or a link into an output removed a moment earlier) is skipped and left behind (os.Lstat tests the entry itself)")
		}
	}
	pos := "?"
	if at != nil {
		pos = c.ipos(at)
	}
	for _, f := range outputFields {
		key := "clean removes task.Task." + f
		if fields["task.Task."+f] {
			r.ok(key, pos, "reaches the removal")
		} else {
			r.bad(key, pos, "task.Task."+f+" never reaches os.Remove/RemoveAll under --clean: outputs of this kind are left behind")
		}
	}
	key := "clean removes cache directory"
	if cacheDir {
		r.ok(key, pos, "SpokFile.Dir joined with the cache directory constant reaches the removal")
	} else {
		r.bad(key, pos, "spok's cache directory is not removed by --clean")
	}
	// glob outputs must go through their expansion, not be removed as literal patterns
	if fields["task.Task.GlobOutputs"] && !fields["file.SpokFile.Globs"] {
		r.bad("clean expands GlobOutputs", pos, "output glob patterns reach the removal without being expanded into the files they match")
	} else if fields["task.Task.GlobOutputs"] {
		r.ok("clean expands GlobOutputs", pos, "output globs are removed through their expansion")
	}
	return r
}

// ---- CL7: a variable's value is not glued behind another path ------------------------------------------------------------------------

func ruleCL7(c *Ctx) *rule {
	r := &rule{ID: "CL7", Engine: "E3", Floor: 0,
		Statement: "under --clean, the value of a variable that names an output (a lookup in SpokFile.Vars) is never a later element of a filepath.Join: it may already be an absolute path (join(...) always is), and Join(dir, \"/abs\") is dir/abs",
		Necessity: "the path that is then removed does not exist, the real output stays on disk and --clean reports success"}
	seenF := map[*ssa.Function]bool{}
	n := 0
	for _, s := range c.removalSinks() {
		if !s.cond["opt:Clean=true"] {
			continue
		}
		for _, f := range closuresOf(s.fn) {
			if seenF[f] {
				continue
			}
			seenF[f] = true
			for _, site := range callsTo(f, "path/filepath.Join") {
				args := site.Common().Args
				if len(args) != 1 {
					continue
				}
				sl, ok := args[0].(*ssa.Slice)
				if !ok {
					continue
				}
				arr, ok := sl.X.(*ssa.Alloc)
				if !ok {
					continue
				}
				for _, addr := range derivedAddrs(arr) {
					ia, ok := addr.(*ssa.IndexAddr)
					if !ok {
						continue
					}
					k, isC := constInt(ia.Index)
					if !isC || k == 0 {
						continue
					}
					for _, ref := range valueReferrers(ia) {
						st, ok := ref.(*ssa.Store)
						if !ok || st.Addr != ssa.Value(ia) {
							continue
						}
						vs := c.newSlicer()
						vs.depth = 0
						fromVars := false
						for _, v := range vs.run(st.Val).order {
							if lk, ok := v.(*ssa.Lookup); ok && isFieldLoad(lk.X, "file.SpokFile.Vars") {
								fromVars = true
							}
						}
						if fromVars {
							n++
							r.bad(fmt.Sprintf("%s Join#%d variable value not first", fname(f), n), c.ipos(site), "the value of a variable is joined behind another path: when it is absolute (the join builtin, or a user-written absolute path) the result is not the declared output")
						}
					}
				}
			}
		}
	}
	if n == 0 {
		r.ok("clean variable values kept whole", "-", "no variable value is a later element of a filepath.Join under --clean")
	}
	return r
}

func constStringMember(c *Ctx, short, name string) string {
	if m, ok := c.pkg(short).Members[name].(*ssa.NamedConst); ok {
		return constantStringValOf(m)
	}
	return ""
}

// containmentGuard: cond relates the value v (or an element of the slice it is an element of) to SpokFile.Dir.
func (c *Ctx) relatesToRoot(cond ssa.Value, elems []ssa.Value) bool {
	sl := c.newSlicer()
	sl.depth = 2
	res := sl.run(cond)
	hasElem := false
	for _, e := range elems {
		if res.has(e) {
			hasElem = true
		}
	}
	if !hasElem {
		return false
	}
	return res.hasField("file.SpokFile.Dir") || res.hasCall("path/filepath.IsLocal")
}

func ruleCL3(c *Ctx) *rule {
	r := &rule{ID: "CL3", Engine: "E2+E3", Floor: 1,
		Statement: "every removal under --clean is preceded by a test that relates the removed path to the project root (SpokFile.Dir / filepath.IsLocal) and whose failing side ends in an error: either a necessary guard at the removal, or a validate-everything pass over the same list that dominates the removal loop",
		Necessity: "code that never relates the path to the root cannot protect the project for outputs that evaluate to \"\", \".\" or \"..\": os.RemoveAll then deletes the spokfile's directory or its parent"}
	for i, s := range c.removalSinks() {
		if !s.cond["opt:Clean=true"] {
			continue
		}
		key := fmt.Sprintf("%s %s#%d containment", fname(s.fn), calleeName(s.site.Common()), i+1)
		fi := c.info(s.fn)
		// the removed value and, when it is a range element, the slice it comes from
		elems := []ssa.Value{s.arg}
		var list ssa.Value
		for _, o := range origins(s.arg) {
			elems = append(elems, o)
			if u, ok := o.(*ssa.UnOp); ok && u.Op == token.MUL {
				if ia, ok := u.X.(*ssa.IndexAddr); ok {
					list = ia.X
				}
			}
		}
		found := ""
		// (1) guard at the sink
		for _, g := range fi.necessaryGuards(s.site.Block()) {
			if c.relatesToRoot(g.cond, elems) {
				// the other side ends in an error, or merely skips the entry: both refuse to delete it
				found = "guarded at the removal by " + condText(g.cond)
			}
		}
		// (2) validate-all pass over the same list
		if found == "" && list != nil {
			for _, l := range fi.loops {
				if l.body[s.site.Block()] || !dominates(l.header, s.site.Block()) {
					continue
				}
				// ranges over the same list
				var elem2 []ssa.Value
				for _, b := range s.fn.Blocks {
					if !l.body[b] {
						continue
					}
					for _, in := range b.Instrs {
						if ia, ok := in.(*ssa.IndexAddr); ok && ia.X == list {
							elem2 = append(elem2, ia)
							for _, ref := range valueReferrers(ia) {
								if u, ok := ref.(*ssa.UnOp); ok && u.Op == token.MUL {
									elem2 = append(elem2, u)
								}
							}
						}
					}
				}
				if len(elem2) == 0 {
					continue
				}
				for _, b := range s.fn.Blocks {
					if !l.body[b] {
						continue
					}
					iff, ok := lastInstr(b).(*ssa.If)
					if !ok {
						continue
					}
					for idx := 0; idx < 2; idx++ {
						cond, _, _ := branchCond(b, nil, idx)
						if cond == nil {
							continue
						}
						_ = iff
						if !c.relatesToRoot(cond, elem2) {
							continue
						}
						if ok, _ := c.edgeEndsInError(edge{b, idx}); ok {
							// the loop must be left only by exhaustion (or the error)
							found = "validated by a pass over the whole list before anything is removed (" + condText(cond) + ")"
						}
					}
				}
			}
		}
		// (3) the validate-all pass written as a search: "no element of the list satisfies <refuse>", where every way <refuse>
		// returns false has passed a test relating its argument to the root
		if found == "" && list != nil {
			for _, g := range fi.necessaryGuards(s.site.Block()) {
				coll, pred, hit, isSearch := searchTest(g.cond, g.pol)
				if !isSearch || hit || !(sameOrigins(coll, list) || sameStableCell(coll, list)) || predElem(pred) == nil {
					continue
				}
				sets := c.resultGuardSets(pred, false)
				all := len(sets) > 0
				for _, set := range sets {
					one := false
					for _, pg := range set {
						if c.relatesToRoot(pg.cond, []ssa.Value{predElem(pred)}) {
							one = true
						}
					}
					if !one {
						all = false
					}
				}
				if all {
					found = "validated by a search over the whole list before anything is removed (no element satisfies " + fname(pred) + ")"
				}
			}
		}
		if found != "" {
			r.ok(key, c.ipos(s.site), found)
		} else {
			r.bad(key, c.ipos(s.site), "no test relates the removed path to SpokFile.Dir before os.RemoveAll: an output that evaluates to \"\" or \".\" removes the whole project directory")
		}
	}
	return r
}

// sameStableCell: a and b are loads of the same local cell (variable or field of a local struct) and every store into that
// cell comes before the first of the two loads, so both see the same value.
func sameStableCell(a, b ssa.Value) bool {
	la, ok1 := a.(*ssa.UnOp)
	lb, ok2 := b.(*ssa.UnOp)
	if !ok1 || !ok2 || la.Op != token.MUL || lb.Op != token.MUL || !sameCell(la.X, lb.X) {
		return false
	}
	base := baseAlloc(la.X)
	if base == nil {
		return false
	}
	first := ssa.Instruction(la)
	if before(lb, la) {
		first = lb
	}
	after := reachFromInstr(first)
	for _, addr := range derivedAddrs(base) {
		if !sameCell(addr, la.X) && addr != ssa.Value(base) {
			continue
		}
		for _, ref := range valueReferrers(addr) {
			st, ok := ref.(*ssa.Store)
			if !ok || st.Addr != addr {
				continue
			}
			if after[st.Block()] || (st.Block() == first.Block() && before(first, st)) {
				return false // the cell can be written after the first of the two reads
			}
		}
	}
	return true
}

func ruleCL4(c *Ctx) *rule {
	r := &rule{ID: "CL4", Engine: "E1", Floor: 2,
		Statement: "every removal spok performs itself has the entry conditions Options.Clean == true and HasTask(\"clean\") == false; on the HasTask(\"clean\") == true side the task named \"clean\" is run",
		Necessity: "otherwise spok deletes outputs although the user defined their own clean task (or without --clean at all)"}
	for i, s := range c.removalSinks() {
		key := fmt.Sprintf("%s %s#%d entry-conditions", fname(s.fn), calleeName(s.site.Common()), i+1)
		if s.cond["opt:Clean=true"] && s.cond["hastask:clean=false"] {
			r.ok(key, c.ipos(s.site), atomList(s.cond))
		} else {
			r.bad(key, c.ipos(s.site), "the removal is reachable under "+atomList(s.cond)+"; required: opt:Clean=true and hastask:clean=false")
		}
	}
	c.dispatchRule(r, "clean", "opt:Clean=true")
	return r
}

// dispatchRule checks `if HasTask("<name>") { run "<name>" }`: the constant tested equals the task name run on the true edge.
func (c *Ctx) dispatchRule(r *rule, name string, requiredAtom string) {
	rl := c.runLoop()
	found := false
	for _, f := range c.ModFuncs {
		fi := c.info(f)
		for _, site := range callSites(f) {
			call, ok := site.(*ssa.Call)
			if !ok || !c.isTaskHitTest(call.Common().StaticCallee()) || len(call.Common().Args) != 2 {
				continue
			}
			if s, ok := constString(call.Common().Args[1]); !ok || s != name {
				continue
			}
			if requiredAtom != "" && !c.condsAt(site)[requiredAtom] {
				continue
			}
			// the true edge
			for _, ref := range valueReferrers(call) {
				iff, ok := ref.(*ssa.If)
				if !ok {
					continue
				}
				found = true
				key := fmt.Sprintf("%s HasTask(%q)->run %q", fname(f), name, name)
				okRun := false
				for _, s2 := range callSites(f) {
					if !edgeDominates(edge{iff.Block(), 0}, s2.Block()) {
						continue
					}
					reachesX := false
					for _, callee := range c.callees(s2) {
						if callee == rl.fn || c.reachesFn(callee, rl.fn) {
							reachesX = true
						}
					}
					if !reachesX {
						continue
					}
					sl := c.newSlicer()
					sl.depth = 0
					// (only the arguments that can carry task names: strings and string slices)
					var nameArgs []ssa.Value
					for _, a := range s2.Common().Args {
						switch t := a.Type().Underlying().(type) {
						case *types.Basic:
							if t.Info()&types.IsString != 0 {
								nameArgs = append(nameArgs, a)
							}
						case *types.Slice:
							if b, ok := t.Elem().Underlying().(*types.Basic); ok && b.Info()&types.IsString != 0 {
								nameArgs = append(nameArgs, a)
							}
						}
					}
					res := sl.run(nameArgs...)
					names := []string{}
					for _, cst := range res.consts {
						if s, ok := constString(cst); ok {
							names = append(names, s)
						}
					}
					if len(names) == 1 && names[0] == name {
						okRun = true
					}
				}
				_ = fi
				if okRun {
					r.ok(key, c.ipos(call), "the task that is tested for is the task that is run")
				} else {
					r.bad(key, c.ipos(call), fmt.Sprintf("on the HasTask(%q) == true edge the task named %q is not what is run", name, name))
				}
			}
		}
	}
	if !found {
		r.bad(fmt.Sprintf("module HasTask(%q) dispatch", name), "?", fmt.Sprintf("no dispatch on HasTask(%q) found", name))
	}
}

// ---- C19: spok writes only where the chosen action says -------------------------------------------------------------------------------

func (c *Ctx) pathArg(m mutSite) ssa.Value {
	args := m.site.Common().Args
	if strings.HasPrefix(m.callee, "(*os.File)") {
		return args[0] // the handle
	}
	if len(args) == 0 {
		return nil
	}
	return args[0]
}

// variadicElems: the values stored into the array behind a variadic argument (`f(a, b, c)` passes a slice of a fresh array), by index.
func variadicElems(arg ssa.Value) []ssa.Value {
	sl, ok := arg.(*ssa.Slice)
	if !ok {
		return nil
	}
	arr, ok := sl.X.(*ssa.Alloc)
	if !ok {
		return nil
	}
	byIdx := map[int64]ssa.Value{}
	for _, addr := range derivedAddrs(arr) {
		ia, ok := addr.(*ssa.IndexAddr)
		if !ok {
			continue
		}
		k, isC := constInt(ia.Index)
		if !isC {
			return nil
		}
		for _, ref := range valueReferrers(ia) {
			if st, ok := ref.(*ssa.Store); ok && st.Addr == ssa.Value(ia) {
				byIdx[k] = st.Val
			}
		}
	}
	var out []ssa.Value
	for i := int64(0); ; i++ {
		v, ok := byIdx[i]
		if !ok {
			break
		}
		out = append(out, v)
	}
	return out
}

// dirRooted: on every way v can be produced it is a path that starts with SpokFile.Dir: the field itself, a filepath.Join whose first
// element is one, filepath.Dir / Clean / Abs of one, a handle opened on one, or a parameter bound to one at every call site of the
// module. It returns "" or what was found instead.
func (c *Ctx) dirRooted(v ssa.Value, depth int, seen map[ssa.Value]bool) string {
	if v == nil {
		return "no path argument"
	}
	if seen[v] {
		return ""
	}
	seen[v] = true
	if depth == 0 {
		return "call chain too deep"
	}
	for _, o := range origins(v) {
		if isFieldLoad(o, "file.SpokFile.Dir") || fieldKey(o) == "file.SpokFile.Dir" {
			continue
		}
		switch x := o.(type) {
		case *ssa.Parameter:
			if !inModule(x.Parent()) {
				return "parameter of " + fname(x.Parent())
			}
			idx := -1
			for i, q := range x.Parent().Params {
				if q == x {
					idx = i
				}
			}
			sites := c.callersOf(x.Parent())
			if len(sites) == 0 {
				// an exported entry point nobody in the module calls: its callers are outside this analysis (FX1 judges module sites)
				continue
			}
			for _, s := range sites {
				args := s.Common().Args
				if idx >= len(args) {
					return "cannot bind at " + c.ipos(s)
				}
				if why := c.dirRooted(args[idx], depth-1, seen); why != "" {
					return why + " <- " + fname(s.Parent()) + " at " + c.ipos(s)
				}
			}
			continue
		case *ssa.Call:
			n := calleeName(x.Common())
			args := x.Common().Args
			switch n {
			case "path/filepath.Join":
				if len(args) == 1 {
					if el := variadicElems(args[0]); len(el) > 0 {
						if why := c.dirRooted(el[0], depth, seen); why != "" {
							return why
						}
						continue
					}
				}
			case "path/filepath.Dir", "path/filepath.Clean":
				if why := c.dirRooted(args[0], depth, seen); why != "" {
					return why
				}
				continue
			}
			return "the result of " + n
		case *ssa.Extract:
			if call, ok := x.Tuple.(*ssa.Call); ok {
				n := calleeName(call.Common())
				switch n {
				case "path/filepath.Abs", "os.OpenFile", "os.Create", "os.Open":
					if why := c.dirRooted(call.Common().Args[0], depth, seen); why != "" {
						return why
					}
					continue
				}
				return "the result of " + n
			}
			return valText(o)
		case *ssa.Const:
			s, _ := constString(x)
			return fmt.Sprintf("the constant %q", s)
		}
		if g, ok := o.(*ssa.UnOp); ok {
			if gl, isG := g.X.(*ssa.Global); isG {
				return "the package-level " + gl.Name()
			}
		}
		return valText(o)
	}
	return ""
}

func dirDepth(v ssa.Value, seen map[ssa.Value]bool) int {
	if v == nil || seen[v] {
		return 0
	}
	seen[v] = true
	best := 0
	switch x := v.(type) {
	case *ssa.Call:
		d := 0
		if calleeName(x.Common()) == "path/filepath.Dir" {
			d = 1
		}
		for _, a := range x.Common().Args {
			if n := dirDepth(a, seen); n > best {
				best = n
			}
		}
		return best + d
	case *ssa.Phi:
		for _, e := range x.Edges {
			if n := dirDepth(e, seen); n > best {
				best = n
			}
		}
	case *ssa.Extract:
		return dirDepth(x.Tuple, seen)
	case *ssa.UnOp:
		if a, ok := x.X.(*ssa.Alloc); ok {
			for _, ref := range valueReferrers(a) {
				if st, ok := ref.(*ssa.Store); ok && st.Addr == ssa.Value(a) {
					if n := dirDepth(st.Val, seen); n > best {
						best = n
					}
				}
			}
		}
	case *ssa.Slice:
		return dirDepth(x.X, seen)
	case *ssa.Alloc:
		for _, addr := range derivedAddrs(x) {
			for _, ref := range valueReferrers(addr) {
				if st, ok := ref.(*ssa.Store); ok && st.Addr == addr {
					if n := dirDepth(st.Val, seen); n > best {
						best = n
					}
				}
			}
		}
	}
	return best
}

func ruleFX1(c *Ctx) *rule {
	r := &rule{ID: "FX1", Engine: "E1+E3", Floor: 8,
		Statement: "inventory of every file-mutating primitive call in the module with its interprocedural entry conditions: a site without Options.{Init,Fmt,Clean} == true must write below <SpokFile.Dir>/<cache constants> only; every external package the module calls is in the effect table",
		Necessity: "a mutating call reachable under no explicit action and not rooted in the cache directory changes the user's tree while listing, showing or running tasks"}
	sites := c.mutatingSites()
	for _, m := range sites {
		cond := c.condsAt(m.site)
		key := fmt.Sprintf("%s %s", fname(m.fn), m.callee)
		// disambiguate several sites of the same callee in one function by their path roots
		action := ""
		for _, a := range []string{"opt:Init=true", "opt:Fmt=true", "opt:Clean=true"} {
			if cond[a] {
				action = a
			}
		}
		if action != "" {
			r.ok(key+" ["+action+"]", c.ipos(m.site), "performed only under an explicit action: "+atomList(cond))
			continue
		}
		// must be cache-rooted
		pa := c.pathArg(m)
		sl := c.newSlicer()
		sl.depth = 4
		sl.fieldStop = true
		res := sl.run(pa)
		var bad []string
		for _, k := range res.fieldKeys() {
			if k != "file.SpokFile.Dir" {
				bad = append(bad, "field "+k)
			}
		}
		for _, n := range res.callNames() {
			if n == "path/filepath.Join" || n == "path/filepath.Dir" || n == "builtin.append" {
				continue
			}
			if strings.HasPrefix(m.callee, "(*os.File)") && (n == "os.OpenFile" || n == "os.Create") {
				continue // the handle written to: the roots of the path it was opened on are examined through the call
			}
			if strings.HasPrefix(n, modPath) || strings.HasPrefix(n, "("+modPath) || strings.HasPrefix(n, "(*"+modPath) {
				continue
			}
			bad = append(bad, "call "+n)
		}
		hasCacheConst := sliceHasGlobal(res, "Path", pkgPath("cache"))
		for _, cst := range res.consts {
			if s, ok := constString(cst); ok && (s == constStringMember(c, "cache", "Dir")) {
				hasCacheConst = true
			}
		}
		depth := dirDepth(pa, map[ssa.Value]bool{})
		// follow parameters for the depth of Dir applications
		switch {
		case len(bad) > 0:
			r.bad(key+" [no action]", c.ipos(m.site), "a write that no action flag guards derives its path from "+strings.Join(bad, ", ")+" (only SpokFile.Dir + cache constants are allowed)")
		case !res.hasField("file.SpokFile.Dir") || !hasCacheConst:
			r.bad(key+" [no action]", c.ipos(m.site), "a write that no action flag guards is not rooted in <SpokFile.Dir>/<cache directory> (fields: "+join(res.fieldKeys())+")")
		case c.totalDirDepth(pa, 4) > 1:
			r.bad(key+" [no action]", c.ipos(m.site), "the path climbs out of the cache directory (filepath.Dir applied more than once)")
		default:
			_ = depth
			if why := c.dirRooted(pa, 5, map[ssa.Value]bool{}); why != "" {
				r.bad(key+" [no action]", c.ipos(m.site), "a write that no action flag guards is not below SpokFile.Dir on every way it is reached: "+why+" (a bare cache constant is resolved against the working directory)")
				break
			}
			r.ok(key+" [cache]", c.ipos(m.site), "rooted in SpokFile.Dir + cache constants; conditions "+atomList(cond))
		}
	}
	// external callee table
	unknown := map[string]bool{}
	nExt := 0
	extPkgs := map[string]bool{}
	for _, f := range c.ModFuncs {
		for _, site := range callSites(f) {
			n := calleeName(site.Common())
			if n == "" || strings.HasPrefix(n, "builtin.") || n == "(error).Error" || strings.HasSuffix(n, ".init") {
				continue
			}
			p := pkgOfCallee(n)
			if p == modPath || strings.HasPrefix(p, modPath+"/") || p == "" {
				continue
			}
			if site.Common().IsInvoke() && namedOf(site.Common().Value.Type()) == nil {
				// a method called through an unnamed interface or a type parameter (`[T interface{ String() string }]`): there is
				// no package to look up, the implementations the call graph finds are what can run
				ext := false
				for _, callee := range c.callees(site) {
					if !inModule(callee) {
						ext = true
					}
				}
				if !ext {
					continue
				}
			}
			nExt++
			extPkgs[p] = true
			cls, ok := externalClass[p]
			if !ok {
				unknown[p] = true
				continue
			}
			if cls == "per-function" {
				if _, mut := fileMutating[n]; !mut && !osReadOnly[n] {
					unknown[n] = true
				}
			}
		}
	}
	r.note("%d external call sites into %d packages", nExt, len(extPkgs))
	if len(unknown) == 0 {
		r.ok("module external-callee-table", "-", fmt.Sprintf("all %d external packages called by the module are classified", len(extPkgs)))
	} else {
		var u []string
		for k := range unknown {
			u = append(u, k)
		}
		sort.Strings(u)
		r.undecided("module external-callee-table", "-", "callee(s) missing from the frozen effect table: "+strings.Join(u, ", "))
	}
	return r
}

// totalDirDepth counts nested filepath.Dir applications following parameters to their callers.
func (c *Ctx) totalDirDepth(v ssa.Value, depth int) int {
	d := dirDepth(v, map[ssa.Value]bool{})
	if depth == 0 {
		return d
	}
	best := 0
	sl := c.newSlicer()
	sl.depth = 0
	sl.fieldStop = true
	res := sl.run(v)
	for _, p := range res.params {
		idx := -1
		for i, q := range p.Parent().Params {
			if q == p {
				idx = i
			}
		}
		for _, site := range c.callersOf(p.Parent()) {
			if idx < len(site.Common().Args) {
				if n := c.totalDirDepth(site.Common().Args[idx], depth-1); n > best {
					best = n
				}
			}
		}
	}
	return d + best
}

func ruleFX2(c *Ctx) *rule {
	r := &rule{ID: "FX2", Engine: "E1+E2+E3", Floor: 1,
		Statement: "--fmt: the only file-mutating site under Options.Fmt writes to Options.Spokfile (the field the text was read from) the String() of the tree returned by Parse, and is dominated by the nil-error edges of Parse and of file.New",
		Necessity: "writing before both succeeded overwrites the user's file with the partial tree of a spokfile that does not parse or load; writing elsewhere or other data corrupts another file"}
	n := 0
	for _, m := range c.mutatingSites() {
		cond := c.condsAt(m.site)
		if !cond["opt:Fmt=true"] {
			continue
		}
		key := fmt.Sprintf("%s %s [fmt]", fname(m.fn), m.callee)
		args := m.site.Common().Args
		var pathArg, dataArg ssa.Value
		var probs []string
		switch m.callee {
		case "os.WriteFile":
			n++
			pathArg, dataArg = args[0], args[1]
		case "os.OpenFile", "os.Create":
			// an explicit open-write-close is the same write as long as the open truncates
			n++
			pathArg = args[0]
			if m.callee == "os.OpenFile" {
				if fl, isC := constInt(args[1]); !isC {
					probs = append(probs, "the open flags are not constant")
				} else if fl&osConst(c.Prog, "O_TRUNC") == 0 {
					probs = append(probs, "the spokfile is opened for writing without O_TRUNC: when the formatted text is shorter, the tail of the old file stays behind it")
				} else if fl&osConst(c.Prog, "O_APPEND") != 0 {
					probs = append(probs, "the spokfile is opened with O_APPEND")
				}
			}
		case "(*os.File).Write", "(*os.File).WriteString":
			dataArg = args[1]
		case "(*os.File).Sync", "(*os.File).Close", "(*os.File).Chmod":
			continue
		default:
			n++
			r.bad(key, c.ipos(m.site), "--fmt performs a file mutation other than writing the spokfile")
			continue
		}
		if pathArg != nil {
			ps := c.newSlicer()
			ps.depth = 0
			pres := ps.run(pathArg)
			if !pres.hasField("cli/app.Options.Spokfile") || len(pres.callNames()) > 0 {
				probs = append(probs, "the path is not exactly Options.Spokfile")
			}
		}
		if dataArg != nil {
			ds := c.newSlicer()
			ds.depth = 0
			ds.objFlow = true
			dres := ds.run(dataArg)
			if !(dres.hasCall("(github.com/FollowTheProcess/spok/ast.Tree).String") || dres.hasCall("(github.com/FollowTheProcess/spok/ast.Tree).Write")) || !dres.hasCall("(*github.com/FollowTheProcess/spok/parser.Parser).Parse") {
				probs = append(probs, "the data is not Tree.String() of the parsed tree")
			}
			// ... and it is that text itself: nothing rewrites it between the printer and the write
			{
				seenV := map[ssa.Value]bool{}
				var walk func(v ssa.Value) string
				walk = func(v ssa.Value) string {
					if v == nil || seenV[v] {
						return ""
					}
					seenV[v] = true
					for _, o := range append([]ssa.Value{v}, origins(v)...) {
						switch x := o.(type) {
						case *ssa.Convert:
							if why := walk(x.X); why != "" {
								return why
							}
						case *ssa.ChangeType:
							if why := walk(x.X); why != "" {
								return why
							}
						case *ssa.Phi:
							for _, e := range x.Edges {
								if why := walk(e); why != "" {
									return why
								}
							}
						case *ssa.BinOp:
							if x.Op == token.ADD {
								return "a concatenation (" + condText(x) + ")"
							}
						case *ssa.Call:
							n := calleeName(x.Common())
							switch {
							case strings.HasSuffix(n, "ast.Tree).String"):
							case strings.HasPrefix(n, "strings.") || strings.HasPrefix(n, "bytes.") || strings.HasPrefix(n, "(*strings.Replacer)") || strings.HasPrefix(n, "(*regexp.Regexp)") || strings.HasPrefix(n, "unicode/") || strings.HasPrefix(n, "golang.org/x/text"):
								return "the result of " + n
							}
						}
					}
					return ""
				}
				if why := walk(dataArg); why != "" {
					probs = append(probs, "what is written is not the printer's text itself but "+why+": the file then differs from Tree.String() (line ends, spacing), and a second --fmt rewrites it again")
				}
			}
			// the parsed text was read from the same field
			readOK := false
			for _, rs := range callsTo(m.fn, "os.ReadFile") {
				rs2 := c.newSlicer()
				rs2.depth = 0
				if rs2.run(rs.Common().Args[0]).hasField("cli/app.Options.Spokfile") {
					if v, ok := rs.(ssa.Value); ok && dres.has(v) {
						readOK = true
					}
				}
			}
			if !readOK {
				probs = append(probs, "the formatted text was not read from Options.Spokfile")
			}
		}
		// no store to Options.Spokfile between read and write: stores only in functions that are not called in between
		// dominated by success of Parse and file.New
		fi := c.info(m.fn)
		gotParse, gotNew := false, false
		for _, g := range fi.necessaryGuards(m.site.Block()) {
			x, nonNilWhenTrue, ok := errNilTest(g.cond)
			if !ok || nonNilWhenTrue == g.pol {
				continue
			}
			if ex, ok := x.(*ssa.Extract); ok {
				if call, ok := ex.Tuple.(*ssa.Call); ok {
					switch calleeName(call.Common()) {
					case "(*github.com/FollowTheProcess/spok/parser.Parser).Parse":
						gotParse = true
					case "github.com/FollowTheProcess/spok/file.New":
						gotNew = true
					}
				}
			}
		}
		if !gotParse {
			probs = append(probs, "the write is not dominated by the success of Parse")
		}
		if !gotNew {
			probs = append(probs, "the write is not dominated by the success of file.New (the spokfile parses but does not load)")
		}
		if len(probs) == 0 {
			r.ok(key, c.ipos(m.site), "Options.Spokfile <- Tree.String(), after Parse and file.New succeeded")
		} else {
			r.bad(key, c.ipos(m.site), strings.Join(probs, "; "))
		}
	}
	if n != 1 {
		r.bad("module fmt-sites", "-", fmt.Sprintf("%d files opened or written under Options.Fmt, exactly one expected", n))
	}
	return r
}

func ruleFX3(c *Ctx) *rule {
	r := &rule{ID: "FX3", Engine: "E1+E2+E3", Floor: 2,
		Statement: "--init: the spokfile is written only on the false edge of an existence test of the same path; .gitignore is opened with constant flags that include O_APPEND and exclude O_TRUNC, and the handle is only written to",
		Necessity: "without the existence guard --init overwrites an existing spokfile; O_TRUNC (or a WriteFile) destroys the user's .gitignore"}
	for _, m := range c.mutatingSites() {
		cond := c.condsAt(m.site)
		if !cond["opt:Init=true"] {
			continue
		}
		key := fmt.Sprintf("%s %s [init]", fname(m.fn), m.callee)
		fi := c.info(m.fn)
		switch m.callee {
		case "os.WriteFile", "os.Create":
			p := m.site.Common().Args[0]
			guarded := false
			for _, g := range fi.necessaryGuards(m.site.Block()) {
				if call, ok := g.cond.(*ssa.Call); ok && !g.pol && c.isExistsTest(call.Common().StaticCallee()) {
					if samePlace(call.Common().Args[0], p) {
						guarded = true
					}
				}
				// inline form: _, err := os.Stat(p); err != nil
				if x, nonNilWhenTrue, ok := errNilTest(g.cond); ok && nonNilWhenTrue == g.pol {
					if ex, ok := x.(*ssa.Extract); ok {
						if call, ok := ex.Tuple.(*ssa.Call); ok && calleeName(call.Common()) == "os.Stat" && samePlace(call.Common().Args[0], p) {
							guarded = true
						}
					}
				}
			}
			if guarded {
				r.ok(key, c.ipos(m.site), "written only when the same path does not exist")
			} else {
				r.bad(key, c.ipos(m.site), "--init writes a file without first testing that this very path does not exist: an existing spokfile is overwritten")
			}
		case "os.OpenFile":
			fl, ok := constInt(m.site.Common().Args[1])
			oAppend, oTrunc := osConst(c.Prog, "O_APPEND"), osConst(c.Prog, "O_TRUNC")
			switch {
			case !ok:
				r.bad(key, c.ipos(m.site), "open flags are not constant")
			case fl&oAppend == 0:
				r.bad(key, c.ipos(m.site), "the file is opened for writing without O_APPEND: existing content is overwritten from the start")
			case fl&oTrunc != 0:
				r.bad(key, c.ipos(m.site), "the file is opened with O_TRUNC: existing content is destroyed")
			default:
				r.ok(key, c.ipos(m.site), "O_APPEND without O_TRUNC")
			}
		case "(*os.File).WriteString", "(*os.File).Write":
			// the handle comes from the append-mode open
			okH := false
			for _, o := range origins(m.site.Common().Args[0]) {
				if ex, ok := o.(*ssa.Extract); ok {
					if call, ok := ex.Tuple.(*ssa.Call); ok && calleeName(call.Common()) == "os.OpenFile" {
						okH = true
					}
				}
			}
			if okH {
				r.ok(key, c.ipos(m.site), "writes to the append-mode handle")
			} else {
				r.bad(key, c.ipos(m.site), "writes to a handle that does not come from the append-mode open")
			}
		default:
			r.bad(key, c.ipos(m.site), "--init performs a mutation other than creating the spokfile and appending to .gitignore")
		}
	}
	return r
}

func isListingCond(cond map[string]bool) bool {
	return cond["opt:Show=true"] || cond["opt:Variables=true"] || (cond["hastask:default=false"] && cond["notasks=true"])
}

func ruleFX4(c *Ctx) *rule {
	r := &rule{ID: "FX4", Engine: "E1", Floor: 7,
		Statement: "no file-mutating primitive call site has the conditions of a listing action (--show, --vars, or no task names without a default task) among its entry conditions, and nothing called on those branches reaches one",
		Necessity: "listing must leave every file byte-identical"}
	for _, m := range c.mutatingSites() {
		cond := c.condsAt(m.site)
		key := fmt.Sprintf("%s %s not-under-listing", fname(m.fn), m.callee)
		if isListingCond(cond) {
			r.bad(key, c.ipos(m.site), "a file-mutating primitive is executed on a listing branch: "+atomList(cond))
		} else {
			r.ok(key, c.ipos(m.site), "conditions "+atomList(cond))
		}
	}
	appRun := c.method("cli/app", "App", "Run")
	for _, f := range c.ModFuncs {
		if f != appRun && !c.reachesFn(appRun, f) {
			continue
		}
		for _, site := range callSites(f) {
			cond := c.condsAt(site)
			if !isListingCond(cond) {
				continue
			}
			for _, callee := range c.callees(site) {
				if !inModule(callee) {
					continue
				}
				key := fmt.Sprintf("%s -> %s [listing]", fname(f), fname(callee))
				if c.reachesMutation(callee) {
					r.bad(key, c.ipos(site), "a listing action reaches a file-mutating primitive through "+fname(callee))
				} else {
					r.ok(key, c.ipos(site), "no file mutation reachable; conditions "+atomList(cond))
				}
			}
		}
	}
	return r
}

func ruleFX6(c *Ctx) *rule {
	r := &rule{ID: "FX6", Engine: "E1+E3", Floor: 1,
		Statement: "the logger stays on the terminal: nothing but the constants \"stderr\"/\"stdout\" is stored into zap.Config.OutputPaths / ErrorOutputPaths and the module calls no file-sink constructor of zap",
		Necessity: "a log file created by --debug is a write outside the cache directory under an action that should write nothing"}
	bad := false
	for _, key := range []string{"go.uber.org/zap.Config.OutputPaths", "go.uber.org/zap.Config.ErrorOutputPaths"} {
		for _, st := range c.fieldStores()[key] {
			sl := c.newSlicer()
			sl.depth = 0
			res := sl.run(st.Val)
			for _, cst := range res.consts {
				if s, ok := constString(cst); ok && s != "stderr" && s != "stdout" {
					bad = true
					r.bad(fname(st.Parent())+" "+key, c.ipos(st), "log output is directed to "+s)
				}
			}
			if len(res.params) > 0 || len(res.fieldKeys()) > 0 {
				bad = true
				r.bad(fname(st.Parent())+" "+key, c.ipos(st), "log output path is not a constant")
			}
		}
	}
	for _, f := range c.ModFuncs {
		for _, site := range callSites(f) {
			n := calleeName(site.Common())
			switch n {
			case "go.uber.org/zap.Open", "go.uber.org/zap.NewProductionConfig", "go.uber.org/zap/zapcore.AddSync", "go.uber.org/zap.RegisterSink", "go.uber.org/zap/zapcore.NewCore":
				bad = true
				r.bad(fname(f)+" "+n, c.ipos(site), "the logger is built with a custom sink")
			}
		}
	}
	lf := c.fnOpt("logger", "NewZapLogger")
	if lf == nil {
		r.undecided("logger constructor", "-", "logger.NewZapLogger not found")
		return r
	}
	if !bad {
		if len(callsTo(lf, "go.uber.org/zap.NewDevelopmentConfig")) > 0 {
			r.ok(fname(lf)+" sinks", c.pos(lf.Pos()), "zap.NewDevelopmentConfig (stderr) with no sink override")
		} else {
			r.undecided(fname(lf)+" sinks", c.pos(lf.Pos()), "the logger is not built from zap.NewDevelopmentConfig; its sinks are unknown to the checker")
		}
	}
	return r
}

// ---- C20: reports and listings ---------------------------------------------------------------------------------------------------------

func ruleST1(c *Ctx) *rule {
	r := &rule{ID: "ST1", Engine: "E1+E3", Floor: 2,
		Statement: "the only direct write to the process's standard output reachable from App.Run prints the string returned by Results.JSON(), under the necessary guard Options.JSON == true; os.Stdout itself is only referenced to build the OS stream",
		Necessity: "any other direct write pollutes the single JSON document (or --quiet's empty output); a JSON print that is not guarded or prints something else is not the report"}
	appRun := c.method("cli/app", "App", "Run")
	n := 0
	for _, f := range c.ModFuncs {
		if f != appRun && !c.reachesFn(appRun, f) {
			continue
		}
		for _, site := range callSites(f) {
			name := calleeName(site.Common())
			if !stdoutWriters[name] && !(streamWriters[name] && writesToOsStdout(site)) {
				continue
			}
			n++
			key := fmt.Sprintf("%s %s#%d", fname(f), name, n)
			cond := c.condsAt(site)
			sl := c.newSlicer()
			sl.depth = 0
			res := sl.run(site.Common().Args...)
			switch {
			case !cond["opt:JSON=true"]:
				r.bad(key, c.ipos(site), "a direct write to standard output that is not guarded by --json: conditions "+atomList(cond))
			case !res.hasCall("(github.com/FollowTheProcess/spok/task.Results).JSON"):
				r.bad(key, c.ipos(site), "the direct write to standard output under --json does not print Results.JSON()")
			default:
				r.ok(key, c.ipos(site), "prints Results.JSON() under "+atomList(cond))
			}
		}
	}
	if n == 0 {
		r.bad("module json-print", "-", "nothing prints the JSON report to standard output")
	}
	// the logger: a zap sink on "stdout" puts the debug lines into the document; zap.NewExample logs to standard output
	for _, f := range c.ModFuncs {
		for _, site := range callSites(f) {
			if calleeName(site.Common()) == "go.uber.org/zap.NewExample" {
				r.bad(fname(f)+" zap.NewExample", c.ipos(site), "the logger is built with zap.NewExample, which writes to standard output: with --json --debug the output is log lines followed by the report, not one JSON document")
			}
		}
	}
	for _, key := range []string{"go.uber.org/zap.Config.OutputPaths", "go.uber.org/zap.Config.ErrorOutputPaths"} {
		for _, st := range c.fieldStores()[key] {
			if !inModule(st.Parent()) {
				continue
			}
			sl := c.newSlicer()
			sl.depth = 0
			for _, cst := range sl.run(st.Val).consts {
				if s, ok := constString(cst); ok && s == "stdout" {
					r.bad(fname(st.Parent())+" "+key, c.ipos(st), "the logger is given standard output as a sink: with --json --debug the output is log lines followed by the report, not one JSON document (and --quiet is not quiet)")
				}
			}
		}
	}
	// uses of os.Stdout
	for _, f := range c.ModFuncs {
		for _, b := range f.Blocks {
			for _, in := range b.Instrs {
				u, ok := in.(*ssa.UnOp)
				if !ok || u.Op != token.MUL {
					continue
				}
				g, ok := u.X.(*ssa.Global)
				if !ok || g.Pkg == nil || g.Pkg.Pkg.Path() != "os" || g.Name() != "Stdout" {
					continue
				}
				key := fmt.Sprintf("%s os.Stdout", fname(f))
				// allowed: stored into IOStream.Stdout in a function returning IOStream
				okUse := false
				for _, st := range c.fieldStores()["iostream.IOStream.Stdout"] {
					if st.Parent() == f {
						ss := c.newSlicer()
						ss.depth = 0
						if ss.run(st.Val).has(u) {
							okUse = true
						}
					}
				}
				if !okUse {
					// or: the explicit writer of the guarded JSON print, e.g. fmt.Fprintln(os.Stdout, text)
					for _, ref := range valueReferrers(u) {
						uses := []ssa.Instruction{ref}
						if mi, ok := ref.(*ssa.MakeInterface); ok {
							uses = valueReferrers(mi)
						}
						for _, use := range uses {
							site, ok := use.(ssa.CallInstruction)
							if !ok || !streamWriters[calleeName(site.Common())] {
								continue
							}
							ss := c.newSlicer()
							ss.depth = 0
							if c.condsAt(site)["opt:JSON=true"] && ss.run(site.Common().Args[1:]...).hasCall("(github.com/FollowTheProcess/spok/task.Results).JSON") {
								okUse = true
							}
						}
					}
				}
				if okUse {
					r.ok(key, c.ipos(u), "only used to build the OS stream bundle / as the writer of the --json report")
				} else {
					r.bad(key, c.ipos(u), "os.Stdout is used directly, bypassing the stream that --quiet/--json silence")
				}
			}
		}
	}
	return r
}

func ruleST2(c *Ctx) *rule {
	r := &rule{ID: "ST2", Engine: "E2+E3", Floor: 2,
		Statement: "for --quiet and for --json: App.Run has a branch on the option whose true side stores iostream.Null() into App.stream, and that branch dominates every instruction of App.Run that can read App.stream",
		Necessity: "a stream that is silenced too late (or not at all) lets task echo and command output through to standard output under --quiet/--json"}
	appRun := c.method("cli/app", "App", "Run")
	fi := c.info(appRun)
	// nothing derived from the stream is parked in another field of App, where it would outlive the replacement of App.stream
	{
		key := "cli/app.App no writer kept beside stream"
		bad := ""
		st, _ := c.namedType("cli/app", "App").Underlying().(*types.Struct)
		for i := 0; st != nil && i < st.NumFields(); i++ {
			name := st.Field(i).Name()
			if name == "stream" {
				continue
			}
			for _, store := range c.fieldStores()["cli/app.App."+name] {
				sl := c.newSlicer()
				sl.depth = 1
				sl.objFlow = true
				res := sl.run(store.Val)
				fromStream := res.hasField("iostream.IOStream.Stdout") || res.hasField("iostream.IOStream.Stderr") || res.hasField("cli/app.App.stream")
				for _, p := range res.params {
					if isNamed(p.Type(), pkgPath("iostream"), "IOStream") {
						fromStream = true
					}
				}
				if fromStream {
					bad = fmt.Sprintf("App.%s is given a value built from the stream at %s: it keeps writing to the original standard output after --quiet/--json have replaced App.stream", name, c.ipos(store))
				}
			}
		}
		if bad == "" {
			r.ok(key, c.pos(appRun.Pos()), "App.stream is the only field of App that refers to the stream")
		} else {
			r.bad(key, c.pos(appRun.Pos()), bad)
		}
	}
	// functions that read App.stream
	reads := map[*ssa.Function]bool{}
	for _, f := range c.ModFuncs {
		for _, b := range f.Blocks {
			for _, in := range b.Instrs {
				if v, ok := in.(ssa.Value); ok && fieldKey(v) == "cli/app.App.stream" {
					// a FieldAddr that is only stored to is not a read
					isRead := false
					for _, ref := range valueReferrers(v) {
						if st, ok := ref.(*ssa.Store); ok && st.Addr == v {
							continue
						}
						isRead = true
					}
					if isRead {
						reads[f] = true
					}
				}
			}
		}
	}
	readsTrans := func(f *ssa.Function) bool {
		if reads[f] {
			return true
		}
		for g := range reads {
			if c.reachesFn(f, g) {
				return true
			}
		}
		return false
	}
	for _, opt := range []string{"Quiet", "JSON"} {
		key := fmt.Sprintf("%s Options.%s -> stream=Null", fname(appRun), opt)
		// on every feasible path on which the option is set, the Null stream is installed before anything reads App.stream
		readsStream := func(in ssa.Instruction) bool {
			if v, ok := in.(ssa.Value); ok && fieldKey(v) == "cli/app.App.stream" {
				for _, ref := range valueReferrers(v) {
					if st, ok := ref.(*ssa.Store); ok && st.Addr == v {
						continue
					}
					return true
				}
			}
			if site, ok := in.(ssa.CallInstruction); ok && !c.storesNullStream(in) {
				for _, callee := range c.callees(site) {
					if inModule(callee) && readsTrans(callee) {
						return true
					}
				}
			}
			return false
		}
		seen := map[string]bool{}
		bad := ""
		installs := 0
		var dfs func(b *ssa.BasicBlock, silenced bool, ps *pathState)
		dfs = func(b *ssa.BasicBlock, silenced bool, ps *pathState) {
			if bad != "" {
				return
			}
			k := fmt.Sprintf("%d|%v|%s", b.Index, silenced, ps.key())
			if seen[k] {
				return
			}
			seen[k] = true
			for _, in := range b.Instrs {
				if c.storesNullStream(in) {
					silenced = true
					installs++
				}
				if !silenced && readsStream(in) {
					bad = "with --" + strings.ToLower(opt) + " the stream can be used at " + c.ipos(in) + " before it has been replaced by the Null stream"
					return
				}
			}
			for i, nx := range b.Succs {
				_, _, next, feasible := ps.branch(b, i)
				if !feasible {
					continue
				}
				dfs(nx, silenced, next.enter(nx, b))
			}
		}
		ps := newPathStateFor(appRun)
		ps.assume["opt:"+opt] = true
		dfs(appRun.Blocks[0], false, ps)
		_ = fi
		switch {
		case bad != "":
			r.bad(key, c.pos(appRun.Pos()), bad)
		case installs == 0:
			r.bad(key, c.pos(appRun.Pos()), "no path with Options."+opt+" set replaces App.stream by iostream.Null()")
		default:
			r.ok(key, c.pos(appRun.Pos()), "silenced before anything can write to the stream")
		}
	}
	// no other store into App.stream than the constructor's and Null
	for _, st := range c.fieldStores()["cli/app.App.stream"] {
		key := fmt.Sprintf("%s store App.stream", fname(st.Parent()))
		os := origins(st.Val)
		okV := true
		for _, o := range os {
			switch x := o.(type) {
			case *ssa.Parameter:
			case *ssa.Call:
				if calleeName(x.Common()) != "github.com/FollowTheProcess/spok/iostream.Null" {
					okV = false
				}
			default:
				okV = false
			}
		}
		if okV {
			r.ok(key, c.ipos(st), "constructor argument / setter / Null stream")
		} else {
			r.bad(key, c.ipos(st), "App.stream is replaced by something other than the Null stream")
		}
	}
	// the setter is only called with Null
	for _, st := range c.fieldStores()["cli/app.App.stream"] {
		if p, ok := originsOne(st.Val).(*ssa.Parameter); ok && p.Parent().Name() != "New" {
			for _, site := range c.callersOf(p.Parent()) {
				key := fmt.Sprintf("%s %s(arg)", fname(site.Parent()), fname(p.Parent()))
				okArg := false
				for _, a := range site.Common().Args {
					for _, o := range origins(a) {
						if call, ok := o.(*ssa.Call); ok && calleeName(call.Common()) == "github.com/FollowTheProcess/spok/iostream.Null" {
							okArg = true
						}
					}
				}
				if okArg {
					r.ok(key, c.ipos(site), "called with iostream.Null()")
				} else {
					r.bad(key, c.ipos(site), "the stream setter is called with something other than iostream.Null()")
				}
			}
		}
	}
	// Null really discards
	nullF := c.fn("iostream", "Null")
	okNull := true
	for _, fld := range []string{"iostream.IOStream.Stdout", "iostream.IOStream.Stderr"} {
		found := false
		for _, st := range c.fieldStores()[fld] {
			if st.Parent() != nullF {
				continue
			}
			found = true
			isDiscard := false
			for _, o := range origins(st.Val) {
				if u, ok := o.(*ssa.UnOp); ok && u.Op == token.MUL {
					if g, ok := u.X.(*ssa.Global); ok && g.Name() == "Discard" {
						isDiscard = true
					}
				}
			}
			if !isDiscard {
				okNull = false
			}
		}
		if !found {
			okNull = false
		}
	}
	if okNull {
		r.ok("iostream.Null discards", c.pos(nullF.Pos()), "both writers are io.Discard")
	} else {
		r.bad("iostream.Null discards", c.pos(nullF.Pos()), "iostream.Null() does not set both Stdout and Stderr to io.Discard")
	}
	return r
}

// storesNullStream: the instruction stores iostream.Null() into App.stream, directly or through a setter.
func (c *Ctx) storesNullStream(in ssa.Instruction) bool {
	isNull := func(v ssa.Value) bool {
		for _, o := range origins(v) {
			if call, ok := o.(*ssa.Call); ok && calleeName(call.Common()) == "github.com/FollowTheProcess/spok/iostream.Null" {
				return true
			}
		}
		return false
	}
	switch x := in.(type) {
	case *ssa.Store:
		return fieldKey(x.Addr) == "cli/app.App.stream" && isNull(x.Val)
	case *ssa.Call:
		callee := x.Common().StaticCallee()
		if callee == nil || !inModule(callee) {
			return false
		}
		for _, st := range c.fieldStores()["cli/app.App.stream"] {
			if st.Parent() == callee {
				if _, ok := originsOne(st.Val).(*ssa.Parameter); ok {
					for _, a := range x.Common().Args {
						if isNull(a) {
							return true
						}
					}
				}
			}
		}
	}
	return false
}

var streamWriters = map[string]bool{
	"fmt.Fprint": true, "fmt.Fprintf": true, "fmt.Fprintln": true,
	"(*github.com/fatih/color.Color).Fprint": true, "(*github.com/fatih/color.Color).Fprintf": true, "(*github.com/fatih/color.Color).Fprintln": true,
	"github.com/FollowTheProcess/msg.Fsuccess": true, "github.com/FollowTheProcess/msg.Fwarn": true, "github.com/FollowTheProcess/msg.Finfo": true,
	"github.com/FollowTheProcess/msg.Ftitle": true, "github.com/FollowTheProcess/msg.Ferror": true,
}

// underListing: the instruction executes only under a listing action's conditions (by its own guards, its function's entry
// conditions, or because its function is only called from such a place).
func (c *Ctx) underAtom(in ssa.Instruction, atom string) bool {
	cond := c.condsAt(in)
	if atom == "default-listing" {
		if cond["hastask:default=false"] && cond["notasks=true"] {
			return true
		}
	} else if cond[atom] {
		return true
	}
	return c.listingFuncsUnder(atom)[in.Parent()]
}

func (c *Ctx) underAnyListing(in ssa.Instruction) bool {
	for _, a := range []string{"opt:Show=true", "opt:Variables=true", "default-listing"} {
		if c.underAtom(in, a) {
			return true
		}
	}
	return false
}

func ruleST4(c *Ctx) *rule {
	r := &rule{ID: "ST4", Engine: "E1+E2+E3", Floor: 2,
		Statement: "in the listing actions, every value obtained by ranging over a map reaches a stream write only through a slice that was sorted (sort.* / slices.Sort*) before the write",
		Necessity: "map iteration order is random; an unsorted listing differs between two invocations on the same spokfile and is not 'sorted by name'"}
	n := 0
	for _, f := range c.ModFuncs {
		// only functions whose body ranges over a map
		var ranges []*ssa.Range
		for _, b := range f.Blocks {
			for _, in := range b.Instrs {
				if rg, ok := in.(*ssa.Range); ok {
					if _, isMap := rg.X.Type().Underlying().(*types.Map); isMap {
						ranges = append(ranges, rg)
					}
				}
			}
		}
		if len(ranges) == 0 {
			continue
		}
		fi := c.info(f)
		for _, site := range callSites(f) {
			if !streamWriters[calleeName(site.Common())] || !c.underAnyListing(site) {
				continue
			}
			sl := c.newSlicer()
			sl.depth = 0
			res := sl.run(site.Common().Args...)
			var hit *ssa.Range
			for _, rg := range ranges {
				if res.has(rg) {
					hit = rg
				}
			}
			if hit == nil {
				continue
			}
			n++
			key := fmt.Sprintf("%s %s#%d <- range map", fname(f), calleeName(site.Common()), n)
			// accumulators fed by the range, sorted before the write
			sorted := false
			for _, l := range fi.loops {
				for _, p := range l.headerPhis() {
					if !res.has(p) {
						continue
					}
					if _, ok := p.Type().Underlying().(*types.Slice); !ok {
						continue
					}
					for _, s2 := range callSites(f) {
						if !sortFuncs[calleeName(s2.Common())] {
							continue
						}
						for _, a := range s2.Common().Args {
							av := a
							for {
								if ct, ok := av.(*ssa.ChangeType); ok {
									av = ct.X
								} else if mi, ok := av.(*ssa.MakeInterface); ok {
									av = mi.X
								} else {
									break
								}
							}
							if av == ssa.Value(p) && c.precedes(s2, site) && !l.body[s2.Block()] {
								sorted = true
							}
						}
					}
				}
			}
			// slices.Sorted(maps.Keys(m)) and friends produce a sorted slice directly
			if res.hasCall("slices.Sorted") || res.hasCall("slices.SortedFunc") {
				sorted = true
			}
			// the write itself must not be inside the loop that ranges over the map
			inMapLoop := false
			for _, l := range fi.loopsContaining(site.Block()) {
				for _, b := range f.Blocks {
					if l.body[b] {
						for _, in := range b.Instrs {
							if nx, ok := in.(*ssa.Next); ok && nx.Iter == ssa.Value(hit) {
								inMapLoop = true
							}
						}
					}
				}
			}
			switch {
			case inMapLoop:
				r.bad(key, c.ipos(site), "output is written while ranging over a map: the order of the listing is random")
			case sorted:
				r.ok(key, c.ipos(site), "map keys are collected, sorted, then written")
			default:
				r.bad(key, c.ipos(site), "values collected from a map reach the output without being sorted")
			}
		}
	}
	// every task / variable is listed: the names come from a range over the whole map (or maps.Keys of it)
	for _, want := range []struct{ cond, field string }{{"opt:Show=true", "file.SpokFile.Tasks"}, {"opt:Variables=true", "file.SpokFile.Vars"}} {
		key := "listing under " + want.cond + " ranges over " + want.field
		found := false
		for _, f := range c.ModFuncs {
			for _, b := range f.Blocks {
				for _, in := range b.Instrs {
					if rg, ok := in.(*ssa.Range); ok && isFieldLoad(rg.X, want.field) && c.underAtom(rg, want.cond) {
						found = true
					}
					if call, ok := in.(*ssa.Call); ok && strings.Contains(calleeName(call.Common()), "maps.Keys") && c.underAtom(call, want.cond) {
						if len(call.Common().Args) > 0 && isFieldLoad(call.Common().Args[0], want.field) {
							found = true
						}
					}
				}
			}
		}
		if found {
			r.ok(key, "-", "the listing is built from the whole map")
		} else {
			r.bad(key, "-", "nothing on the "+want.cond+" branch ranges over "+want.field)
		}
	}
	return r
}

// listingFuncsUnder: module functions called (transitively) from a call site whose conditions include atom.
func (c *Ctx) listingFuncsUnder(atom string) map[*ssa.Function]bool {
	out := map[*ssa.Function]bool{}
	var walk func(f *ssa.Function)
	walk = func(f *ssa.Function) {
		if out[f] || !inModule(f) {
			return
		}
		out[f] = true
		for _, s := range callSites(f) {
			for _, cal := range c.callees(s) {
				walk(cal)
			}
		}
	}
	for _, f := range c.ModFuncs {
		for _, site := range callSites(f) {
			cond := c.condsAt(site)
			hit := cond[atom]
			if atom == "default-listing" {
				hit = cond["hastask:default=false"] && cond["notasks=true"]
			}
			if !hit {
				continue
			}
			for _, cal := range c.callees(site) {
				walk(cal)
			}
		}
	}
	return out
}

func (c *Ctx) listingFuncs() map[*ssa.Function]bool {
	out := map[*ssa.Function]bool{}
	for _, a := range []string{"opt:Show=true", "opt:Variables=true", "default-listing"} {
		for f := range c.listingFuncsUnder(a) {
			out[f] = true
		}
	}
	return out
}

func ruleST5(c *Ctx) *rule {
	r := &rule{ID: "ST5", Engine: "E1+E2", Floor: 2,
		Statement: "without task names: on HasTask(\"default\") == true the task named \"default\" is run, on the false edge the task listing is shown",
		Necessity: "running another task, or listing although a default task exists, is not the documented default action"}
	c.dispatchRule(r, "default", "")
	// false edge -> a listing (a range over SpokFile.Tasks, or maps.Keys of it, whose values reach the stream)
	found := false
	for _, f := range c.ModFuncs {
		for _, b := range f.Blocks {
			for _, in := range b.Instrs {
				if !iteratesWholeMap(in, "file.SpokFile.Tasks") {
					continue
				}
				rg := in
				cond := c.condsAt(rg)
				if cond["hastask:default=false"] || c.listingFuncsUnder("hastask:default=false")[f] {
					found = true
					r.ok(fmt.Sprintf("%s HasTask(\"default\")==false -> task listing", fname(f)), c.ipos(rg), "the tasks are listed")
				}
			}
		}
	}
	if !found {
		r.bad("module default-listing", "-", "on HasTask(\"default\") == false nothing lists the tasks")
	}
	// the dispatch is only taken when no task names were given
	return r
}

func ruleST6(c *Ctx) *rule {
	r := &rule{ID: "ST6", Engine: "E3", Floor: 1,
		Statement: "the value Results.JSON() is called on is the unmodified result of SpokFile.Run, and JSON() marshals its receiver",
		Necessity: "a re-ordered, filtered or re-built list is not 'exactly the tasks of the run in execution order'"}
	n := 0
	for _, f := range c.ModFuncs {
		for _, site := range callsTo(f, "(github.com/FollowTheProcess/spok/task.Results).JSON") {
			n++
			key := fmt.Sprintf("%s Results.JSON()#%d receiver", fname(f), n)
			recv := site.Common().Args[0]
			okR := false
			for _, o := range origins(recv) {
				if ex, ok := o.(*ssa.Extract); ok && ex.Index == 0 {
					if call, ok := ex.Tuple.(*ssa.Call); ok && calleeName(call.Common()) == "(*github.com/FollowTheProcess/spok/file.SpokFile).Run" {
						okR = true
						if why := resultsUntouched(c, ex); why != "" {
							okR = false
							r.bad(key, c.ipos(site), why)
						}
					}
				}
			}
			if okR {
				r.ok(key, c.ipos(site), "the result of SpokFile.Run, untouched")
			} else if len(r.Instances) == 0 || r.Instances[len(r.Instances)-1].Key != r.ID+" "+key {
				r.bad(key, c.ipos(site), "JSON() is not called on the value returned by SpokFile.Run")
			}
		}
	}
	if n == 0 {
		r.bad("module Results.JSON", "-", "Results.JSON() is never called")
	}
	jf := c.method("task", "Results", "JSON")
	key := fname(jf) + " marshals receiver"
	okM := false
	for _, site := range callsTo(jf, "encoding/json.Marshal", "encoding/json.MarshalIndent") {
		sl := c.newSlicer()
		sl.depth = 0
		if sl.run(site.Common().Args[0]).has(jf.Params[0]) {
			okM = true
		}
	}
	if okM {
		r.ok(key, c.pos(jf.Pos()), "json.Marshal of the receiver")
	} else {
		r.bad(key, c.pos(jf.Pos()), "Results.JSON does not marshal its receiver")
	}
	// the JSON field set of the report
	for _, spec := range []struct {
		short, typ string
		tags       map[string]string
	}{
		{"task", "Result", map[string]string{"Task": "task", "CommandResults": "results", "Skipped": "skipped"}},
		{"shell", "Result", map[string]string{"Cmd": "cmd", "Stdout": "stdout", "Stderr": "stderr", "Status": "status"}},
	} {
		st := c.namedType(spec.short, spec.typ).Underlying().(*types.Struct)
		for i := 0; i < st.NumFields(); i++ {
			f := st.Field(i)
			want, ok := spec.tags[f.Name()]
			key := fmt.Sprintf("%s.%s.%s json tag", spec.short, spec.typ, f.Name())
			if !ok {
				continue
			}
			tag := reflectTag(st.Tag(i), "json")
			if tag == want {
				r.ok(key, c.pos(f.Pos()), "`json:\""+tag+"\"`")
			} else {
				r.bad(key, c.pos(f.Pos()), fmt.Sprintf("the report field %s is tagged %q instead of %q (omitted or renamed in the JSON document)", f.Name(), tag, want))
			}
		}
	}
	return r
}

func reflectTag(tag, key string) string {
	for tag != "" {
		i := strings.Index(tag, key+":\"")
		if i < 0 {
			return ""
		}
		rest := tag[i+len(key)+2:]
		j := strings.Index(rest, "\"")
		if j < 0 {
			return ""
		}
		return rest[:j]
	}
	return ""
}

// resultsUntouched: no element store, sort or reslice of the results between SpokFile.Run and its uses.
func resultsUntouched(c *Ctx, v ssa.Value) string {
	if why := c.sliceMutation(v, 3, map[ssa.Value]bool{}, "the results"); why != "" {
		return why
	}
	for _, ref := range valueReferrers(v) {
		switch x := ref.(type) {
		case *ssa.IndexAddr:
			for _, rr := range valueReferrers(x) {
				if st, ok := rr.(*ssa.Store); ok && st.Addr == ssa.Value(x) {
					return "an element of the results is overwritten at " + c.ipos(st)
				}
			}
		case *ssa.Call:
			n := calleeName(x.Common())
			if strings.HasPrefix(n, "sort.") || strings.HasPrefix(n, "slices.") {
				return "the results are re-ordered by " + n + " before they are reported"
			}
		}
	}
	return ""
}

// ---- C09: failing command fails the invocation ------------------------------------------------------------------------------------------

func ruleRT1(c *Ctx) *rule {
	r := &rule{ID: "RT1", Engine: "E2+E3", Floor: 3,
		Statement: "every caller of SpokFile.Run propagates its error and, before returning nil, ranges over all returned results testing Ok() of each unconditionally; the not-Ok side ends in a non-nil error (directly, or through a full loop over that result's CommandResults whose not-Ok side does)",
		Necessity: "a nil return that is not dominated by that loop, or an Ok() test that is skipped under some flag, makes spok exit 0 although a command failed"}
	runM := c.method("file", "SpokFile", "Run")
	sites := c.callersOf(runM)
	if len(sites) == 0 {
		lost("file.(*SpokFile).Run has no caller in the module")
	}
	for i, site := range sites {
		f := site.Parent()
		fi := c.info(f)
		call, ok := site.(*ssa.Call)
		if !ok {
			continue
		}
		pfx := fmt.Sprintf("%s SpokFile.Run#%d", fname(f), i+1)
		// (a) error
		if ev := errOfCall(site); ev == nil {
			r.bad(pfx+" error", c.ipos(site), "the error of SpokFile.Run is discarded")
		} else if ok, why := c.errEdgeDischarged(ev); !ok {
			r.bad(pfx+" error", c.ipos(site), "the error of SpokFile.Run is not propagated: "+why)
		} else {
			r.ok(pfx+" error", c.ipos(site), "propagated")
		}
		var results ssa.Value
		for _, ref := range valueReferrers(call) {
			if ex, ok := ref.(*ssa.Extract); ok && ex.Index == 0 {
				results = ex
			}
		}
		if results == nil {
			r.bad(pfx+" results", c.ipos(site), "the results of the run are discarded: a failed command can never be noticed")
			continue
		}
		// (b) the loop over the results
		var loop *loopInfo
		var elem ssa.Value
		for _, l := range fi.loops {
			for _, b := range f.Blocks {
				if !l.body[b] {
					continue
				}
				for _, in := range b.Instrs {
					if ia, ok := in.(*ssa.IndexAddr); ok && ia.X == results && fi.innermostLoop(b) == l {
						loop = l
						elem = ia // (`r := &results[i]`: the element is used through its address)
						for _, ref := range valueReferrers(ia) {
							if u, ok := ref.(*ssa.UnOp); ok && u.Op == token.MUL {
								elem = u
							}
						}
					}
				}
			}
		}
		if loop == nil || elem == nil {
			r.bad(pfx+" results-loop", c.ipos(site), "no loop ranges over the results returned by SpokFile.Run")
			continue
		}
		// full range: bound is len(results)
		full := false
		if iff, ok := lastInstr(loop.header).(*ssa.If); ok {
			if bo, ok := iff.Cond.(*ssa.BinOp); ok && bo.Op == token.LSS {
				if cl, ok := bo.Y.(*ssa.Call); ok {
					if bi, ok := cl.Call.Value.(*ssa.Builtin); ok && bi.Name() == "len" && cl.Call.Args[0] == results {
						full = true
					}
				}
			}
		}
		// (c) unconditional Ok() of the element
		var okCall *ssa.Call
		for _, b := range f.Blocks {
			if !loop.body[b] {
				continue
			}
			for _, in := range b.Instrs {
				cl, ok := in.(*ssa.Call)
				if !ok {
					continue
				}
				cf := cl.Common().StaticCallee()
				if cf == nil || cf.Name() != "Ok" || !inModule(cf) {
					continue
				}
				if sameElem(cl.Common().Args[0], elem) {
					// unconditional within the iteration
					uncond := true
					for _, g := range fi.necessaryGuards(b) {
						if loop.body[g.e.from] && g.e.from != loop.header {
							uncond = false
						}
					}
					if uncond {
						okCall = cl
					}
				}
			}
		}
		// alternative to testing Ok() of the result: an unconditional full loop over the result's commands that fails on the first
		// command that is not Ok (Result.Ok is defined as the conjunction over exactly that collection, see SH1)
		viaCommands := ""
		if okCall == nil && full {
			viaCommands = c.failsOnFirstBadCommand(fi, loop, elem)
			if viaCommands != "" {
				// or: an unconditional search of the result's commands for one that is not Ok, whose "found" side ends in an error
				for _, b := range f.Blocks {
					iff, isIf := lastInstr(b).(*ssa.If)
					if !isIf || !loop.body[b] {
						continue
					}
					cond, _ := normCond(iff.Cond, true)
					coll, pred, _, isSearch := searchTest(cond, true)
					if !isSearch || !isNotOkPredicate(pred) {
						continue
					}
					cs := c.newSlicer()
					cs.depth = 0
					if !cs.run(coll).hasField("task.Result.CommandResults") {
						continue
					}
					uncond := true
					for _, g := range fi.necessaryGuards(b) {
						if loop.body[g.e.from] && g.e.from != loop.header {
							uncond = false
						}
					}
					if !uncond {
						continue
					}
					for idx := 0; idx < 2; idx++ {
						if _, _, found, _ := searchTest(cond, idx == 0); found {
							if ends, _ := c.edgeEndsInError(edge{b, idx}); ends {
								viaCommands = ""
							}
						}
					}
				}
			}
		}
		switch {
		case !full:
			r.bad(pfx+" results-loop", c.bpos(loop.header), "the loop over the results does not cover all of them")
		case okCall == nil && viaCommands != "":
			r.bad(pfx+" results-loop", c.bpos(loop.header), "Ok() of each result is not tested unconditionally in the loop over the results, and "+viaCommands)
		case okCall == nil:
			r.ok(pfx+" results-loop", c.bpos(loop.header), "full range; every command of every result is examined and the first one that is not Ok ends the call with an error")
		default:
			r.ok(pfx+" results-loop", c.bpos(loop.header), "full range with an unconditional Ok() test")
		}
		if okCall == nil {
			if viaCommands == "" && full {
				r.ok(pfx+" not-ok => error", c.bpos(loop.header), "a command that is not Ok ends the call with a non-nil error")
			}
		}
		if okCall != nil {
			// (d) the not-Ok side
			key := pfx + " not-ok => error"
			verdict := "the result of Ok() is not branched on"
			for _, ref := range valueReferrers(okCall) {
				var iff *ssa.If
				falseIdx := 1
				switch x := ref.(type) {
				case *ssa.If:
					iff = x
				case *ssa.UnOp:
					if x.Op == token.NOT {
						for _, rr := range valueReferrers(x) {
							if i2, ok := rr.(*ssa.If); ok {
								iff, falseIdx = i2, 0
							}
						}
					}
				}
				if iff == nil {
					continue
				}
				e := edge{iff.Block(), falseIdx}
				if good, _ := c.edgeEndsInError(e); good {
					verdict = ""
					break
				}
				verdict = c.notOkViaCommandLoop(fi, e, elem)
			}
			if verdict == "" {
				r.ok(key, c.ipos(okCall), "a result that is not Ok ends the call with a non-nil error")
			} else {
				r.bad(key, c.ipos(okCall), verdict)
			}
		}
		// (e) success is only returned after every result has been examined: every feasible path from the call to a return
		// whose error may be nil crosses the exhaustion edge of the results loop
		{
			key := pfx + " success-only-after-exhaustion"
			seen := map[string]bool{}
			bad := ""
			var trail []string
			var dfs func(b *ssa.BasicBlock, from int, done bool, ps *pathState)
			dfs = func(b *ssa.BasicBlock, from int, done bool, ps *pathState) {
				if bad != "" {
					return
				}
				trail = append(trail, fmt.Sprintf("%d(%s)", b.Index, c.bpos(b)))
				defer func() {
					if bad == "" {
						trail = trail[:len(trail)-1]
					}
				}()
				if from == 0 {
					k := fmt.Sprintf("%d|%v|%s", b.Index, done, ps.key())
					if seen[k] {
						return
					}
					seen[k] = true
				}
				if ret, ok := lastInstr(b).(*ssa.Return); ok {
					ev := returnedErr(ret)
					if ev != nil && mayBeNil(ps.resolve(ev), map[ssa.Value]bool{}) && !done {
						bad = "success can be returned at " + c.ipos(ret) + " on a path that has not examined every result"
					}
					return
				}
				for i2, nx := range b.Succs {
					_, _, next, feasible := ps.branch(b, i2)
					if !feasible {
						continue
					}
					nd := done
					if b == loop.header && !loop.body[nx] {
						nd = true
					}
					dfs(nx, 0, nd, next.enter(nx, b))
				}
			}
			idx := 0
			for i2, in := range site.Block().Instrs {
				if in == ssa.Instruction(site) {
					idx = i2 + 1
				}
			}
			ps := newPathStateFor(f)
			// the call succeeded: its error is nil on the paths of interest
			if ev := errOfCall(site); ev != nil {
				ps.assume["nil:"+valKey(ev)] = true
			}
			dfs(site.Block(), idx, false, ps)
			if bad == "" {
				r.ok(key, c.ipos(site), "every path to a successful return crosses the exhaustion of the results loop")
			} else {
				r.bad(key, c.ipos(site), bad, trail...)
			}
		}
		// the error identifies the task
		key := pfx + " error names task"
		named := false
		for _, ret := range returnsOf(f) {
			ev := returnedErr(ret)
			if ev == nil || isNilConst(ev) {
				continue
			}
			sl := c.newSlicer()
			sl.depth = 0
			if sl.run(ev).hasField("task.Result.Task") {
				named = true
			}
		}
		if named {
			r.ok(key, c.ipos(site), "the failure error carries Result.Task")
		} else {
			r.bad(key, c.ipos(site), "no returned error mentions the failing task's name")
		}
	}
	return r
}

func sameElem(a, b ssa.Value) bool {
	if a == b || sameOrigins(a, b) {
		return true
	}
	// loads of the same address, or a local copy of the element
	ua, ok1 := a.(*ssa.UnOp)
	ub, ok2 := b.(*ssa.UnOp)
	if ok1 && ok2 && ua.Op == token.MUL && ub.Op == token.MUL && ua.X == ub.X {
		return true
	}
	// a = load of alloc which stores b
	for _, o := range origins(a) {
		if o == b {
			return true
		}
		if u, ok := o.(*ssa.UnOp); ok && ub != nil && u.Op == token.MUL && u.X == ub.X {
			return true
		}
	}
	return false
}

// notOkViaCommandLoop accepts: from the not-Ok edge, control enters a full loop over <elem>.CommandResults in which the not-Ok
// side of each command's Ok() ends in a non-nil error; nothing but that loop lies between the edge and the loop.
func (c *Ctx) notOkViaCommandLoop(fi *fnInfo, e edge, elem ssa.Value) string {
	start := e.to()
	if !edgeDominates(e, start) {
		return "the not-Ok edge joins the success path immediately"
	}
	// find the loop whose header is reachable from start without branching elsewhere
	b := start
	for steps := 0; steps < 8; steps++ {
		if l := fi.innermostLoop(b); l != nil && l.header == b {
			// ranges over elem.CommandResults ?
			okRange := false
			var inner *ssa.Call
			for _, blk := range fi.fn.Blocks {
				if !l.body[blk] {
					continue
				}
				for _, in := range blk.Instrs {
					if ia, ok := in.(*ssa.IndexAddr); ok {
						sl := c.newSlicer()
						sl.depth = 0
						res := sl.run(ia.X)
						if res.hasField("task.Result.CommandResults") {
							okRange = true
						}
					}
					if cl, ok := in.(*ssa.Call); ok {
						if cf := cl.Common().StaticCallee(); cf != nil && cf.Name() == "Ok" && inModule(cf) {
							inner = cl
						}
					}
				}
			}
			if !okRange || inner == nil {
				return "a result that is not Ok falls through to the success path (no loop over its CommandResults that returns the error)"
			}
			for _, ref := range valueReferrers(inner) {
				if iff, ok := ref.(*ssa.If); ok {
					if good, _ := c.edgeEndsInError(edge{iff.Block(), 1}); good {
						return ""
					}
				}
				if u, ok := ref.(*ssa.UnOp); ok && u.Op == token.NOT {
					for _, rr := range valueReferrers(u) {
						if iff, ok := rr.(*ssa.If); ok {
							if good, _ := c.edgeEndsInError(edge{iff.Block(), 0}); good {
								return ""
							}
						}
					}
				}
			}
			return "the loop over the failing result's commands does not return an error for the command that is not Ok"
		}
		if len(b.Succs) != 1 {
			return "between the not-Ok test and the error there is another condition (" + c.bpos(b) + "): a failed result can be treated as success"
		}
		b = b.Succs[0]
	}
	return "a result that is not Ok does not end in an error"
}

// ---- RT5: a deferred function does not replace the error result ----------------------------------------------------------------------

func ruleRT5(c *Ctx) *rule {
	r := &rule{ID: "RT5", Engine: "E2+E3", Floor: 1,
		Statement: "no deferred function literal overwrites the error result of the function that defers it: a store into the captured result is made only when the result is still nil (necessary guard on the result itself), or stores a value computed from the result it replaces (a wrap or join)",
		Necessity: "`defer func() { err = cleanup() }()` on a named result runs after the body has set the error: a failed task, a failed command or a failed load is replaced by the outcome of the clean-up, which is nil whenever the clean-up works - the invocation then reports success"}
	nDefer, nStore := 0, 0
	for _, f := range c.ModFuncs {
		for _, b := range f.Blocks {
			for _, in := range b.Instrs {
				d, ok := in.(*ssa.Defer)
				if !ok {
					continue
				}
				mc, ok := d.Call.Value.(*ssa.MakeClosure)
				if !ok {
					continue
				}
				cl, _ := mc.Fn.(*ssa.Function)
				if cl == nil || len(cl.Blocks) == 0 {
					continue
				}
				nDefer++
				for i, bd := range mc.Bindings {
					cell, isCell := bd.(*ssa.Alloc)
					if !isCell || i >= len(cl.FreeVars) || !isErrorType(deref(cell.Type())) || !isNamedResultCell(f, cell) {
						continue
					}
					fv := cl.FreeVars[i]
					for _, cb := range cl.Blocks {
						for _, ci := range cb.Instrs {
							st, isSt := ci.(*ssa.Store)
							if !isSt || st.Addr != ssa.Value(fv) {
								continue
							}
							nStore++
							key := fmt.Sprintf("%s deferred store into the error result#%d", fname(f), nStore)
							// guarded by "the result is still nil"
							guarded := false
							for _, g := range c.info(cl).necessaryGuards(cb) {
								x, nonNilWhenTrue, isTest := errNilTest(g.cond)
								if !isTest || nonNilWhenTrue == g.pol {
									continue
								}
								if u, isLoad := x.(*ssa.UnOp); isLoad && u.Op == token.MUL && u.X == ssa.Value(fv) {
									guarded = true
								}
							}
							// or computed from the result it replaces
							derived := false
							sl := c.newSlicer()
							sl.depth = 0
							for v := range sl.run(st.Val).vals {
								if u, isLoad := v.(*ssa.UnOp); isLoad && u.Op == token.MUL && u.X == ssa.Value(fv) {
									derived = true
								}
							}
							switch {
							case guarded:
								r.ok(key, c.ipos(st), "only when the result is still nil")
							case derived:
								r.ok(key, c.ipos(st), "the new value is computed from the result it replaces")
							default:
								r.bad(key, c.ipos(st), "the deferred function overwrites the error result of "+fname(f)+": an error set by the body is replaced by "+condText(st.Val)+", which is nil whenever that call succeeds")
							}
						}
					}
				}
			}
		}
	}
	if nStore == 0 {
		r.ok("deferred function literals of the module", "-", fmt.Sprintf("%d deferred function literals inspected: none stores into an error result", nDefer))
	}
	return r
}

// isNamedResultCell: the cell is the storage of one of f's named results (go/ssa spills a named result that a closure captures).
func isNamedResultCell(f *ssa.Function, cell *ssa.Alloc) bool {
	res := f.Signature.Results()
	for i := 0; i < res.Len(); i++ {
		if res.At(i).Name() != "" && res.At(i).Name() == cell.Comment {
			return true
		}
	}
	return false
}

func ruleRT2(c *Ctx) *rule {
	r := &rule{ID: "RT2", Engine: "E1+E2", Floor: 5,
		Statement: "on every call edge of the module that lies on a path main.main -> ... -> shell.Runner.Run, the callee's error result is used and its non-nil edge reaches only non-nil error returns",
		Necessity: "one swallowed error on that chain and a command that could not even be started (or a failed run) is reported as success"}
	mainF := c.fn("cmd/spok", "main")
	impls := c.runnerImpls()
	reachesRunner := func(f *ssa.Function) bool {
		for _, im := range impls {
			if f == im || c.reachesFn(f, im) {
				return true
			}
		}
		// through the interface invoke
		found := false
		seen := map[*ssa.Function]bool{}
		var walk func(g *ssa.Function)
		walk = func(g *ssa.Function) {
			if seen[g] || !inModule(g) || found {
				return
			}
			seen[g] = true
			for _, s := range callSites(g) {
				if s.Common().IsInvoke() && s.Common().Method.Name() == "Run" && isNamed(s.Common().Value.Type(), pkgPath("shell"), "Runner") {
					found = true
					return
				}
				for _, cal := range c.callees(s) {
					walk(cal)
				}
			}
		}
		walk(f)
		return found
	}
	chain := map[*ssa.Function]bool{}
	for _, f := range c.ModFuncs {
		// every module function from which a command can be run lies on some path main -> ... -> Runner.Run
		// (the CLI library sits between main and App.Run, so reachability from main is not computed through it)
		if reachesRunner(f) {
			chain[f] = true
		}
	}
	var fns []*ssa.Function
	for f := range chain {
		fns = append(fns, f)
	}
	sort.Slice(fns, func(i, j int) bool { return fns[i].String() < fns[j].String() })
	for _, f := range fns {
		r.note("on the chain: %s", fname(f))
		for _, site := range callSites(f) {
			if _, isDefer := site.(*ssa.Defer); isDefer {
				continue
			}
			onChain := false
			name := calleeName(site.Common())
			if site.Common().IsInvoke() && site.Common().Method.Name() == "Run" && isNamed(site.Common().Value.Type(), pkgPath("shell"), "Runner") {
				onChain = true
			}
			for _, callee := range c.callees(site) {
				if chain[callee] {
					onChain = true
				}
			}
			if name == "(*mvdan.cc/sh/v3/interp.Runner).Run" || name == "mvdan.cc/sh/v3/interp.New" || name == "(*mvdan.cc/sh/v3/syntax.Parser).Parse" {
				if f.Name() == "Run" {
					continue // SH1 handles the interpreter's own error
				}
			}
			if !onChain {
				continue
			}
			v, isVal := site.(ssa.Value)
			if !isVal {
				continue
			}
			hasErr := isErrorType(v.Type())
			if tup, ok := v.Type().(*types.Tuple); ok {
				for i := 0; i < tup.Len(); i++ {
					if isErrorType(tup.At(i).Type()) {
						hasErr = true
					}
				}
			}
			if !hasErr {
				continue
			}
			key := fmt.Sprintf("%s -> %s", fname(f), name)
			if f == mainF {
				continue // RT3
			}
			ev := errOfCall(site)
			if ev == nil {
				r.bad(key, c.ipos(site), "the error is discarded")
				continue
			}
			if ok, why := c.errEdgeDischarged(ev); ok {
				r.ok(key, c.ipos(site), "propagated")
			} else {
				r.bad(key, c.ipos(site), "the error is not propagated: "+why)
			}
		}
	}
	return r
}

func (c *Ctx) calledFromClosureOfChain(f *ssa.Function) bool {
	for _, site := range c.callersOf(f) {
		if site.Parent().Parent() != nil {
			return true
		}
	}
	return false
}

func ruleRT3(c *Ctx) *rule {
	r := &rule{ID: "RT3", Engine: "E1+E2", Floor: 1,
		Statement: "in main: on the non-nil edge of the program's error a direct standard-error reporter is called with that error and then os.Exit with a non-zero constant, on every path",
		Necessity: "reporting through the (possibly silenced) app stream loses the message under --quiet/--json; exiting 0, or not at all, reports success to the caller"}
	mainF := c.fn("cmd/spok", "main")
	fi := c.info(mainF)
	n := 0
	testsProgramErr := false
	for _, b := range mainF.Blocks {
		iff, ok := lastInstr(b).(*ssa.If)
		if !ok {
			continue
		}
		x, nonNilWhenTrue, ok := errNilTest(iff.Cond)
		if !ok || !isErrorType(x.Type()) {
			continue
		}
		n++
		idx := 1
		if nonNilWhenTrue {
			idx = 0
		}
		e := edge{b, idx}
		key := fmt.Sprintf("%s err!=nil#%d", fname(mainF), n)
		// every feasible path from the edge reaches os.Exit(c != 0) having called a stderr reporter with the error
		seen := map[string]bool{}
		bad := ""
		var dfs func(blk *ssa.BasicBlock, rep bool, ps *pathState)
		dfs = func(blk *ssa.BasicBlock, rep bool, ps *pathState) {
			k := fmt.Sprintf("%d|%v|%s", blk.Index, rep, ps.key())
			if bad != "" || seen[k] {
				return
			}
			seen[k] = true
			for _, in := range blk.Instrs {
				site, ok := in.(ssa.CallInstruction)
				if !ok {
					continue
				}
				name := calleeName(site.Common())
				if stderrWriters[name] || (strings.HasPrefix(name, "fmt.Fprint") && usesStderr(site)) {
					sl := c.newSlicer()
					sl.depth = 0
					res := sl.run(site.Common().Args...)
					if res.has(x) || res.has(ps.resolve(x)) {
						rep = true
					}
					for phi := range ps.phi {
						if res.has(phi) && (ps.resolve(phi) == ps.resolve(x)) {
							rep = true
						}
					}
				}
				if name == "log.Fatal" || name == "log.Fatalf" || name == "log.Fatalln" {
					return
				}
				if name == "os.Exit" {
					code, isC := constInt(site.Common().Args[0])
					switch {
					case !isC || code == 0:
						bad = "os.Exit is called with a status that can be 0"
					case !rep:
						bad = "the process exits without reporting the error on standard error"
					}
					return
				}
			}
			if len(blk.Succs) == 0 {
				bad = "a path from the failure edge leaves main without os.Exit(non-zero): the exit status is 0"
				return
			}
			for i2, s := range blk.Succs {
				_, _, next, feasible := ps.branch(blk, i2)
				if !feasible {
					continue
				}
				dfs(s, rep, next.enter(s, blk))
			}
		}
		ps0 := newPathStateFor(mainF)
		if _, _, next, feasible := ps0.branch(b, idx); feasible {
			ps0 = next
		}
		dfs(e.to(), false, ps0.enter(e.to(), b))
		_ = fi
		if bad == "" {
			r.ok(key, c.bpos(b), "reported on standard error, then os.Exit(non-zero)")
		} else {
			r.bad(key, c.bpos(b), bad)
		}
		// the error tested is the program's error
		sl := c.newSlicer()
		sl.depth = 3
		res := sl.run(x)
		if res.hasCall("(*github.com/FollowTheProcess/cli.Command).Execute") || res.hasCall("(*github.com/FollowTheProcess/spok/cli/app.App).Run") {
			testsProgramErr = true
		}
	}
	if n > 0 {
		k2 := fmt.Sprintf("%s err<-App.Run", fname(mainF))
		if testsProgramErr {
			r.ok(k2, c.pos(mainF.Pos()), "the error of the command's execution is among the errors tested")
		} else {
			r.bad(k2, c.pos(mainF.Pos()), "no error tested in main is the result of executing the command")
		}
	}
	if n == 0 {
		r.bad(fname(mainF)+" err!=nil", c.pos(mainF.Pos()), "main never tests the program's error: a failure exits 0")
	}
	// the closure registered with the CLI returns App.Run's error
	cmdF := c.fnOpt("cli/cmd", "BuildRootCmd")
	if cmdF != nil {
		for _, a := range cmdF.AnonFuncs {
			for _, site := range callsTo(a, "(*github.com/FollowTheProcess/spok/cli/app.App).Run") {
				key := fname(a) + " returns App.Run error"
				v, _ := site.(ssa.Value)
				okRet := false
				for _, ret := range returnsOf(a) {
					if ev := returnedErr(ret); ev != nil && v != nil && (ev == v || sameOrigins(ev, v)) {
						okRet = true
					}
				}
				if okRet {
					r.ok(key, c.ipos(site), "returned to the CLI library unchanged")
				} else if ev := errOfCall(site); ev != nil {
					if ok, _ := c.errEdgeDischarged(ev); ok {
						r.ok(key, c.ipos(site), "propagated")
					} else {
						r.bad(key, c.ipos(site), "the error of App.Run is not returned to the CLI library")
					}
				} else {
					r.bad(key, c.ipos(site), "the error of App.Run is discarded")
				}
			}
		}
	}
	return r
}

// ---- ST10: with --json a successful run always prints the report ---------------------------------------------------------------------

func ruleST10(c *Ctx) *rule {
	r := &rule{ID: "ST10", Engine: "E2+E3", Floor: 1,
		Statement: "with Options.JSON set, every path from a successful SpokFile.Run to a return without error passes through the write of Results.JSON() to standard output",
		Necessity: "a shortcut return (nothing ran, only dependencies ran, …) that sits before the report leaves a --json consumer with empty output although the run succeeded"}
	runM := c.method("file", "SpokFile", "Run")
	n := 0
	for _, site := range c.callersOf(runM) {
		f := site.Parent()
		call, ok := site.(*ssa.Call)
		if !ok {
			continue
		}
		// the report writes of this function: direct standard-output writes whose argument derives from Results.JSON()
		isReport := func(in ssa.Instruction) bool {
			cs, ok := in.(ssa.CallInstruction)
			if !ok {
				return false
			}
			name := calleeName(cs.Common())
			if !stdoutWriters[name] && !(strings.HasPrefix(name, "fmt.Fprint") && writesToOsStdout(cs)) {
				return false
			}
			sl := c.newSlicer()
			sl.depth = 0
			return sl.run(cs.Common().Args...).hasCall("(github.com/FollowTheProcess/spok/task.Results).JSON")
		}
		has := false
		for _, cs := range callSites(f) {
			if isReport(cs) {
				has = true
			}
		}
		if !has {
			continue // this caller does not report (ST1 judges where reports are written)
		}
		n++
		key := fmt.Sprintf("%s SpokFile.Run#%d json-report-on-success", fname(f), n)
		seen := map[string]bool{}
		bad := ""
		var dfs func(b *ssa.BasicBlock, idx int, ps *pathState)
		dfs = func(b *ssa.BasicBlock, idx int, ps *pathState) {
			if bad != "" {
				return
			}
			if idx == 0 {
				k := fmt.Sprintf("%d|%s", b.Index, ps.key())
				if seen[k] || len(seen) > feasibleStateBudget {
					return
				}
				seen[k] = true
			}
			for _, in := range b.Instrs[idx:] {
				if isReport(in) {
					return
				}
				if ret, isRet := in.(*ssa.Return); isRet {
					if ev := returnedErr(ret); ev == nil || ps.mayBeNil(ev) {
						bad = "with --json the call can return without error at " + c.ipos(ret) + " without having printed the report"
					}
					return
				}
			}
			for i, s := range b.Succs {
				_, _, next, feasible := ps.branch(b, i)
				if !feasible {
					continue
				}
				dfs(s, 0, next.enter(s, b))
			}
		}
		pos := 0
		for k, in := range call.Block().Instrs {
			if in == ssa.Instruction(call) {
				pos = k + 1
			}
		}
		ps := newPathStateFor(f).seedFromGuards(call.Block())
		as := map[string]bool{}
		for k, v := range ps.assume {
			as[k] = v
		}
		as["opt:JSON"] = true
		ps = &pathState{phi: ps.phi, assume: as, fi: ps.fi}
		dfs(call.Block(), pos, ps)
		if bad == "" {
			r.ok(key, c.ipos(call), "every successful way out prints the report")
		} else {
			r.bad(key, c.ipos(call), bad)
		}
	}
	if n == 0 {
		r.undecided("module json report", "-", "no caller of SpokFile.Run writes Results.JSON() to standard output")
	}
	return r
}

// ---- ST9: data is never used as a format string ------------------------------------------------------------------------------------

func ruleST9(c *Ctx) *rule {
	r := &rule{ID: "ST9", Engine: "E3", Floor: 5,
		Statement: "in every call of a printf-style function (one with a string parameter named format followed by a variadic parameter) made by the module, the format is a compile-time constant",
		Necessity: "a format assembled from task names, docstrings, variable values or command output turns every % in them into a verb: listings and messages show %!x(MISSING) instead of the user's text"}
	n := 0
	for _, f := range c.ModFuncs {
		for _, site := range callSites(f) {
			// static calls, calls through an interface (logger.Debug) and calls of function values (the closure returned
			// by color.SprintfFunc keeps its parameter names in its type) alike
			callee := site.Common().StaticCallee()
			sig := site.Common().Signature()
			if sig == nil || !sig.Variadic() || sig.Params().Len() < 2 {
				continue
			}
			fi := sig.Params().Len() - 2
			p := sig.Params().At(fi)
			if p.Name() != "format" {
				continue
			}
			if b, ok := p.Type().Underlying().(*types.Basic); !ok || b.Kind() != types.String {
				continue
			}
			args := site.Common().Args
			if callee != nil && callee.Signature.Recv() != nil && !site.Common().IsInvoke() {
				fi++
			}
			if fi >= len(args) {
				continue
			}
			n++
			key := fmt.Sprintf("%s %s#%d constant format", fname(f), calleeName(site.Common()), n)
			if _, isC := constString(args[fi]); isC {
				r.ok(key, c.ipos(site), "constant format")
				continue
			}
			// a format handed down from a caller of a module helper that is itself printf-like is judged at that caller
			if prm, isParam := args[fi].(*ssa.Parameter); isParam && prm.Name() == "format" {
				r.ok(key, c.ipos(site), "forwards its own format parameter")
				continue
			}
			r.bad(key, c.ipos(site), "the format string is computed at run time ("+condText(args[fi])+"): any % in the data is interpreted as a verb")
		}
	}
	return r
}

func usesStderr(site ssa.CallInstruction) bool {
	for _, a := range site.Common().Args {
		for _, o := range origins(a) {
			if u, ok := o.(*ssa.UnOp); ok && u.Op == token.MUL {
				if g, ok := u.X.(*ssa.Global); ok && g.Name() == "Stderr" && g.Pkg != nil && g.Pkg.Pkg.Path() == "os" {
					return true
				}
			}
		}
	}
	return false
}

func appProperties() []*propertySpec {
	return []*propertySpec{
		{ID: "C09", Title: "A failing command fails the invocation and is never recorded as success",
			Explanation: "Static analysis of the whole error path: SH1 proves that the interpreter's error becomes either the returned error or Result.Status of the returned result and that the Ok() methods are Status == 0 / conjunctions over full ranges; RT1 proves that every caller of SpokFile.Run ranges over all results testing Ok() unconditionally, that the not-Ok side ends in an error naming the task and that nil is returned only after exhaustion; RT2 proves error propagation on every module call edge between main and Runner.Run; RT3 proves main reports on the real standard error and calls os.Exit with a non-zero constant on every path from the failure edge; CP8 (shared with C10) proves a digest is only recorded under Ok() of the task's own commands.",
			NotCovered:  []string{"the exit status computed inside mvdan.cc/sh", "flag combinations rejected by the CLI library before App.Run"},
			Assumptions: []string{"interp.IsExitStatus decodes exactly the exit-status errors of (*interp.Runner).Run", "msg.Error writes to the process's standard error; os.Exit never returns"},
			Rules:       []func(*Ctx) *rule{ruleSH1, ruleSH2, ruleSH3, ruleRT1, ruleRT2, ruleRT3, ruleRT4, ruleRT5, ruleGR6, ruleCP8}},
		{ID: "C12", Title: "--clean removes exactly the declared outputs and the cache, never the project",
			Explanation: "Static analysis of every os.Remove/RemoveAll call site of the module with its interprocedural entry conditions (greatest fixpoint over the call graph of the Options.*/HasTask guards): CL1 classifies every root of the removed path by backward slicing (only output fields, their Vars/Globs indirections and SpokFile.Dir + cache constants are allowed); CL2 proves each output field and the cache directory reach the removal, globs through their expansion; CL3 proves a test relating each removed path to SpokFile.Dir with an erroring side precedes the removal (at the sink or as a validate-all pass that dominates it); CL4 proves the entry conditions Clean == true and HasTask(\"clean\") == false and that the true side runs the task named \"clean\".",
			NotCovered:  []string{"that the containment predicate itself is correct for every path string", "directories matched by output globs"},
			Assumptions: []string{"os.RemoveAll removes exactly the named path and what is below it"},
			Rules:       []func(*Ctx) *rule{ruleCL1, ruleCL2, ruleCL3, ruleCL4, ruleCL6, ruleCL7, ruleTK3, ruleGL2}},
		{ID: "C19", Title: "Spok writes only where the chosen action says it may",
			Explanation: "Effect analysis: FX1 enumerates every call of a file-mutating primitive (frozen per-function table for os, per-package table for every other external package the module calls; an unlisted callee makes the check undecided) with its interprocedural entry conditions and proves that any site not under Init/Fmt/Clean is rooted in <SpokFile.Dir>/<cache constants>; FX2 proves the single --fmt write targets Options.Spokfile with Tree.String() and is dominated by the success of Parse and file.New; FX3 proves the --init existence guard on the same path and the O_APPEND/no-O_TRUNC flags; FX4 proves listing branches reach no mutation; FX6 that the logger has no file sink; CL1/CL3/CL4 (shared with C12) cover the --clean branch.",
			NotCovered:  []string{"effects of user commands and exec(...) builtins (excluded by the property)", "writes performed inside third-party packages classed non-mutating (audited by reading, see DESIGN.md appendix B)"},
			Assumptions: []string{"the effect tables of DESIGN.md appendix B", "zap.NewDevelopmentConfig writes to stderr only"},
			Rules:       []func(*Ctx) *rule{ruleFX1, ruleFX2, ruleFX3, ruleFX4, ruleFX6, ruleCL1, ruleCL3, ruleCL4}},
		{ID: "C20", Title: "Reports and listings are a faithful, complete account of spokfile and run",
			Explanation: "ST1 proves that the only direct standard-output write reachable from App.Run prints Results.JSON() under Options.JSON; ST6 that JSON() marshals the untouched result of SpokFile.Run with the expected field tags; ST2 that --quiet/--json replace App.stream by the Null stream before anything can read it; ST3 that stdout/stderr capture buffers are paired with the right stream and result fields and Result.Cmd is the executed text; ST4 that listings collect map keys, sort them and only then write; ST5 the default dispatch; GR6 (shared with C03) gives one result per task in execution order.",
			NotCovered:  []string{"encoding/json's rendering", "tabwriter layout", "docstring text (value-level)"},
			Assumptions: []string{"fmt.Println writes to the process's standard output; io.Discard discards; io.MultiWriter duplicates writes to all its writers"},
			Rules:       []func(*Ctx) *rule{ruleST1, ruleST2, ruleST3, ruleST4, ruleST5, ruleST6, ruleST7, ruleST8, ruleST9, ruleST10, ruleGR6, ruleRT4}},
	}
}

// writesToOsStdout: the first argument of a Fprint-style call is os.Stdout itself.
func writesToOsStdout(site ssa.CallInstruction) bool {
	args := site.Common().Args
	if len(args) == 0 {
		return false
	}
	for _, o := range origins(args[0]) {
		if u, ok := o.(*ssa.UnOp); ok && u.Op == token.MUL {
			if g, ok := u.X.(*ssa.Global); ok && g.Name() == "Stdout" && g.Pkg != nil && g.Pkg.Pkg.Path() == "os" {
				return true
			}
		}
	}
	return false
}

// failsOnFirstBadCommand: inside the results loop there is an unconditional full-range loop over <elem>.CommandResults in which
// Ok() of each command is tested unconditionally and the not-Ok side ends in a non-nil error. Returns "" or what is missing.
func (c *Ctx) failsOnFirstBadCommand(fi *fnInfo, outer *loopInfo, elem ssa.Value) string {
	f := fi.fn
	for _, l := range fi.loops {
		if l == outer || !outer.body[l.header] {
			continue
		}
		// ranges over CommandResults of the element
		var list ssa.Value
		var cmdElems []ssa.Value
		for _, b := range f.Blocks {
			if !l.body[b] {
				continue
			}
			for _, in := range b.Instrs {
				if ia, ok := in.(*ssa.IndexAddr); ok {
					sl := c.newSlicer()
					sl.depth = 0
					res := sl.run(ia.X)
					if res.hasField("task.Result.CommandResults") {
						list = ia.X
						cmdElems = append(cmdElems, ia)
						for _, ref := range valueReferrers(ia) {
							if u, ok := ref.(*ssa.UnOp); ok && u.Op == token.MUL {
								cmdElems = append(cmdElems, u)
							}
						}
					}
				}
			}
		}
		if list == nil {
			continue
		}
		// the inner loop is unconditional within the outer iteration
		for _, g := range fi.necessaryGuards(l.header) {
			if outer.body[g.e.from] && g.e.from != outer.header {
				return "the loop over the commands is only entered under " + condText(g.cond)
			}
		}
		// full range
		fullInner := false
		if iff, ok := lastInstr(l.header).(*ssa.If); ok {
			if bo, ok := iff.Cond.(*ssa.BinOp); ok && bo.Op == token.LSS {
				if cl, ok := bo.Y.(*ssa.Call); ok {
					if bi, ok := cl.Call.Value.(*ssa.Builtin); ok && bi.Name() == "len" && cl.Call.Args[0] == list {
						fullInner = true
					}
				}
			}
		}
		if !fullInner {
			return "the loop over the commands does not cover all of them"
		}
		for _, b := range f.Blocks {
			if !l.body[b] {
				continue
			}
			for _, in := range b.Instrs {
				cl, ok := in.(*ssa.Call)
				if !ok {
					continue
				}
				cf := cl.Common().StaticCallee()
				if cf == nil || cf.Name() != "Ok" || !inModule(cf) {
					continue
				}
				isCmd := false
				for _, e := range cmdElems {
					if sameElem(cl.Common().Args[0], e) {
						isCmd = true
					}
				}
				if !isCmd {
					continue
				}
				for _, g := range fi.necessaryGuards(b) {
					if l.body[g.e.from] && g.e.from != l.header {
						return "Ok() of each command is tested only under " + condText(g.cond)
					}
				}
				for _, ref := range valueReferrers(cl) {
					var iff *ssa.If
					falseIdx := 1
					switch x := ref.(type) {
					case *ssa.If:
						iff = x
					case *ssa.UnOp:
						if x.Op == token.NOT {
							for _, rr := range valueReferrers(x) {
								if i2, ok := rr.(*ssa.If); ok {
									iff, falseIdx = i2, 0
								}
							}
						}
					}
					if iff == nil {
						continue
					}
					if good, why := c.edgeEndsInError(edge{iff.Block(), falseIdx}); good {
						return ""
					} else {
						return "a command that is not Ok does not end the call with an error: " + why
					}
				}
			}
		}
		return "the loop over the commands never tests Ok() of each command"
	}
	return "there is no loop over the result's commands either"
}

// iteratesWholeMap: the instruction ranges over the map in the given field, or asks for all its keys / values.
func iteratesWholeMap(in ssa.Instruction, field string) bool {
	if rg, ok := in.(*ssa.Range); ok {
		return isFieldLoad(rg.X, field)
	}
	if call, ok := in.(*ssa.Call); ok {
		n := calleeName(call.Common())
		if strings.Contains(n, "maps.Keys") || strings.Contains(n, "maps.Values") || strings.Contains(n, "maps.All") {
			return len(call.Common().Args) > 0 && isFieldLoad(call.Common().Args[0], field)
		}
	}
	return false
}

package main

import (
	"fmt"
	"go/token"
	"go/types"
	"sort"
	"strings"

	"golang.org/x/tools/go/ssa"
)

// effectIndex holds module-wide indexes shared by the rules (engine E1).
type effectIndex struct {
	fieldStores  map[string][]*ssa.Store
	globalStores map[*ssa.Global][]*ssa.Store
	mutReach     map[*ssa.Function]bool // module function transitively reaches a file-mutating primitive
	mutSites     []mutSite
	entryConds   map[*ssa.Function]map[string]bool
	closureSites map[*ssa.Function][]*ssa.MakeClosure
	condCache    map[*ssa.BasicBlock]map[string]bool
}

func (c *Ctx) ensureEffects() *effectIndex {
	if c.effects == nil {
		c.effects = &effectIndex{}
	}
	return c.effects
}

// ---- frozen effect tables (DESIGN.md appendix B) -------------------------------------------------------------

// file-mutating primitives of the standard library, by types.Func full name.
var fileMutating = map[string]string{
	"os.Chmod": "", "os.Chown": "", "os.Chtimes": "", "os.Create": "", "os.CreateTemp": "", "os.Lchown": "", "os.Link": "",
	"os.Mkdir": "", "os.MkdirAll": "", "os.MkdirTemp": "", "os.Remove": "", "os.RemoveAll": "", "os.Rename": "", "os.Symlink": "",
	"os.Truncate": "", "os.WriteFile": "", "os.CopyFS": "", "os.OpenFile": "unless O_RDONLY without O_CREATE|O_TRUNC|O_APPEND",
	"(*os.File).Write": "handle", "(*os.File).WriteAt": "handle", "(*os.File).WriteString": "handle", "(*os.File).ReadFrom": "handle",
	"(*os.File).Truncate": "handle", "(*os.File).Chmod": "handle", "(*os.File).Chown": "handle", "(*os.File).Sync": "handle",
	"io/ioutil.WriteFile": "", "io/ioutil.TempFile": "", "io/ioutil.TempDir": "",
	"github.com/joho/godotenv.Write": "",
	"(*os.Root).Create":              "", "(*os.Root).Mkdir": "", "(*os.Root).Remove": "", "(*os.Root).OpenFile": "",
}

// process-level stdout writers (besides uses of os.Stdout itself).
var stdoutWriters = map[string]bool{
	"fmt.Print": true, "fmt.Printf": true, "fmt.Println": true,
	"github.com/FollowTheProcess/msg.Success": true, "github.com/FollowTheProcess/msg.Warn": true,
	"github.com/FollowTheProcess/msg.Info": true, "github.com/FollowTheProcess/msg.Title": true,
	"github.com/FollowTheProcess/msg.Successf": true, "github.com/FollowTheProcess/msg.Warnf": true,
	"github.com/FollowTheProcess/msg.Infof": true, "github.com/FollowTheProcess/msg.Titlef": true,
	"(*github.com/fatih/color.Color).Print": true, "(*github.com/fatih/color.Color).Printf": true, "(*github.com/fatih/color.Color).Println": true,
	"github.com/fatih/color.Red": true, "github.com/fatih/color.Green": true, "github.com/fatih/color.Yellow": true, "github.com/fatih/color.Blue": true,
	"github.com/fatih/color.Magenta": true, "github.com/fatih/color.Cyan": true, "github.com/fatih/color.White": true, "github.com/fatih/color.Black": true,
}

var stderrWriters = map[string]bool{
	"builtin.print": true, "builtin.println": true,
	"github.com/FollowTheProcess/msg.Error": true, "github.com/FollowTheProcess/msg.Errorf": true,
}

// external packages the module may call, with their effect class (per package; see DESIGN.md appendix B).
var externalClass = map[string]string{
	"strings": "pure", "bytes": "pure", "unicode": "pure", "unicode/utf8": "pure", "strconv": "pure", "errors": "pure",
	"sort": "pure", "slices": "pure", "maps": "pure", "time": "pure", "context": "pure", "sync": "pure", "sync/atomic": "pure", "runtime": "pure",
	"encoding/json": "pure", "encoding/hex": "pure", "crypto/sha256": "pure", "hash": "pure", "math": "pure", "cmp": "pure",
	"golang.org/x/exp/maps": "pure", "golang.org/x/exp/slices": "pure",
	"github.com/FollowTheProcess/collections/dag": "pure", "github.com/lithammer/fuzzysearch/fuzzy": "pure",
	"mvdan.cc/sh/v3/syntax": "pure", "mvdan.cc/sh/v3/expand": "pure",
	"fmt": "writer-arg", "io": "writer-arg", "text/template": "writer-arg", "html/template": "writer-arg", "github.com/fatih/color": "writer-arg",
	"github.com/juju/ansiterm/tabwriter": "writer-arg", "github.com/FollowTheProcess/msg": "writer-arg", "bufio": "writer-arg",
	"io/fs": "fs-read", "path/filepath": "fs-read", "path": "pure", "github.com/bmatcuk/doublestar/v4": "fs-read",
	"github.com/joho/godotenv": "environment",
	"go.uber.org/zap":          "terminal-logger", "go.uber.org/zap/zapcore": "terminal-logger",
	"github.com/FollowTheProcess/cli": "cli-frontend",
	"mvdan.cc/sh/v3/interp":           "user-program",
	"os":                              "per-function",
	"internal/runtime/sys":            "pure", "unsafe": "undecided",
}

// read-only / process-level functions of package os (anything else in os that is not file-mutating is undecided).
var osReadOnly = map[string]bool{
	"os.Open": true, "os.ReadFile": true, "os.ReadDir": true, "os.Stat": true, "os.Lstat": true, "os.Getwd": true, "os.UserHomeDir": true,
	"os.Environ": true, "os.Getenv": true, "os.LookupEnv": true, "os.DirFS": true, "os.IsNotExist": true, "os.IsExist": true,
	"(*os.File).Stat": true, "(*os.File).Read": true, "(*os.File).Close": true, "(*os.File).Name": true, "(*os.File).ReadDir": true,
	"(*os.File).Readdir": true, "(*os.File).Readdirnames": true, "(*os.File).Fd": true,
	"os.Exit": true, "os.Setenv": true, "os.Unsetenv": true, "os.Clearenv": true, "os.Chdir": true, "os.Getpid": true, "os.Executable": true,
	"os.ExpandEnv": true, "os.Expand": true, "os.TempDir": true, "os.UserCacheDir": true, "os.UserConfigDir": true, "os.Hostname": true,
	"os.IsPermission": true, "os.SameFile": true, "os.Readlink": true, "os.Getuid": true, "os.Geteuid": true,
	"(os.FileMode).IsDir": true, "(os.FileMode).IsRegular": true, "(io/fs.FileMode).IsDir": true, "(io/fs.FileMode).IsRegular": true,
	"(*os.PathError).Error": true, "(*os.File).Seek": true, "(*os.File).WriteTo": true,
}

// mutSite is one call site of a file-mutating primitive in the module.
type mutSite struct {
	site   ssa.CallInstruction
	callee string
	fn     *ssa.Function
}

func pkgOfCallee(name string) string {
	// "(*os.File).WriteString" -> os ; "path/filepath.Join" -> path/filepath ; "(github.com/x/y.T).M" -> github.com/x/y
	s := name
	// drop type arguments of generic instantiations
	for {
		i := strings.Index(s, "[")
		if i < 0 {
			break
		}
		depth, j := 0, i
		for ; j < len(s); j++ {
			if s[j] == '[' {
				depth++
			} else if s[j] == ']' {
				depth--
				if depth == 0 {
					break
				}
			}
		}
		if j >= len(s) {
			break
		}
		s = s[:i] + s[j+1:]
	}
	if strings.HasPrefix(s, "(") {
		if i := strings.Index(s, ")"); i > 0 {
			s = s[1:i]
		}
		s = strings.TrimPrefix(s, "*")
		if i := strings.LastIndex(s, "."); i > 0 {
			return s[:i]
		}
		return s
	}
	if i := strings.LastIndex(s, "."); i > 0 {
		return s[:i]
	}
	return s
}

// isMutatingCall classifies a call site as a file-mutating primitive. OpenFile is mutating unless its flag
// argument is a constant without write/create/truncate/append bits.
func isMutatingCall(site ssa.CallInstruction) (string, bool) {
	name := calleeName(site.Common())
	if _, ok := fileMutating[name]; !ok {
		return "", false
	}
	if name == "os.OpenFile" {
		args := site.Common().Args
		if len(args) >= 2 {
			if fl, ok := constInt(args[1]); ok {
				prog := site.Parent().Prog
				wr := osConst(prog, "O_WRONLY") | osConst(prog, "O_RDWR") | osConst(prog, "O_CREATE") | osConst(prog, "O_TRUNC") | osConst(prog, "O_APPEND")
				if wr != 0 && fl&wr == 0 {
					return "", false
				}
			}
		}
	}
	return name, true
}

// osConst reads an integer constant of package os as it is for the GOOS the program was loaded for
// (O_APPEND is 0x400 on linux, 0x8 on darwin, ...).
func osConst(prog *ssa.Program, name string) int64 {
	p := prog.ImportedPackage("os")
	if p == nil {
		return 0
	}
	nc, ok := p.Members[name].(*ssa.NamedConst)
	if !ok {
		return 0
	}
	n, _ := constInt(nc.Value)
	return n
}

// mutatingSites enumerates every file-mutating primitive call in the module, (*os.File) methods included.
func (c *Ctx) mutatingSites() []mutSite {
	e := c.ensureEffects()
	if e.mutSites != nil {
		return e.mutSites
	}
	for _, fn := range c.ModFuncs {
		for _, site := range callSites(fn) {
			if name, ok := isMutatingCall(site); ok {
				e.mutSites = append(e.mutSites, mutSite{site, name, fn})
			}
		}
	}
	sort.Slice(e.mutSites, func(i, j int) bool { return e.mutSites[i].site.Pos() < e.mutSites[j].site.Pos() })
	return e.mutSites
}

// reachesMutation: module function fn (transitively, through module functions only) contains a file-mutating call.
func (c *Ctx) reachesMutation(fn *ssa.Function) bool {
	e := c.ensureEffects()
	if e.mutReach == nil {
		e.mutReach = map[*ssa.Function]bool{}
		direct := map[*ssa.Function]bool{}
		for _, m := range c.mutatingSites() {
			direct[m.fn] = true
		}
		for _, f := range c.ModFuncs {
			seen := map[*ssa.Function]bool{}
			var walk func(g *ssa.Function) bool
			walk = func(g *ssa.Function) bool {
				if direct[g] {
					return true
				}
				if seen[g] || !inModule(g) {
					return false
				}
				seen[g] = true
				for _, site := range callSites(g) {
					for _, cal := range c.callees(site) {
						if inModule(cal) && walk(cal) {
							return true
						}
					}
				}
				return false
			}
			e.mutReach[f] = walk(f)
		}
	}
	return e.mutReach[fn]
}

// reachesCallee: fn transitively (through module functions) calls a function with one of the given full names.
func (c *Ctx) reachesCallee(fn *ssa.Function, names ...string) bool {
	want := map[string]bool{}
	for _, n := range names {
		want[n] = true
	}
	seen := map[*ssa.Function]bool{}
	var walk func(g *ssa.Function) bool
	walk = func(g *ssa.Function) bool {
		if seen[g] || !inModule(g) {
			return false
		}
		seen[g] = true
		for _, site := range callSites(g) {
			if want[calleeName(site.Common())] {
				return true
			}
			for _, callee := range c.callees(site) {
				if inModule(callee) && walk(callee) {
					return true
				}
			}
		}
		return false
	}
	return walk(fn)
}

func namedOf(t types.Type) *types.Named {
	if p, ok := t.(*types.Pointer); ok {
		t = p.Elem()
	}
	n, _ := t.(*types.Named)
	return n
}

func isNamed(t types.Type, pkgPath, name string) bool {
	n := namedOf(t)
	return n != nil && n.Obj().Name() == name && n.Obj().Pkg() != nil && n.Obj().Pkg().Path() == pkgPath
}

// ---- entry conditions (E1) -----------------------------------------------------------------------------------------------

// atomOf normalises a guard to an atom: "opt:Clean=true", "hastask:clean=false", "exists=false", "notasks=true".
func (c *Ctx) atomOf(g guard) string {
	cond := g.cond
	// Options.<bool field>
	if u, ok := cond.(*ssa.UnOp); ok && u.Op == token.MUL {
		if k := fieldKey(u.X); strings.HasPrefix(k, "cli/app.Options.") {
			return fmt.Sprintf("opt:%s=%v", strings.TrimPrefix(k, "cli/app.Options."), g.pol)
		}
	}
	if call, ok := cond.(*ssa.Call); ok {
		callee := call.Common().StaticCallee()
		if c.isTaskHitTest(callee) && len(call.Common().Args) == 2 {
			if s, ok := constString(call.Common().Args[1]); ok {
				return fmt.Sprintf("hastask:%s=%v", s, g.pol)
			}
		}
		if c.isExistsTest(callee) {
			return fmt.Sprintf("exists=%v", g.pol)
		}
	}
	if b, ok := cond.(*ssa.BinOp); ok && (b.Op == token.EQL || b.Op == token.NEQ) {
		if call, ok := b.X.(*ssa.Call); ok {
			if bi, ok := call.Call.Value.(*ssa.Builtin); ok && bi.Name() == "len" {
				if n, ok := constInt(b.Y); ok && n == 0 {
					if p, ok := call.Call.Args[0].(*ssa.Parameter); ok && p.Name() == "tasks" {
						return fmt.Sprintf("notasks=%v", (b.Op == token.EQL) == g.pol)
					}
				}
			}
		}
	}
	return ""
}

// isExistsTest: f is `_, err := os.Stat(p); return err == nil`.
func (c *Ctx) isExistsTest(f *ssa.Function) bool {
	if f == nil || !inModule(f) || f.Signature.Results().Len() != 1 || len(f.Params) != 1 {
		return false
	}
	if b, ok := firstResult(f).Underlying().(*types.Basic); !ok || b.Kind() != types.Bool {
		return false
	}
	if len(callsTo(f, "os.Stat")) != 1 {
		return false
	}
	for _, ret := range returnsOf(f) {
		x, nonNilWhenTrue, ok := errNilTest(ret.Results[0])
		if !ok || nonNilWhenTrue || x == nil {
			return false
		}
	}
	return true
}

// entryConds computes, for every module function, the atoms that hold on every module call path to it:
// EC(f) = ⋂ over call sites c of f (NG(c) ∪ EC(caller(c))), greatest fixpoint, EC = ∅ for functions without module callers.
func (c *Ctx) entryConds() map[*ssa.Function]map[string]bool {
	e := c.ensureEffects()
	if e.entryConds != nil {
		return e.entryConds
	}
	top := map[string]bool{"⊤": true}
	ec := map[*ssa.Function]map[string]bool{}
	sitesOf := map[*ssa.Function][]ssa.CallInstruction{}
	ng := map[ssa.CallInstruction]map[string]bool{}
	for _, f := range c.ModFuncs {
		sites := c.callersOf(f)
		// a closure is "called" where it is created when it is handed to external code
		sitesOf[f] = sites
		if len(sites) == 0 && f.Parent() == nil {
			ec[f] = map[string]bool{}
		} else {
			ec[f] = top
		}
		for _, s := range sites {
			if _, ok := ng[s]; ok {
				continue
			}
			m := map[string]bool{}
			fi := c.info(s.Parent())
			for _, g := range fi.necessaryGuards(s.Block()) {
				if a := c.atomOf(g); a != "" {
					m[a] = true
				}
			}
			ng[s] = m
		}
	}
	// anonymous functions inherit the conditions of the place that creates them
	changed := true
	for iter := 0; changed && iter < 50; iter++ {
		changed = false
		for _, f := range c.ModFuncs {
			var cur map[string]bool
			first := true
			meet := func(m map[string]bool) {
				if m["⊤"] {
					return
				}
				if first {
					cur = map[string]bool{}
					for k := range m {
						cur[k] = true
					}
					first = false
					return
				}
				for k := range cur {
					if !m[k] {
						delete(cur, k)
					}
				}
			}
			if f.Parent() != nil {
				// creation sites
				for _, b := range f.Parent().Blocks {
					for _, in := range b.Instrs {
						mc, ok := in.(*ssa.MakeClosure)
						if !ok || mc.Fn != ssa.Value(f) {
							continue
						}
						// a closure that is only ever called directly runs where it is called, not where it is made
						escapes := false
						for _, ref := range valueReferrers(mc) {
							if cs, isCall := ref.(ssa.CallInstruction); isCall && cs.Common().Value == ssa.Value(mc) {
								uses := 0
								for _, op := range ref.Operands(nil) {
									if *op == ssa.Value(mc) {
										uses++
									}
								}
								if uses == 1 {
									continue
								}
							}
							escapes = true
						}
						if !escapes && len(sitesOf[f]) > 0 {
							continue
						}
						u := map[string]bool{}
						for _, g := range c.info(f.Parent()).necessaryGuards(b) {
							if a := c.atomOf(g); a != "" {
								u[a] = true
							}
						}
						if pe := ec[f.Parent()]; !pe["⊤"] {
							for k := range pe {
								u[k] = true
							}
							meet(u)
						}
					}
				}
			}
			for _, s := range sitesOf[f] {
				pe := ec[s.Parent()]
				if pe["⊤"] {
					continue
				}
				u := map[string]bool{}
				for k := range ng[s] {
					u[k] = true
				}
				for k := range pe {
					u[k] = true
				}
				meet(u)
			}
			if first {
				continue // no information yet (or a root)
			}
			old := ec[f]
			if old["⊤"] || len(old) != len(cur) {
				ec[f] = cur
				changed = true
			}
		}
	}
	for f, m := range ec {
		if m["⊤"] {
			ec[f] = map[string]bool{}
		}
	}
	e.entryConds = ec
	return ec
}

// condsAt: entry conditions of the function plus the necessary guards of the instruction, as atoms.
func (c *Ctx) condsAt(in ssa.Instruction) map[string]bool {
	e := c.ensureEffects()
	if e.condCache == nil {
		e.condCache = map[*ssa.BasicBlock]map[string]bool{}
	}
	if m, ok := e.condCache[in.Block()]; ok {
		return m
	}
	m := c.condsAtUncached(in)
	e.condCache[in.Block()] = m
	return m
}

func (c *Ctx) condsAtUncached(in ssa.Instruction) map[string]bool {
	out := map[string]bool{}
	for k := range c.entryConds()[in.Parent()] {
		out[k] = true
	}
	for _, g := range c.info(in.Parent()).necessaryGuards(in.Block()) {
		if a := c.atomOf(g); a != "" {
			out[a] = true
		}
	}
	return out
}

func atomList(m map[string]bool) string {
	var ks []string
	for k := range m {
		ks = append(ks, k)
	}
	sort.Strings(ks)
	return "{" + strings.Join(ks, ", ") + "}"
}

// tableCalls lists the calls, in functions reachable from App.Run, whose callee is a function value read out of a data
// structure (an element of a slice/array/map or a field of such an element) and may be a module function: the action taken
// depends on data the entry-condition analysis does not follow.
func (c *Ctx) tableCalls() []string {
	if c.tableCallsDone {
		return c.tableCallSites
	}
	c.tableCallsDone = true
	fromTable := func(v ssa.Value) bool {
		sl := c.newSlicer()
		sl.depth = 0
		for _, x := range sl.run(v).order {
			switch x.(type) {
			case *ssa.IndexAddr, *ssa.Index, *ssa.Lookup:
				return true
			}
		}
		return false
	}
	for _, f := range c.ModFuncs {
		if shortPkg(fnPkgPath(f)) != "cli/app" {
			continue
		}
		for _, site := range callSites(f) {
			cc := site.Common()
			if cc.IsInvoke() {
				continue
			}
			switch cc.Value.(type) {
			case *ssa.Function, *ssa.MakeClosure, *ssa.Builtin:
				continue
			}
			if _, isFunc := cc.Value.Type().Underlying().(*types.Signature); !isFunc || !fromTable(cc.Value) {
				continue
			}
			for _, callee := range c.callees(site) {
				if inModule(callee) {
					c.tableCallSites = append(c.tableCallSites, fmt.Sprintf("the call at %s in %s", c.ipos(site), fname(f)))
					break
				}
			}
		}
	}
	sort.Strings(c.tableCallSites)
	return c.tableCallSites
}

package main

import (
	"go/types"
	"sort"
	"strings"

	"golang.org/x/tools/go/ssa"
)

// effectIndex holds module-wide indexes shared by the rules (engine E1).
type effectIndex struct {
	fieldStores  map[string][]*ssa.Store
	globalStores map[*ssa.Global][]*ssa.Store
	mutReach     map[*ssa.Function]bool // module function transitively reaches a file-mutating primitive
	mutSites     []mutSite
	entryConds   map[*ssa.Function]map[string]bool
}

func (c *Ctx) ensureEffects() *effectIndex {
	if c.effects == nil {
		c.effects = &effectIndex{}
	}
	return c.effects
}

// ---- frozen effect tables (DESIGN.md appendix B) -------------------------------------------------------------

// file-mutating primitives of the standard library, by types.Func full name.
var fileMutating = map[string]string{
	"os.Chmod": "", "os.Chown": "", "os.Chtimes": "", "os.Create": "", "os.CreateTemp": "", "os.Lchown": "", "os.Link": "",
	"os.Mkdir": "", "os.MkdirAll": "", "os.MkdirTemp": "", "os.Remove": "", "os.RemoveAll": "", "os.Rename": "", "os.Symlink": "",
	"os.Truncate": "", "os.WriteFile": "", "os.CopyFS": "", "os.OpenFile": "unless O_RDONLY without O_CREATE|O_TRUNC|O_APPEND",
	"(*os.File).Write": "handle", "(*os.File).WriteAt": "handle", "(*os.File).WriteString": "handle", "(*os.File).ReadFrom": "handle",
	"(*os.File).Truncate": "handle", "(*os.File).Chmod": "handle", "(*os.File).Chown": "handle", "(*os.File).Sync": "handle",
	"io/ioutil.WriteFile": "", "io/ioutil.TempFile": "", "io/ioutil.TempDir": "",
	"github.com/joho/godotenv.Write": "",
	"(*os.Root).Create": "", "(*os.Root).Mkdir": "", "(*os.Root).Remove": "", "(*os.Root).OpenFile": "",
}

// process-level stdout writers (besides uses of os.Stdout itself).
var stdoutWriters = map[string]bool{
	"fmt.Print": true, "fmt.Printf": true, "fmt.Println": true,
	"github.com/FollowTheProcess/msg.Success": true, "github.com/FollowTheProcess/msg.Warn": true,
	"github.com/FollowTheProcess/msg.Info": true, "github.com/FollowTheProcess/msg.Title": true,
	"github.com/FollowTheProcess/msg.Successf": true, "github.com/FollowTheProcess/msg.Warnf": true,
	"github.com/FollowTheProcess/msg.Infof": true, "github.com/FollowTheProcess/msg.Titlef": true,
	"(*github.com/fatih/color.Color).Print": true, "(*github.com/fatih/color.Color).Printf": true, "(*github.com/fatih/color.Color).Println": true,
	"github.com/fatih/color.Red": true, "github.com/fatih/color.Green": true, "github.com/fatih/color.Yellow": true, "github.com/fatih/color.Blue": true,
	"github.com/fatih/color.Magenta": true, "github.com/fatih/color.Cyan": true, "github.com/fatih/color.White": true, "github.com/fatih/color.Black": true,
}

var stderrWriters = map[string]bool{
	"builtin.print": true, "builtin.println": true,
	"github.com/FollowTheProcess/msg.Error": true, "github.com/FollowTheProcess/msg.Errorf": true,
}

// external packages the module may call, with their effect class (per package; see DESIGN.md appendix B).
var externalClass = map[string]string{
	"strings": "pure", "bytes": "pure", "unicode": "pure", "unicode/utf8": "pure", "strconv": "pure", "errors": "pure",
	"sort": "pure", "slices": "pure", "maps": "pure", "time": "pure", "context": "pure", "sync": "pure", "sync/atomic": "pure", "runtime": "pure",
	"encoding/json": "pure", "encoding/hex": "pure", "crypto/sha256": "pure", "hash": "pure", "math": "pure", "cmp": "pure",
	"golang.org/x/exp/maps": "pure", "golang.org/x/exp/slices": "pure",
	"github.com/FollowTheProcess/collections/dag": "pure", "github.com/lithammer/fuzzysearch/fuzzy": "pure",
	"mvdan.cc/sh/v3/syntax": "pure", "mvdan.cc/sh/v3/expand": "pure",
	"fmt": "writer-arg", "io": "writer-arg", "text/template": "writer-arg", "github.com/fatih/color": "writer-arg",
	"github.com/juju/ansiterm/tabwriter": "writer-arg", "github.com/FollowTheProcess/msg": "writer-arg", "bufio": "writer-arg",
	"io/fs": "fs-read", "path/filepath": "fs-read", "path": "pure", "github.com/bmatcuk/doublestar/v4": "fs-read",
	"github.com/joho/godotenv": "environment",
	"go.uber.org/zap": "terminal-logger", "go.uber.org/zap/zapcore": "terminal-logger",
	"github.com/FollowTheProcess/cli": "cli-frontend",
	"mvdan.cc/sh/v3/interp": "user-program",
	"os": "per-function",
	"internal/runtime/sys": "pure", "unsafe": "undecided",
}

// read-only / process-level functions of package os (anything else in os that is not file-mutating is undecided).
var osReadOnly = map[string]bool{
	"os.Open": true, "os.ReadFile": true, "os.ReadDir": true, "os.Stat": true, "os.Lstat": true, "os.Getwd": true, "os.UserHomeDir": true,
	"os.Environ": true, "os.Getenv": true, "os.LookupEnv": true, "os.DirFS": true, "os.IsNotExist": true, "os.IsExist": true,
	"(*os.File).Stat": true, "(*os.File).Read": true, "(*os.File).Close": true, "(*os.File).Name": true, "(*os.File).ReadDir": true,
	"(*os.File).Readdir": true, "(*os.File).Readdirnames": true, "(*os.File).Fd": true,
	"os.Exit": true, "os.Setenv": true, "os.Unsetenv": true, "os.Clearenv": true, "os.Chdir": true, "os.Getpid": true, "os.Executable": true,
	"os.ExpandEnv": true, "os.Expand": true, "os.TempDir": true, "os.UserCacheDir": true, "os.UserConfigDir": true, "os.Hostname": true,
	"os.IsPermission": true, "os.SameFile": true, "os.Readlink": true, "os.Getuid": true, "os.Geteuid": true,
	"(os.FileMode).IsDir": true, "(os.FileMode).IsRegular": true, "(io/fs.FileMode).IsDir": true, "(io/fs.FileMode).IsRegular": true,
	"(*os.PathError).Error": true, "(*os.File).Seek": true, "(*os.File).WriteTo": true,
}

// mutSite is one call site of a file-mutating primitive in the module.
type mutSite struct {
	site   ssa.CallInstruction
	callee string
	fn     *ssa.Function
}

func pkgOfCallee(name string) string {
	// "(*os.File).WriteString" -> os ; "path/filepath.Join" -> path/filepath ; "(github.com/x/y.T).M" -> github.com/x/y
	s := name
	if strings.HasPrefix(s, "(") {
		if i := strings.Index(s, ")"); i > 0 {
			s = s[1:i]
		}
		s = strings.TrimPrefix(s, "*")
		if i := strings.LastIndex(s, "."); i > 0 {
			return s[:i]
		}
		return s
	}
	if i := strings.LastIndex(s, "."); i > 0 {
		return s[:i]
	}
	return s
}

// isMutatingCall classifies a call site as a file-mutating primitive. OpenFile is mutating unless its flag
// argument is a constant without write/create/truncate/append bits.
func isMutatingCall(site ssa.CallInstruction) (string, bool) {
	name := calleeName(site.Common())
	if _, ok := fileMutating[name]; !ok {
		return "", false
	}
	if name == "os.OpenFile" {
		args := site.Common().Args
		if len(args) >= 2 {
			if fl, ok := constInt(args[1]); ok {
				const wr = 0x1 | 0x2 | 0x40 | 0x200 | 0x400 // O_WRONLY|O_RDWR|O_CREATE|O_TRUNC|O_APPEND (linux values)
				if fl&wr == 0 {
					return "", false
				}
			}
		}
	}
	return name, true
}

// mutatingSites enumerates every file-mutating primitive call in the module, (*os.File) methods included.
func (c *Ctx) mutatingSites() []mutSite {
	e := c.ensureEffects()
	if e.mutSites != nil {
		return e.mutSites
	}
	for _, fn := range c.ModFuncs {
		for _, site := range callSites(fn) {
			if name, ok := isMutatingCall(site); ok {
				e.mutSites = append(e.mutSites, mutSite{site, name, fn})
			}
		}
	}
	sort.Slice(e.mutSites, func(i, j int) bool { return e.mutSites[i].site.Pos() < e.mutSites[j].site.Pos() })
	return e.mutSites
}

// reachesMutation: module function fn (transitively, through module functions only) contains a file-mutating call.
func (c *Ctx) reachesMutation(fn *ssa.Function) bool {
	e := c.ensureEffects()
	if e.mutReach == nil {
		e.mutReach = map[*ssa.Function]bool{}
		direct := map[*ssa.Function]bool{}
		for _, m := range c.mutatingSites() {
			direct[m.fn] = true
		}
		for _, f := range c.ModFuncs {
			seen := map[*ssa.Function]bool{}
			var walk func(g *ssa.Function) bool
			walk = func(g *ssa.Function) bool {
				if direct[g] {
					return true
				}
				if seen[g] || !inModule(g) {
					return false
				}
				seen[g] = true
				if n := c.CG.Nodes[g]; n != nil {
					for _, ed := range n.Out {
						if inModule(ed.Callee.Func) && walk(ed.Callee.Func) {
							return true
						}
					}
				}
				return false
			}
			e.mutReach[f] = walk(f)
		}
	}
	return e.mutReach[fn]
}

// reachesCallee: fn transitively (through module functions) calls a function with one of the given full names.
func (c *Ctx) reachesCallee(fn *ssa.Function, names ...string) bool {
	want := map[string]bool{}
	for _, n := range names {
		want[n] = true
	}
	seen := map[*ssa.Function]bool{}
	var walk func(g *ssa.Function) bool
	walk = func(g *ssa.Function) bool {
		if seen[g] || !inModule(g) {
			return false
		}
		seen[g] = true
		for _, site := range callSites(g) {
			if want[calleeName(site.Common())] {
				return true
			}
			for _, callee := range c.callees(site) {
				if inModule(callee) && walk(callee) {
					return true
				}
			}
		}
		return false
	}
	return walk(fn)
}

func namedOf(t types.Type) *types.Named {
	if p, ok := t.(*types.Pointer); ok {
		t = p.Elem()
	}
	n, _ := t.(*types.Named)
	return n
}

func isNamed(t types.Type, pkgPath, name string) bool {
	n := namedOf(t)
	return n != nil && n.Obj().Name() == name && n.Obj().Pkg() != nil && n.Obj().Pkg().Path() == pkgPath
}

package main

import (
	"fmt"
	"go/constant"
	"go/token"
	"go/types"
	"sort"
	"strings"

	"golang.org/x/tools/go/ssa"
)

// ---- TK: how task.New classifies the declared dependencies and outputs of a task --------------------------------------------------
//
// task.New turns the syntax tree of a task into the Task value everything else works on: the run order is computed
// from Task.TaskDependencies, the digest from File/GlobDependencies, --clean from the three output fields. A
// declaration that is dropped or put into the wrong field here is silently invisible to all of them.

// classLoop is one loop of task.New over a field of ast.Task that accumulates string slices which end up in fields of the
// returned Task.
type classLoop struct {
	fn     *ssa.Function
	fi     *fnInfo
	loop   *loopInfo
	source string                 // name of the ast.Task field ranged over
	accs   map[string]*ssa.Phi    // Task field name -> the loop-carried accumulator stored into it
	apps   map[string][]*ssa.Call // Task field name -> append calls inside the loop that grow it
}

func (c *Ctx) taskClassLoops() []*classLoop {
	fn := c.fn("task", "New")
	fi := c.info(fn)
	// Task field -> stored value
	stored := map[string]ssa.Value{}
	for _, b := range fn.Blocks {
		for _, in := range b.Instrs {
			st, ok := in.(*ssa.Store)
			if !ok {
				continue
			}
			if k := fieldKey(st.Addr); strings.HasPrefix(k, "task.Task.") {
				stored[strings.TrimPrefix(k, "task.Task.")] = st.Val
			}
		}
	}
	if len(stored) == 0 {
		lost("task.New no longer fills the fields of a task.Task value")
	}
	var out []*classLoop
	for _, l := range fi.loops {
		if l.depth > 1 {
			continue
		}
		cl := &classLoop{fn: fn, fi: fi, loop: l, accs: map[string]*ssa.Phi{}, apps: map[string][]*ssa.Call{}}
		// the field of the syntax tree the loop ranges over: what the header's test (index < len(x)) or range reads
		if iff, ok := lastInstr(l.header).(*ssa.If); ok {
			sl := c.newSlicer()
			sl.depth = 0
			res := sl.run(iff.Cond)
			for v := range res.vals {
				if k := fieldKey(v); strings.HasPrefix(k, "ast.Task.") {
					cl.source = strings.TrimPrefix(k, "ast.Task.")
				}
			}
		}
		if cl.source == "" {
			continue
		}
		for field, v := range stored {
			seen := map[ssa.Value]bool{}
			var walk func(v ssa.Value)
			walk = func(v ssa.Value) {
				p, ok := v.(*ssa.Phi)
				if !ok || seen[v] {
					return
				}
				seen[v] = true
				if p.Block() == l.header {
					cl.accs[field] = p
					return
				}
				for _, e := range p.Edges {
					walk(e)
				}
			}
			walk(v)
		}
		for field, p := range cl.accs {
			for _, b := range fn.Blocks {
				if !l.body[b] {
					continue
				}
				for _, in := range b.Instrs {
					call, ok := in.(*ssa.Call)
					if !ok {
						continue
					}
					if bi, ok := call.Call.Value.(*ssa.Builtin); !ok || bi.Name() != "append" {
						continue
					}
					if accumulates(call.Call.Args[0], p, l) {
						cl.apps[field] = append(cl.apps[field], call)
					}
				}
			}
		}
		if len(cl.accs) > 0 {
			out = append(out, cl)
		}
	}
	sort.Slice(out, func(i, j int) bool { return out[i].source < out[j].source })
	return out
}

// accumulates: v is the accumulator p as it stands somewhere in this iteration (p itself, or a merge of p and appends to it).
func accumulates(v ssa.Value, p *ssa.Phi, l *loopInfo) bool {
	seen := map[ssa.Value]bool{}
	var walk func(v ssa.Value) bool
	walk = func(v ssa.Value) bool {
		if v == ssa.Value(p) {
			return true
		}
		if seen[v] {
			return false
		}
		seen[v] = true
		switch x := v.(type) {
		case *ssa.Phi:
			if !l.body[x.Block()] {
				return false
			}
			for _, e := range x.Edges {
				if !walk(e) {
					return false
				}
			}
			return len(x.Edges) > 0
		case *ssa.Call:
			if bi, ok := x.Call.Value.(*ssa.Builtin); ok && bi.Name() == "append" && l.body[x.Block()] {
				return walk(x.Call.Args[0])
			}
		}
		return false
	}
	return walk(v)
}

// appendedElement returns the loop element (the ast.Node) whose Literal() is what the append adds, or nil.
func (cl *classLoop) appendedElement(c *Ctx, app *ssa.Call) ssa.Value {
	if len(app.Call.Args) != 2 {
		return nil
	}
	sl := c.newSlicer()
	sl.depth = 0
	res := sl.run(app.Call.Args[1])
	var elem ssa.Value
	for v := range res.vals {
		call, ok := v.(*ssa.Call)
		if !ok || !call.Common().IsInvoke() || call.Common().Method.Name() != "Literal" {
			continue
		}
		elem = call.Common().Value
	}
	if elem == nil {
		return nil
	}
	// the element is read from the field the loop ranges over
	es := c.newSlicer()
	es.depth = 0
	er := es.run(elem)
	for v := range er.vals {
		if fieldKey(v) == "ast.Task."+cl.source {
			return elem
		}
	}
	return nil
}

// typeGuards splits the intra-iteration necessary guards of an append into tests of elem.Type() against a constant
// (evaluated for node type k) and everything else. Guards whose other side ends the function with an error are loud
// and therefore ignored.
func (cl *classLoop) typeGuards(c *Ctx, app *ssa.Call, elem ssa.Value, k int64) (holds bool, residual []guard) {
	holds = true
	for _, g := range cl.fi.expandGuards(cl.fi.necessaryGuards(app.Block())) {
		if !cl.loop.body[g.e.from] || g.e.from == cl.loop.header {
			continue
		}
		if v, isType := typeTestValue(g.cond, elem, k); isType {
			if v != g.pol {
				holds = false
			}
			continue
		}
		if _, isPhi := g.cond.(*ssa.Phi); isPhi {
			continue // looked through by expandGuards
		}
		if _, isIf := lastInstr(g.e.from).(*ssa.If); isIf && (g.e.idx == 0 || g.e.idx == 1) {
			if ends, _ := c.edgeEndsInError(edge{g.e.from, 1 - g.e.idx}); ends {
				continue
			}
		}
		residual = append(residual, g)
	}
	return
}

// typeTestValue: cond is `elem.Type() ==/!= K'`; returns its truth value when the type is k.
func typeTestValue(cond ssa.Value, elem ssa.Value, k int64) (val bool, ok bool) {
	bo, isB := cond.(*ssa.BinOp)
	if !isB || (bo.Op != token.EQL && bo.Op != token.NEQ) {
		return false, false
	}
	for _, pair := range [][2]ssa.Value{{bo.X, bo.Y}, {bo.Y, bo.X}} {
		call, isCall := pair[0].(*ssa.Call)
		if !isCall || !call.Common().IsInvoke() || call.Common().Method.Name() != "Type" || !sameOrigins(call.Common().Value, elem) {
			continue
		}
		n, isC := constInt(pair[1])
		if !isC {
			continue
		}
		return (n == k) == (bo.Op == token.EQL), true
	}
	return false, false
}

func (c *Ctx) nodeTypeConst(name string) int64 {
	m, ok := c.pkg("ast").Members[name].(*ssa.NamedConst)
	if !ok {
		lost("package ast has no constant " + name)
	}
	n, exact := constant.Int64Val(constant.ToInt(m.Value.Value))
	if !exact {
		lost("ast." + name + " is not an integer constant")
	}
	return n
}

// checkClassification proves that, in the loop over ast.Task.<source>, an element of node type <kind> is always added
// to one of the Task fields in <fields> (whatever else is true of it), with its Literal() as the value.
func (c *Ctx) checkClassification(r *rule, source, kind string, fields []string) {
	k := c.nodeTypeConst(kind)
	var cl *classLoop
	for _, l := range c.taskClassLoops() {
		if l.source == source {
			cl = l
		}
	}
	key := fmt.Sprintf("task.New %s/%s -> %s", source, kind, strings.Join(fields, "|"))
	if cl == nil {
		r.undecided(key, c.pos(c.fn("task", "New").Pos()), "no loop over ast.Task."+source+" that accumulates fields of the returned Task was found")
		return
	}
	for _, f := range fields {
		if cl.accs[f] == nil {
			r.bad(key, c.bpos(cl.loop.header), "Task."+f+" is not filled from the loop over ast.Task."+source)
			return
		}
	}
	type cand struct {
		app      *ssa.Call
		field    string
		residual []guard
	}
	var cands []cand
	var notes []string
	var rewritten []string
	for _, f := range fields {
		for _, app := range cl.apps[f] {
			elem := cl.appendedElement(c, app)
			if elem == nil {
				notes = append(notes, fmt.Sprintf("append to %s at %s does not add Literal() of the element of ast.Task.%s", f, c.ipos(app), source))
				continue
			}
			holds, residual := cl.typeGuards(c, app, elem, k)
			if !holds {
				continue // the append is for another node type
			}
			// what is recorded is the declared text itself (for plain files: joined behind the root), not a rewritten form of it
			ls := c.newSlicer()
			ls.depth = 0
			for _, v := range ls.run(app.Call.Args[1]).order {
				call, isCall := v.(*ssa.Call)
				if !isCall {
					continue
				}
				if call.Common().IsInvoke() && call.Common().Method.Name() == "Literal" {
					continue
				}
				if n := calleeName(call.Common()); n != "path/filepath.Join" && n != "builtin.append" && n != "builtin.len" {
					rewritten = append(rewritten, fmt.Sprintf("the %s recorded in Task.%s at %s passes through %s", strings.ToLower(strings.TrimPrefix(kind, "Node")), f, c.ipos(app), n))
				}
			}
			cands = append(cands, cand{app, f, residual})
		}
	}
	if len(cands) == 0 {
		r.bad(key, c.bpos(cl.loop.header), fmt.Sprintf("no append inside the loop over ast.Task.%s adds an ast.%s element to Task.%s", source, kind, strings.Join(fields, "/")), notes...)
		return
	}
	if len(rewritten) > 0 {
		r.bad(key, c.bpos(cl.loop.header), "a declaration is rewritten before it is recorded ("+strings.Join(rewritten, "; ")+"): what spok then depends on, expands or removes is not what the spokfile says")
		return
	}
	// cover: an append without any further condition, or two appends under the two sides of one further condition
	for _, cd := range cands {
		if len(cd.residual) == 0 {
			r.ok(key, c.ipos(cd.app), fmt.Sprintf("every ast.%s element is appended to Task.%s; the only conditions are tests of its node type", kind, cd.field))
			return
		}
	}
	for i, a := range cands {
		for _, b := range cands[i+1:] {
			if len(a.residual) == 1 && len(b.residual) == 1 && a.residual[0].cond == b.residual[0].cond && a.residual[0].pol != b.residual[0].pol {
				r.ok(key, c.ipos(a.app), fmt.Sprintf("every ast.%s element is appended to Task.%s or Task.%s (the two sides of %s)", kind, a.field, b.field, condText(a.residual[0].cond)))
				if c.splitTests == nil {
					c.splitTests = map[string]splitTest{}
				}
				st := splitTest{cond: a.residual[0].cond, onTrue: a.field, onFalse: b.field, at: a.app}
				if !a.residual[0].pol {
					st.onTrue, st.onFalse = b.field, a.field
				}
				c.splitTests[source+"/"+kind] = st
				return
			}
		}
	}
	var desc []string
	for _, cd := range cands {
		var gs []string
		for _, g := range cd.residual {
			gs = append(gs, fmt.Sprintf("%s == %v", condText(g.cond), g.pol))
		}
		desc = append(desc, fmt.Sprintf("append to Task.%s at %s only when %s", cd.field, c.ipos(cd.app), strings.Join(gs, " && ")))
	}
	r.bad(key, c.ipos(cands[0].app), fmt.Sprintf("an ast.%s element of ast.Task.%s reaches Task.%s only under a further condition: some declarations are silently left out", kind, source, strings.Join(fields, "/")), append(desc, notes...)...)
}

// splitTest is the one condition that sends a string of a declaration list to one of two Task fields.
type splitTest struct {
	cond            ssa.Value
	onTrue, onFalse string
	at              *ssa.Call
}

// starSearch recognises the forms of "the text contains a '*'": strings.Contains(x, "*"), ContainsRune(x, '*'), ContainsAny(x, "*"),
// and Index/IndexByte/IndexRune/IndexAny(x, '*') compared with 0 or -1. holds is the truth value of cond when a star is present;
// other is a description of what is searched for instead when the call is a search for something else.
func starSearch(cond ssa.Value) (holds bool, ok bool, other string) {
	isStar := func(v ssa.Value) (bool, string) {
		k, isK := v.(*ssa.Const)
		if !isK || k.Value == nil {
			return false, "a value that is not a constant"
		}
		switch k.Value.Kind() {
		case constant.String:
			if s := constant.StringVal(k.Value); s != "*" {
				return false, fmt.Sprintf("%q", s)
			}
			return true, ""
		case constant.Int:
			if n, _ := constant.Int64Val(k.Value); n != '*' {
				return false, fmt.Sprintf("%q", rune(n))
			}
			return true, ""
		}
		return false, "a constant of another kind"
	}
	switch v := cond.(type) {
	case *ssa.Call:
		switch n := calleeName(v.Common()); n {
		case "strings.Contains", "strings.ContainsRune", "strings.ContainsAny":
			if len(v.Common().Args) == 2 {
				if is, what := isStar(v.Common().Args[1]); is {
					return true, true, ""
				} else {
					return false, false, n + " of " + what
				}
			}
		case "strings.HasPrefix", "strings.HasSuffix", "strings.EqualFold", "path/filepath.Match", "path.Match":
			return false, false, n
		}
	case *ssa.UnOp:
		if v.Op == token.NOT {
			h, ok, other := starSearch(v.X)
			return !h, ok, other
		}
	case *ssa.BinOp:
		call, isCall := v.X.(*ssa.Call)
		k, isK := v.Y.(*ssa.Const)
		if !isCall || !isK || k.Value == nil || k.Value.Kind() != constant.Int {
			return false, false, ""
		}
		n := calleeName(call.Common())
		if n != "strings.Index" && n != "strings.IndexByte" && n != "strings.IndexRune" && n != "strings.IndexAny" || len(call.Common().Args) != 2 {
			return false, false, ""
		}
		if is, what := isStar(call.Common().Args[1]); !is {
			return false, false, n + " of " + what
		}
		kv, _ := constant.Int64Val(k.Value)
		switch {
		case v.Op == token.GEQ && kv == 0, v.Op == token.GTR && kv == -1, v.Op == token.NEQ && kv == -1:
			return true, true, ""
		case v.Op == token.LSS && kv == 0, v.Op == token.LEQ && kv == -1, v.Op == token.EQL && kv == -1:
			return false, true, ""
		}
	}
	return false, false, ""
}

func ruleTK5(c *Ctx) *rule {
	r := &rule{ID: "TK5", Engine: "E2+E3", Floor: 2,
		Statement: "the one test by which task.New tells a glob from a plain file, for dependencies and for outputs alike, is 'the declared text contains a *': a search for \"*\" (strings.Contains / ContainsRune / ContainsAny / Index...) whose hit side fills the Glob field and whose miss side fills the File field",
		Necessity: "a glob is, by definition, a dependency or output string containing '*': with any other test a file whose name merely contains another pattern character is expanded as a pattern (matching nothing: the task is never skipped and its output never removed), or a pattern is hashed and removed as if it were one file"}
	for _, src := range [][3]string{{"Dependencies", "FileDependencies", "GlobDependencies"}, {"Outputs", "FileOutputs", "GlobOutputs"}} {
		key := fmt.Sprintf("task.New %s file/glob test", src[0])
		delete(c.splitTests, src[0]+"/NodeString")
		c.checkClassification(&rule{}, src[0], "NodeString", []string{src[1], src[2]})
		st, found := c.splitTests[src[0]+"/NodeString"]
		if !found {
			r.undecided(key, c.pos(c.fn("task", "New").Pos()), "no single two-sided test separates Task."+src[1]+" from Task."+src[2])
			continue
		}
		holds, ok, other := starSearch(st.cond)
		switch {
		case ok && ((holds && st.onTrue == src[2]) || (!holds && st.onFalse == src[2])):
			r.ok(key, c.ipos(st.at), "a text with a '*' goes to Task."+src[2]+", every other text to Task."+src[1]+" ("+condText(st.cond)+")")
		case ok:
			r.bad(key, c.ipos(st.at), "the sides of the test are swapped: a text containing '*' is recorded as a plain file in Task."+src[1])
		case other != "":
			r.bad(key, c.ipos(st.at), "globs are told from files by "+other+", not by the presence of '*'")
		default:
			r.undecided(key, c.ipos(st.at), "the file/glob test is "+condText(st.cond)+", which the checker does not recognise as a search for '*'")
		}
	}
	return r
}

func ruleTK1(c *Ctx) *rule {
	r := &rule{ID: "TK1", Engine: "E2", Floor: 1,
		Statement: "in task.New every identifier in a task's dependency list is appended to Task.TaskDependencies with its Literal() as the name; the append is conditioned on nothing but the element's node type",
		Necessity: "the dependency graph is built from Task.TaskDependencies only: an identifier that is left out (or recorded in another field) is a declared task dependency that is neither ordered before the task nor run, without any error"}
	c.checkClassification(r, "Dependencies", "NodeIdent", []string{"TaskDependencies"})
	return r
}

func ruleTK2(c *Ctx) *rule {
	r := &rule{ID: "TK2", Engine: "E2", Floor: 1,
		Statement: "in task.New every string in a task's dependency list is appended to Task.FileDependencies or Task.GlobDependencies: the appends cover both sides of the one test that tells the two apart and are otherwise conditioned on the node type only",
		Necessity: "the digest that decides 'skipped' is computed from these two fields: a declared file or pattern that reaches neither can change without the task ever being re-run"}
	c.checkClassification(r, "Dependencies", "NodeString", []string{"FileDependencies", "GlobDependencies"})
	return r
}

func ruleTK3(c *Ctx) *rule {
	r := &rule{ID: "TK3", Engine: "E2", Floor: 2,
		Statement: "in task.New every string in a task's output list is appended to Task.FileOutputs or Task.GlobOutputs and every identifier to Task.NamedOutputs, conditioned on the node type only (plus the one file/glob test, both sides covered)",
		Necessity: "--clean removes what these three fields name: a declared output that reaches none of them is never removed"}
	c.checkClassification(r, "Outputs", "NodeString", []string{"FileOutputs", "GlobOutputs"})
	c.checkClassification(r, "Outputs", "NodeIdent", []string{"NamedOutputs"})
	return r
}

// ---- TK6: a task's file inputs are its declared dependencies and nothing else -----------------------------------------------------

func ruleTK6(c *Ctx) *rule {
	r := &rule{ID: "TK6", Engine: "E3", Floor: 1,
		Statement: "the file-input fields of a task (Task.FileDependencies, Task.GlobDependencies) are filled by task.New from the task's declared dependencies (TK2 judges how) and are written nowhere else in the module",
		Necessity: "an input added behind the declaration (a project-wide file appended to every task) gives a task that declares no file dependency an input list: it is then recorded and reported skipped, although such a task must always run, and every other task's digest covers a file it never named"}
	newF := c.fn("task", "New")
	inNew := map[*ssa.Function]bool{}
	for _, f := range closuresOf(newF) {
		inNew[f] = true
	}
	n := 0
	for _, field := range []string{"task.Task.FileDependencies", "task.Task.GlobDependencies"} {
		for _, st := range c.fieldStores()[field] {
			if _, direct := st.Addr.(*ssa.FieldAddr); !direct {
				continue // a copy of a whole Task value moves the lists along, it does not change them
			}
			n++
			key := fmt.Sprintf("%s store into %s", fname(st.Parent()), strings.TrimPrefix(field, "task.Task."))
			if inNew[st.Parent()] {
				r.ok(key, c.ipos(st), "filled by task.New")
			} else {
				r.bad(key, c.ipos(st), "a task's file inputs are changed after task.New built them from the declaration")
			}
		}
	}
	if n == 0 {
		lost("no store into task.Task.FileDependencies / GlobDependencies found")
	}
	return r
}

func ruleTK4(c *Ctx) *rule {
	r := &rule{ID: "TK4", Engine: "E2+E3", Floor: 1,
		Statement: "Task.Commands has exactly one element per command of the syntax tree, in order: it is accumulated in the loop over ast.Task.Commands by one unconditional append per way round (error exits apart) of a value derived from that command's own text; it is never re-cut from expanded text",
		Necessity: "variables are substituted textually into each command: if the list is joined, expanded and split again, a value that contains the separator (a multi-line exec(...) result) changes how many commands there are and what they say"}
	fn := c.fn("task", "New")
	key := "task.New Commands one-per-command"
	var cl *classLoop
	for _, l := range c.taskClassLoops() {
		if l.source == "Commands" && l.accs["Commands"] != nil {
			cl = l
		}
	}
	if cl == nil {
		// not accumulated in a loop over the commands: is the list cut out of some text?
		for _, b := range fn.Blocks {
			for _, in := range b.Instrs {
				st, ok := in.(*ssa.Store)
				if !ok || fieldKey(st.Addr) != "task.Task.Commands" {
					continue
				}
				sl := c.newSlicer()
				sl.depth = 0
				res := sl.run(st.Val)
				for _, n := range res.callNames() {
					if strings.HasPrefix(n, "strings.Split") || strings.HasPrefix(n, "strings.Fields") || strings.HasPrefix(n, "strings.Lines") {
						r.bad(key, c.ipos(st), "Task.Commands is cut out of expanded text by "+n+": a variable value containing the separator changes the number and content of the commands")
						return r
					}
				}
			}
		}
		r.undecided(key, c.pos(fn.Pos()), "Task.Commands is not accumulated by appends in a loop over ast.Task.Commands")
		return r
	}
	apps := cl.apps["Commands"]
	if len(apps) == 0 {
		r.bad(key, c.bpos(cl.loop.header), "the loop over ast.Task.Commands never appends to Task.Commands")
		return r
	}
	for _, app := range apps {
		var residual []string
		for _, g := range cl.fi.expandGuards(cl.fi.necessaryGuards(app.Block())) {
			if !cl.loop.body[g.e.from] || g.e.from == cl.loop.header {
				continue
			}
			if _, isPhi := g.cond.(*ssa.Phi); isPhi {
				continue
			}
			if _, isIf := lastInstr(g.e.from).(*ssa.If); isIf && (g.e.idx == 0 || g.e.idx == 1) {
				if ends, _ := c.edgeEndsInError(edge{g.e.from, 1 - g.e.idx}); ends {
					continue
				}
			}
			residual = append(residual, fmt.Sprintf("%s == %v", condText(g.cond), g.pol))
		}
		sl := c.newSlicer()
		sl.depth = 0
		sl.objFlow = true
		res := sl.run(app.Call.Args[1:]...)
		switch {
		case len(residual) > 0:
			r.bad(key, c.ipos(app), "a command is only recorded when "+strings.Join(residual, " && ")+": the others are silently left out of the task")
		case !res.hasField("ast.Command.Command") && !res.hasCall("(github.com/FollowTheProcess/spok/ast.Command).Literal"):
			r.bad(key, c.ipos(app), "what is appended does not derive from the text of the command at hand")
		default:
			r.ok(key, c.ipos(app), "one append per command, of a value derived from that command's text")
		}
	}
	return r
}

func rulePS2(c *Ctx) *rule {
	r := &rule{ID: "PS2", Engine: "E3", Floor: 3,
		Statement: "the Literal() of the value-carrying leaves of the syntax tree is the stored field itself: (ast.String).Literal returns Text, (ast.Ident).Literal returns Name, (ast.Command).Literal returns Command, through no call",
		Necessity: "file.New, task.New and the builtins take every name, value, path and command from Literal(): unquoting, trimming or case folding there changes a variable's value (escape sequences), a file name or a command between the spokfile and the shell"}
	for _, leaf := range [][2]string{{"String", "Text"}, {"Ident", "Name"}, {"Command", "Command"}} {
		m := c.methodOpt("ast", leaf[0], "Literal")
		key := "(ast." + leaf[0] + ").Literal"
		if m == nil || len(m.Blocks) == 0 {
			r.undecided(key, "-", "the method was not found")
			continue
		}
		bad := ""
		for _, ret := range returnsOf(m) {
			sl := c.newSlicer()
			sl.depth = 0
			res := sl.run(ret.Results[0])
			if calls := res.callNames(); len(calls) > 0 {
				bad = "passes through " + strings.Join(calls, ", ")
			} else if !res.hasField("ast." + leaf[0] + "." + leaf[1]) {
				bad = "is not the " + leaf[1] + " field"
			}
		}
		if bad != "" {
			r.bad(key, c.pos(m.Pos()), "what Literal() returns "+bad)
		} else {
			r.ok(key, c.pos(m.Pos()), "returns the "+leaf[1]+" field unchanged")
		}
	}
	return r
}

func rulePS1(c *Ctx) *rule {
	r := &rule{ID: "PS1", Engine: "E3", Floor: 1,
		Statement: "the text of a string literal node is the token's text with its quotes removed and nothing else: between token.Value and ast.String.Text there is only quote stripping (ReplaceAll/Trim/TrimPrefix/TrimSuffix of the quote character, or slicing off the first and last byte)",
		Necessity: "a string variable's value is exactly what is written between the quotes; unquoting with escape processing, case folding or trimming changes values that contain backslashes, upper case or blanks before they reach commands and the environment"}
	n := 0
	for _, f := range c.ModFuncs {
		if shortPkg(fnPkgPath(f)) != "parser" {
			continue
		}
		for _, b := range f.Blocks {
			for _, in := range b.Instrs {
				st, ok := in.(*ssa.Store)
				if !ok || fieldKey(st.Addr) != "ast.String.Text" {
					continue
				}
				n++
				key := fmt.Sprintf("%s ast.String.Text#%d", fname(f), n)
				sl := c.newSlicer()
				sl.depth = 0
				res := sl.run(st.Val)
				if !res.hasField("token.Token.Value") {
					r.bad(key, c.ipos(st), "the text of the string node does not derive from the token's text")
					continue
				}
				bad, unknown := "", ""
				for _, v := range res.order {
					call, ok := v.(*ssa.Call)
					if !ok {
						continue
					}
					name := calleeName(call.Common())
					if callee := call.Common().StaticCallee(); callee != nil && inModule(callee) {
						continue // where the token comes from (the parser's own token supply)
					}
					switch name {
					case "strings.ReplaceAll", "strings.Trim", "strings.TrimPrefix", "strings.TrimSuffix", "strings.TrimLeft", "strings.TrimRight":
						for _, a := range call.Common().Args[1:] {
							if s, isC := constString(a); !isC || (s != "\"" && s != "") {
								bad = name + " with an argument other than the quote character"
							}
						}
					case "builtin.len":
					default:
						switch {
						case strings.HasPrefix(name, "strconv."), strings.HasPrefix(name, "html."), strings.HasPrefix(name, "net/url."),
							strings.HasPrefix(name, "strings.To"), name == "strings.TrimSpace", name == "strings.Fields", name == "strings.Replace", name == "strings.Map":
							bad = name
						default:
							unknown = name
						}
					}
				}
				switch {
				case bad != "":
					r.bad(key, c.ipos(st), "the literal's text passes through "+bad+": the value is no longer exactly the text between the quotes")
				case unknown != "":
					r.undecided(key, c.ipos(st), "the literal's text passes through "+unknown+", which this rule does not know")
				default:
					r.ok(key, c.ipos(st), "quotes stripped, nothing else")
				}
			}
		}
	}
	if n == 0 {
		r.undecided("parser ast.String.Text", "-", "the parser never fills ast.String.Text")
	}
	return r
}

var _ = types.Typ

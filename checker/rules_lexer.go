package main

import (
	"fmt"
	"go/constant"
	"go/token"
	"sort"

	"golang.org/x/tools/go/ssa"
)

// ---- TL: the shape of token emission in the lexer (the structural clauses of C16) ------------------------------------------------
//
// The lexer keeps four cursor fields: start/startLine (where the current token began) and pos/line (where the scan is).
// What a token says about itself is decided in exactly one place, emit. The rules below pin the *shape* of that place and
// of every write to the cursor fields; the arithmetic of pos/width/line under next/backup/absorb is run-time behaviour and
// is not decided here.

func isLexerFieldLoad(v ssa.Value, field string) bool {
	for _, o := range origins(v) {
		u, ok := o.(*ssa.UnOp)
		if !ok || u.Op != token.MUL || fieldKey(u.X) != "lexer.Lexer."+field {
			return false
		}
	}
	return len(origins(v)) > 0
}

func ruleTL1(c *Ctx) *rule {
	r := &rule{ID: "TL1", Engine: "E3", Floor: 4,
		Statement: "the token sent by emit has Value = input[start:pos] (or the empty string), Pos = start and Line = startLine, its Type is emit's parameter, and after the send start is set to pos and startLine to line on every path to the return",
		Necessity: "a token's text is the slice of the input at its recorded offset only if both are taken from the same start; the next token begins where this one ended (no gap, no overlap) only if start is moved up to pos"}
	emit := c.method("lexer", "Lexer", "emit")
	var send *ssa.Send
	for _, b := range emit.Blocks {
		for _, in := range b.Instrs {
			if sd, ok := in.(*ssa.Send); ok {
				if send != nil {
					r.undecided("lexer.(*Lexer).emit send", c.ipos(sd), "emit sends more than once")
					return r
				}
				send = sd
			}
		}
	}
	if send == nil {
		r.undecided("lexer.(*Lexer).emit send", c.pos(emit.Pos()), "emit does not send on a channel itself")
		return r
	}
	// the field stores of the token literal that is sent
	stores := map[string][]*ssa.Store{}
	for _, f := range []string{"Value", "Type", "Pos", "Line"} {
		for _, st := range c.fieldStores()["token.Token."+f] {
			if st.Parent() == emit && before(st, send) {
				stores[f] = append(stores[f], st)
			}
		}
	}
	check := func(field string, okVal func(v ssa.Value) bool, want string) {
		key := "lexer.(*Lexer).emit Token." + field
		sts := stores[field]
		if len(sts) == 0 {
			r.bad(key, c.ipos(send), "the sent token's "+field+" is never set (zero value)")
			return
		}
		for _, st := range sts {
			for _, o := range origins(st.Val) {
				if !okVal(o) {
					r.bad(key, c.ipos(st), "Token."+field+" is "+condText(o)+", not "+want)
					return
				}
			}
		}
		r.ok(key, c.ipos(sts[0]), want)
	}
	check("Value", func(o ssa.Value) bool {
		if s, isC := constString(o); isC {
			return s == ""
		}
		sl, ok := o.(*ssa.Slice)
		if !ok || sl.Low == nil || sl.High == nil {
			return false
		}
		return isLexerFieldLoad(sl.X, "input") && isLexerFieldLoad(sl.Low, "start") && isLexerFieldLoad(sl.High, "pos")
	}, "input[start:pos]")
	check("Pos", func(o ssa.Value) bool { return isLexerFieldLoad(o, "start") }, "the lexer's start")
	check("Line", func(o ssa.Value) bool { return isLexerFieldLoad(o, "startLine") }, "the lexer's startLine")
	check("Type", func(o ssa.Value) bool { p, ok := o.(*ssa.Parameter); return ok && p.Parent() == emit }, "emit's parameter")
	// after the send: start = pos, startLine = line, on every path to a return
	for _, pair := range [][2]string{{"start", "pos"}, {"startLine", "line"}} {
		key := "lexer.(*Lexer).emit " + pair[0] + " := " + pair[1]
		var after *ssa.Store
		for _, st := range c.fieldStores()["lexer.Lexer."+pair[0]] {
			if st.Parent() == emit && before(send, st) && isLexerFieldLoad(st.Val, pair[1]) {
				after = st
			}
		}
		if after == nil {
			r.bad(key, c.ipos(send), "after the send "+pair[0]+" is not moved up to "+pair[1]+": the next token starts inside (or before) this one")
			continue
		}
		all := true
		for _, ret := range returnsOf(emit) {
			if !before(after, ret) {
				all = false
			}
		}
		if all {
			r.ok(key, c.ipos(after), "on every path from the send to the return")
		} else {
			r.bad(key, c.ipos(after), "a path from the send returns without moving "+pair[0]+" up to "+pair[1])
		}
	}
	return r
}

func ruleTL2(c *Ctx) *rule {
	r := &rule{ID: "TL2", Engine: "E3", Floor: 2,
		Statement: "outside the constructor every store into Lexer.start stores Lexer.pos and every store into Lexer.startLine stores Lexer.line, and the two come together (same block); the constructor starts at offset 0, line 1",
		Necessity: "offsets are increasing and tokens do not overlap because start only ever jumps forward to the scan position; the recorded line is the line of that same position only if startLine is taken from line at the same moment"}
	newF := c.fn("lexer", "New")
	seen := map[string]bool{}
	n := 0
	for _, pair := range [][2]string{{"start", "pos"}, {"startLine", "line"}} {
		for _, st := range c.fieldStores()["lexer.Lexer."+pair[0]] {
			f := st.Parent()
			if !inModule(f) || seen[c.ipos(st)+pair[0]] {
				continue
			}
			seen[c.ipos(st)+pair[0]] = true
			n++
			key := fmt.Sprintf("Lexer.%s store#%d (seen in %s)", pair[0], n, fname(f))
			if f == newF {
				want := int64(0)
				if pair[0] == "startLine" {
					want = 1
				}
				if k, ok := constInt(st.Val); ok && k == want {
					r.ok(key, c.ipos(st), fmt.Sprintf("the constructor starts at %d", want))
				} else {
					r.bad(key, c.ipos(st), fmt.Sprintf("the constructor sets %s to %s, not %d", pair[0], condText(st.Val), want))
				}
				continue
			}
			if !isLexerFieldLoad(st.Val, pair[1]) {
				r.bad(key, c.ipos(st), fmt.Sprintf("%s is set to %s, not to the lexer's %s", pair[0], condText(st.Val), pair[1]))
				continue
			}
			// its partner in the same block
			other := "startLine"
			if pair[0] == "startLine" {
				other = "start"
			}
			paired := false
			for _, st2 := range c.fieldStores()["lexer.Lexer."+other] {
				if st2.Block() == st.Block() {
					paired = true
				}
			}
			if paired {
				r.ok(key, c.ipos(st), pair[0]+" := "+pair[1]+", together with "+other)
			} else {
				r.bad(key, c.ipos(st), pair[0]+" is moved without "+other+": offset and line of the next token are taken at different moments")
			}
		}
	}
	return r
}

func ruleTL3(c *Ctx) *rule {
	r := &rule{ID: "TL3", Engine: "E2+E3", Floor: 2,
		Statement: "the line counter changes only by one: it is incremented only under the necessary guard that the rune just decoded from the input is '\\n', decremented only when stepping back, and set to 1 by the constructor",
		Necessity: "a token's line is one plus the number of newlines before it only if the counter moves on newlines and on nothing else"}
	seen := map[string]bool{}
	n := 0
	var sts []*ssa.Store
	sts = append(sts, c.fieldStores()["lexer.Lexer.line"]...)
	sort.Slice(sts, func(i, j int) bool { return c.ipos(sts[i]) < c.ipos(sts[j]) })
	newF := c.fn("lexer", "New")
	for _, st := range sts {
		f := st.Parent()
		if !inModule(f) || seen[c.ipos(st)] {
			continue
		}
		seen[c.ipos(st)] = true
		n++
		key := fmt.Sprintf("Lexer.line store#%d (seen in %s)", n, fname(f))
		if f == newF {
			if k, ok := constInt(st.Val); ok && k == 1 {
				r.ok(key, c.ipos(st), "the constructor starts on line 1")
			} else {
				r.bad(key, c.ipos(st), "the constructor does not start on line 1")
			}
			continue
		}
		bin, ok := st.Val.(*ssa.BinOp)
		if !ok || !isLexerFieldLoad(bin.X, "line") {
			r.undecided(key, c.ipos(st), "the line counter is set to "+condText(st.Val)+", which is not line+1 / line-1")
			continue
		}
		k, isK := constInt(bin.Y)
		switch {
		case isK && k == 1 && bin.Op == token.SUB:
			r.ok(key, c.ipos(st), "line-1 (stepping back)")
		case isK && k == 1 && bin.Op == token.ADD:
			guarded := false
			for _, g := range c.info(f).necessaryGuards(st.Block()) {
				if isNewlineTest(g) {
					guarded = true
				}
			}
			if guarded {
				r.ok(key, c.ipos(st), "line+1 under the necessary guard 'the decoded rune is \\n'")
			} else {
				r.bad(key, c.ipos(st), "the line counter is incremented without the necessary guard that the rune just decoded is '\\n'")
			}
		default:
			r.undecided(key, c.ipos(st), "the line counter moves by "+condText(bin.Y))
		}
	}
	return r
}

// isNewlineTest: the guard says that a rune obtained from utf8.DecodeRuneInString equals '\n'.
func isNewlineTest(g guard) bool {
	bin, ok := g.cond.(*ssa.BinOp)
	if !ok {
		return false
	}
	if !((bin.Op == token.EQL && g.pol) || (bin.Op == token.NEQ && !g.pol)) {
		return false
	}
	x, y := bin.X, bin.Y
	if _, isC := y.(*ssa.Const); !isC {
		x, y = y, x
	}
	k, isC := y.(*ssa.Const)
	if !isC || k.Value == nil || k.Value.Kind() != constant.Int {
		return false
	}
	if n, _ := constant.Int64Val(k.Value); n != '\n' {
		return false
	}
	for _, o := range origins(x) {
		ex, ok := o.(*ssa.Extract)
		if !ok || ex.Index != 0 {
			return false
		}
		call, ok := ex.Tuple.(*ssa.Call)
		if !ok {
			return false
		}
		switch calleeName(call.Common()) {
		case "unicode/utf8.DecodeRuneInString", "unicode/utf8.DecodeRune":
		default:
			return false
		}
	}
	return true
}

// endOfInputTest: cond compares Lexer.pos with len(Lexer.input); holds is the truth value of cond when pos is at (or past) the end.
func endOfInputTest(cond ssa.Value) (holds bool, ok bool) {
	bin, isBin := cond.(*ssa.BinOp)
	if !isBin {
		return false, false
	}
	isLen := func(v ssa.Value) bool {
		call, ok := v.(*ssa.Call)
		if !ok {
			return false
		}
		b, ok := call.Common().Value.(*ssa.Builtin)
		return ok && b.Name() == "len" && isLexerFieldLoad(call.Common().Args[0], "input")
	}
	switch {
	case isLexerFieldLoad(bin.X, "pos") && isLen(bin.Y):
		switch bin.Op {
		case token.GEQ, token.EQL:
			return true, true
		case token.LSS, token.NEQ:
			return false, true
		}
	case isLen(bin.X) && isLexerFieldLoad(bin.Y, "pos"):
		switch bin.Op {
		case token.LEQ, token.EQL:
			return true, true
		case token.GTR, token.NEQ:
			return false, true
		}
	}
	return false, false
}

// endTestCandidate: a comparison that could be another way of saying "nothing is left": with the empty string, with a
// length, or of a rune with a negative sentinel. Such a guard makes LX3 undecided rather than violated.
func endTestCandidate(cond ssa.Value) bool {
	bin, ok := cond.(*ssa.BinOp)
	if !ok {
		return false
	}
	for _, side := range []ssa.Value{bin.X, bin.Y} {
		if s, isC := constString(side); isC && s == "" {
			return true
		}
		if k, isC := side.(*ssa.Const); isC && k.Value != nil && k.Value.Kind() == constant.Int {
			if n, _ := constant.Int64Val(k.Value); n < 0 {
				return true
			}
		}
		if call, isCall := side.(*ssa.Call); isCall {
			if b, isB := call.Common().Value.(*ssa.Builtin); isB && b.Name() == "len" {
				return true
			}
		}
	}
	return false
}

func ruleLX3(c *Ctx) *rule {
	r := &rule{ID: "LX3", Engine: "E2", Floor: 1,
		Statement: "every emit(token.EOF) has the necessary guard that the scan position has reached the end of the input (pos >= len(input))",
		Necessity: "the end-of-file token is positioned at the end of the input only if it is emitted there and nowhere else: an EOF emitted on another condition (a NUL byte, an unexpected character) ends the scan early without error"}
	states, emit, _ := c.lexStates()
	eof := tokenConst(c, "EOF")
	var fns []*ssa.Function
	for f := range states {
		fns = append(fns, f)
	}
	sort.Slice(fns, func(i, j int) bool { return fns[i].Name() < fns[j].Name() })
	n := 0
	for _, f := range fns {
		for _, site := range callSites(f) {
			if site.Common().StaticCallee() != emit || len(site.Common().Args) < 2 {
				continue
			}
			if k, isC := constInt(site.Common().Args[1]); !isC || k != eof {
				continue
			}
			n++
			key := fmt.Sprintf("lexer.%s emit(EOF)#%d", f.Name(), n)
			found, other := false, ""
			for _, g := range c.info(f).necessaryGuards(site.Block()) {
				if holds, ok := endOfInputTest(g.cond); ok {
					if holds == g.pol {
						found = true
					}
				} else if endTestCandidate(g.cond) {
					other = condText(g.cond)
				}
			}
			switch {
			case found:
				r.ok(key, c.ipos(site), "under the necessary guard pos >= len(input)")
			case other != "":
				r.undecided(key, c.ipos(site), "emit(EOF) is guarded by "+other+", which the checker does not recognise as an end-of-input test")
			default:
				r.bad(key, c.ipos(site), "emit(token.EOF) is reachable while the scan position is not at the end of the input")
			}
		}
	}
	if n == 0 {
		r.bad("lexer emit(EOF)", "-", "no state emits token.EOF: a scan never ends with an end-of-file token")
	}
	return r
}

func lexerProperties() []*propertySpec {
	return []*propertySpec{
		{ID: "C16", Title: "Tokens tile the input with exact offsets and line numbers",
			Explanation: "Decides the structural clauses of the property only. TL1 pins the single place where a token describes itself: emit sends Token{Value: input[start:pos], Pos: start, Line: startLine} and then moves start/startLine up to pos/line on every path. TL2 proves that start only ever jumps to pos (and startLine to line, together), so offsets increase and tokens cannot overlap. TL3 proves the line counter moves by one, upward only under the necessary guard that the rune just decoded is a newline. LX1 (shared with C08) proves a scan ends only through an ERROR token or directly after emit(EOF); LX3 proves emit(EOF) has the necessary guard pos >= len(input). The arithmetic of pos/width/line under next/backup/absorb for all inputs - whether what lies between two tokens is whitespace, whether backup restores the line after a multi-byte rune, CRLF handling - is run-time behaviour and is not decided.",
			NotCovered:  []string{"that only whitespace lies between tokens", "the value of pos/line after next/backup/absorb sequences (cursor arithmetic over all inputs)", "finiteness of the stream (progress of every state)", "line numbers across \\r\\n and multi-byte runes"},
			Assumptions: []string{"utf8.DecodeRuneInString returns the first rune of its argument", "a Go string slice input[a:b] is the bytes from a to b"},
			Rules:       []func(*Ctx) *rule{ruleTL1, ruleTL2, ruleTL3, ruleLX1, ruleLX3}},
	}
}

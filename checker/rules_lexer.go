package main

import (
	"fmt"
	"go/constant"
	"go/token"
	"go/types"
	"sort"
	"strings"

	"golang.org/x/tools/go/ssa"
)

// ---- TL: the shape of token emission in the lexer (the structural clauses of C16) ------------------------------------------------
//
// The lexer keeps four cursor fields: start/startLine (where the current token began) and pos/line (where the scan is).
// What a token says about itself is decided in exactly one place, emit. The rules below pin the *shape* of that place and
// of every write to the cursor fields; the arithmetic of pos/width/line under next/backup/absorb is run-time behaviour and
// is not decided here.

// lexPath names a memory cell of the lexer by the chain of field names that leads to it from a *Lexer value ("start",
// "cur.pos"): the rules identify the cursor cells by the role they play in emit, not by their names.
func lexPath(addr ssa.Value) string {
	fa, ok := addr.(*ssa.FieldAddr)
	if !ok {
		return ""
	}
	st, ok := deref(fa.X.Type()).Underlying().(*types.Struct)
	if !ok || fa.Field >= st.NumFields() {
		return ""
	}
	name := st.Field(fa.Field).Name()
	if isNamed(deref(fa.X.Type()), pkgPath("lexer"), "Lexer") {
		return name
	}
	if p := lexPath(fa.X); p != "" {
		return p + "." + name
	}
	// a local copy of a lexer struct cell (a value receiver spilled to a local): the copy stands for the cell
	if al, isAlloc := fa.X.(*ssa.Alloc); isAlloc && al.Referrers() != nil {
		src, n := "", 0
		for _, ref := range *al.Referrers() {
			if st, isSt := ref.(*ssa.Store); isSt && st.Addr == ssa.Value(al) {
				n++
				src = lexLoadPath(st.Val)
			}
		}
		if n == 1 && src != "" {
			return src + "." + name
		}
	}
	return ""
}

func deref(t types.Type) types.Type {
	if p, ok := t.Underlying().(*types.Pointer); ok {
		return p.Elem()
	}
	return t
}

// lexLoadPath: v is (on every origin) the content of one lexer cell; returns its path.
func lexLoadPath(v ssa.Value) string {
	os := origins(v)
	p := ""
	for _, o := range os {
		q := ""
		switch x := o.(type) {
		case *ssa.UnOp:
			if x.Op == token.MUL {
				q = lexPath(x.X)
			}
		case *ssa.Field:
			if st, ok := x.X.Type().Underlying().(*types.Struct); ok && x.Field < st.NumFields() {
				if b := lexLoadPath(x.X); b != "" {
					q = b + "." + st.Field(x.Field).Name()
				}
			}
		}
		if q == "" || (p != "" && p != q) {
			return ""
		}
		p = q
	}
	return p
}

type lexAssign struct {
	st   *ssa.Store
	from string    // the lexer cell whose content is assigned ("" when it is not the plain content of a cell)
	val  ssa.Value // the assigned value when the store names the cell exactly
}

// lexAssigns: every store of the lexer package that writes cell (directly, or as part of a struct that contains it).
func (c *Ctx) lexAssigns(cell string) []lexAssign {
	var out []lexAssign
	for _, f := range c.ModFuncs {
		if shortPkg(fnPkgPath(f)) != "lexer" {
			continue
		}
		for _, b := range f.Blocks {
			for _, in := range b.Instrs {
				st, ok := in.(*ssa.Store)
				if !ok {
					continue
				}
				p := lexPath(st.Addr)
				switch {
				case p == "":
				case p == cell:
					out = append(out, lexAssign{st: st, from: lexLoadPath(st.Val), val: st.Val})
				case strings.HasPrefix(cell, p+"."):
					a := lexAssign{st: st}
					if q := lexLoadPath(st.Val); q != "" {
						a.from = q + cell[len(p):]
					} else {
						a.val = localFieldValue(st.Val, strings.Split(cell[len(p)+1:], "."))
						if a.val != nil {
							a.from = lexLoadPath(a.val)
						}
					}
					out = append(out, a)
				}
			}
		}
	}
	sort.Slice(out, func(i, j int) bool { return c.ipos(out[i].st) < c.ipos(out[j].st) })
	return out
}

// localFieldValue: v is the content of a local struct variable; the value stored into its field path, when there is exactly one.
func localFieldValue(v ssa.Value, path []string) ssa.Value {
	for _, name := range path {
		u, ok := v.(*ssa.UnOp)
		if !ok || u.Op != token.MUL {
			return nil
		}
		al, ok := u.X.(*ssa.Alloc)
		if !ok {
			return nil
		}
		var found ssa.Value
		n := 0
		for _, ref := range *al.Referrers() {
			fa, ok := ref.(*ssa.FieldAddr)
			if !ok {
				continue
			}
			st, ok := deref(fa.X.Type()).Underlying().(*types.Struct)
			if !ok || st.Field(fa.Field).Name() != name {
				continue
			}
			for _, r2 := range *fa.Referrers() {
				if s, ok := r2.(*ssa.Store); ok && s.Addr == fa {
					found = s.Val
					n++
				}
			}
		}
		if n != 1 {
			return nil
		}
		v = found
	}
	return v
}

// lexRoles: the cells of the lexer by the role they play in emit.
type lexRoles struct {
	input, start, pos, startLine, line string
	why                                string
}

func (c *Ctx) lexRoles() *lexRoles {
	if c.lexRolesDone != nil {
		return c.lexRolesDone
	}
	ro := &lexRoles{}
	c.lexRolesDone = ro
	emit := c.method("lexer", "Lexer", "emit")
	var send *ssa.Send
	for _, b := range emit.Blocks {
		for _, in := range b.Instrs {
			if sd, ok := in.(*ssa.Send); ok {
				send = sd
			}
		}
	}
	if send == nil {
		ro.why = "emit does not send on a channel itself"
		return ro
	}
	for _, st := range c.fieldStores()["token.Token.Value"] {
		if st.Parent() != emit || !before(st, send) {
			continue
		}
		for _, o := range origins(st.Val) {
			sl, ok := o.(*ssa.Slice)
			if !ok || sl.Low == nil || sl.High == nil {
				continue
			}
			ro.input, ro.start, ro.pos = lexLoadPath(sl.X), lexLoadPath(sl.Low), lexLoadPath(sl.High)
		}
	}
	for _, st := range c.fieldStores()["token.Token.Line"] {
		if st.Parent() == emit && before(st, send) {
			ro.startLine = lexLoadPath(st.Val)
		}
	}
	if ro.startLine != "" {
		for _, a := range c.lexAssigns(ro.startLine) {
			if a.st.Parent() == emit && before(send, a.st) && a.from != "" {
				ro.line = a.from
			}
		}
	}
	switch {
	case ro.input == "" || ro.start == "" || ro.pos == "":
		ro.why = "the Value of the token sent by emit is not a slice of a lexer field between two lexer fields"
	case ro.start == ro.pos:
		ro.why = "the Value of the token sent by emit is sliced between a cell and itself"
	}
	return ro
}

func ruleTL1(c *Ctx) *rule {
	r := &rule{ID: "TL1", Engine: "E3", Floor: 4,
		Statement: "the token sent by emit has Value = input[start:pos] (or the empty string) for two distinct cursor cells start and pos of the lexer, Pos = that same start, Line = a third cell startLine, its Type is emit's parameter, and after the send start is set to pos and startLine to a fourth cell line on every path to the return",
		Necessity: "a token's text is the slice of the input at its recorded offset only if both are taken from the same start; the next token begins where this one ended (no gap, no overlap) only if start is moved up to pos"}
	emit := c.method("lexer", "Lexer", "emit")
	var send *ssa.Send
	for _, b := range emit.Blocks {
		for _, in := range b.Instrs {
			if sd, ok := in.(*ssa.Send); ok {
				if send != nil {
					r.undecided("lexer.(*Lexer).emit send", c.ipos(sd), "emit sends more than once")
					return r
				}
				send = sd
			}
		}
	}
	ro := c.lexRoles()
	if send == nil {
		r.undecided("lexer.(*Lexer).emit send", c.pos(emit.Pos()), ro.why)
		return r
	}
	r.note("cursor cells by role: input=%s start=%s pos=%s startLine=%s line=%s", ro.input, ro.start, ro.pos, ro.startLine, ro.line)
	// the field stores of the token literal that is sent
	stores := map[string][]*ssa.Store{}
	for _, f := range []string{"Value", "Type", "Pos", "Line"} {
		for _, st := range c.fieldStores()["token.Token."+f] {
			if st.Parent() == emit && before(st, send) {
				stores[f] = append(stores[f], st)
			}
		}
	}
	check := func(field string, okVal func(v ssa.Value) bool, want string) {
		key := "lexer.(*Lexer).emit Token." + field
		sts := stores[field]
		if len(sts) == 0 {
			r.bad(key, c.ipos(send), "the sent token's "+field+" is never set (zero value)")
			return
		}
		for _, st := range sts {
			for _, o := range origins(st.Val) {
				if !okVal(o) {
					r.bad(key, c.ipos(st), "Token."+field+" is "+condText(o)+", not "+want)
					return
				}
			}
		}
		r.ok(key, c.ipos(sts[0]), want)
	}
	check("Value", func(o ssa.Value) bool {
		if s, isC := constString(o); isC {
			return s == ""
		}
		sl, ok := o.(*ssa.Slice)
		if !ok || sl.Low == nil || sl.High == nil || ro.why != "" {
			return false
		}
		return lexLoadPath(sl.X) == ro.input && lexLoadPath(sl.Low) == ro.start && lexLoadPath(sl.High) == ro.pos
	}, "input[start:pos]")
	check("Pos", func(o ssa.Value) bool { return ro.start != "" && lexLoadPath(o) == ro.start }, "the start the text was sliced from ("+ro.start+")")
	check("Line", func(o ssa.Value) bool {
		p := lexLoadPath(o)
		return p != "" && p != ro.start && p != ro.pos && p != ro.input
	}, "a line cell of the lexer")
	check("Type", func(o ssa.Value) bool { p, ok := o.(*ssa.Parameter); return ok && p.Parent() == emit }, "emit's parameter")
	// after the send: start = pos, startLine = line, on every path to a return
	for _, pair := range [][3]string{{"start", ro.start, ro.pos}, {"startLine", ro.startLine, ro.line}} {
		key := "lexer.(*Lexer).emit " + pair[0] + " moved up"
		if pair[1] == "" {
			r.bad(key, c.ipos(send), "the cell that plays "+pair[0]+" cannot be identified")
			continue
		}
		var after *ssa.Store
		for _, a := range c.lexAssigns(pair[1]) {
			if a.st.Parent() == emit && before(send, a.st) && a.from != "" && a.from == pair[2] && a.from != pair[1] {
				after = a.st
			}
		}
		if after == nil {
			r.bad(key, c.ipos(send), "after the send "+pair[1]+" is not moved up to the scan position: the next token starts inside (or before) this one")
			continue
		}
		all := true
		for _, ret := range returnsOf(emit) {
			if !before(after, ret) {
				all = false
			}
		}
		if all {
			r.ok(key, c.ipos(after), pair[1]+" := "+pair[2]+" on every path from the send to the return")
		} else {
			r.bad(key, c.ipos(after), "a path from the send returns without moving "+pair[1]+" up to "+pair[2])
		}
	}
	return r
}

func ruleTL2(c *Ctx) *rule {
	r := &rule{ID: "TL2", Engine: "E3", Floor: 2,
		Statement: "outside the constructor every store into the lexer's start cell stores its pos cell and every store into startLine stores line (the cells as identified in emit), and the two come together (same block); the constructor starts at offset 0, line 1",
		Necessity: "offsets are increasing and tokens do not overlap because start only ever jumps forward to the scan position; the recorded line is the line of that same position only if startLine is taken from line at the same moment"}
	ro := c.lexRoles()
	if ro.why != "" || ro.startLine == "" || ro.line == "" {
		r.undecided("lexer cursor cells", "-", "the cursor cells cannot be identified from emit ("+ro.why+")")
		return r
	}
	newF := c.fn("lexer", "New")
	seen := map[string]bool{}
	n := 0
	for _, role := range [][4]string{{"start", ro.start, ro.pos, ro.startLine}, {"startLine", ro.startLine, ro.line, ro.start}} {
		for _, a := range c.lexAssigns(role[1]) {
			st := a.st
			f := st.Parent()
			ctor := ""
			if f == newF {
				ctor = "new:" // a helper inlined into the constructor is judged there as well as in the states
			}
			if seen[ctor+c.ipos(st)+role[0]] {
				continue
			}
			seen[ctor+c.ipos(st)+role[0]] = true
			n++
			key := fmt.Sprintf("lexer %s (%s) store#%d", role[0], role[1], n)
			if f == newF {
				want := int64(0)
				if role[0] == "startLine" {
					want = 1
				}
				if a.from != "" {
					// copied from another cursor cell (start = pos after a helper moved pos): that cell must itself only hold the
					// constructor's constants at this point
					computed := ""
					for _, a2 := range c.lexAssigns(a.from) {
						if a2.st.Parent() != newF {
							continue
						}
						if a2.val == nil {
							computed = "a value the checker does not follow"
						} else if _, isC := constInt(a2.val); !isC {
							computed = condText(a2.val)
						}
					}
					if computed != "" {
						r.bad(key, c.ipos(st), fmt.Sprintf("the constructor sets %s to the lexer's %s after moving that to a computed value (%s): the text before it is never scanned, so nothing is emitted for it", role[1], a.from, computed))
					} else {
						r.ok(key, c.ipos(st), fmt.Sprintf("the constructor copies %s, which it only ever sets to constants", a.from))
					}
					continue
				}
				if a.val == nil {
					continue // set through a value the checker does not follow (not an obligation)
				}
				if k, ok := constInt(a.val); ok && k == want {
					r.ok(key, c.ipos(st), fmt.Sprintf("the constructor starts at %d", want))
				} else if ok {
					r.bad(key, c.ipos(st), fmt.Sprintf("the constructor sets %s to %d, not %d", role[1], k, want))
				} else {
					r.bad(key, c.ipos(st), fmt.Sprintf("the constructor sets %s to a computed value (%s), not %d: the text before it is never scanned", role[1], condText(a.val), want))
				}
				continue
			}
			if a.from != role[2] {
				what := a.from
				if what == "" {
					what = condText(st.Val)
				}
				r.bad(key, c.ipos(st), fmt.Sprintf("%s is set to %s, not to the lexer's %s", role[1], what, role[2]))
				continue
			}
			paired := false
			for _, a2 := range c.lexAssigns(role[3]) {
				if a2.st.Block() == st.Block() {
					paired = true
				}
			}
			if paired {
				r.ok(key, c.ipos(st), role[1]+" := "+role[2]+", together with "+role[3])
			} else {
				r.bad(key, c.ipos(st), role[1]+" is moved without "+role[3]+": offset and line of the next token are taken at different moments")
			}
		}
	}
	return r
}

func ruleTL3(c *Ctx) *rule {
	r := &rule{ID: "TL3", Engine: "E2+E3", Floor: 2,
		Statement: "the line counter (the cell emit copies into startLine) changes only by one: it is incremented only under the necessary guard that the rune just decoded from the input is '\\n', decremented only when stepping back, and set to 1 by the constructor",
		Necessity: "a token's line is one plus the number of newlines before it only if the counter moves on newlines and on nothing else"}
	ro := c.lexRoles()
	if ro.why != "" || ro.line == "" {
		r.undecided("lexer line counter", "-", "the line counter cannot be identified from emit ("+ro.why+")")
		return r
	}
	seen := map[string]bool{}
	n := 0
	newF := c.fn("lexer", "New")
	for _, a := range c.lexAssigns(ro.line) {
		st := a.st
		f := st.Parent()
		if seen[c.ipos(st)] {
			continue
		}
		seen[c.ipos(st)] = true
		n++
		key := fmt.Sprintf("lexer line (%s) store#%d", ro.line, n)
		if f == newF {
			if a.val == nil {
				continue
			}
			if k, ok := constInt(a.val); ok && k == 1 {
				r.ok(key, c.ipos(st), "the constructor starts on line 1")
			} else if ok {
				r.bad(key, c.ipos(st), "the constructor does not start on line 1")
			}
			continue
		}
		var bin *ssa.BinOp
		if a.val != nil {
			bin, _ = a.val.(*ssa.BinOp)
		}
		if bin == nil || lexLoadPath(bin.X) != ro.line {
			r.undecided(key, c.ipos(st), "the line counter is set to "+condText(st.Val)+", which is not line+1 / line-1")
			continue
		}
		k, isK := constInt(bin.Y)
		switch {
		case isK && k == 1 && bin.Op == token.SUB:
			r.ok(key, c.ipos(st), "line-1 (stepping back)")
		case isK && k == 1 && bin.Op == token.ADD:
			guarded, mixed := false, false
			for _, g := range c.info(f).necessaryGuards(st.Block()) {
				if isNewlineTest(g, true) {
					guarded = true
				} else if isNewlineTest(g, false) {
					mixed = true
				}
			}
			if guarded {
				r.ok(key, c.ipos(st), "line+1 under the necessary guard 'the decoded rune is \\n'")
			} else if why := c.unpairedStepBack(ro, f, st); mixed && why != "" {
				r.bad(key, c.ipos(st), why)
			} else if mixed {
				r.undecided(key, c.ipos(st), "the line counter is incremented when a rune equals '\\n', but that rune is not always the one decoded from the input (a substituted newline, e.g. for \\r\\n): whether increments and decrements still pair up is a value-level question")
			} else {
				r.bad(key, c.ipos(st), "the line counter is incremented without the necessary guard that the rune just decoded is '\\n'")
			}
		default:
			r.undecided(key, c.ipos(st), "the line counter moves by "+condText(bin.Y))
		}
	}
	return r
}

func ruleTL4(c *Ctx) *rule {
	r := &rule{ID: "TL4", Engine: "E3", Floor: 3,
		Statement: "the scan position (the cell emit slices up to) moves only by the width of the rune just decoded (forwards when it is consumed, backwards when it is put back), by the length of a token's fixed spelling, or by a constant; any other move (a jump to a searched-for position) is not followed by the checker",
		Necessity: "the line counter is kept by the function that consumes one rune: a move of the position that does not go through it passes newlines without counting them, and every later token carries a line that is too small"}
	ro := c.lexRoles()
	if ro.why != "" {
		r.undecided("lexer cursor cells", "-", "the cursor cells cannot be identified from emit ("+ro.why+")")
		return r
	}
	newF := c.fn("lexer", "New")
	isWidth := func(v ssa.Value) bool {
		decoded := func(x ssa.Value) bool {
			for _, o := range origins(x) {
				ex, ok := o.(*ssa.Extract)
				if !ok || ex.Index != 1 {
					return false
				}
				call, ok := ex.Tuple.(*ssa.Call)
				if !ok {
					return false
				}
				switch calleeName(call.Common()) {
				case "unicode/utf8.DecodeRuneInString", "unicode/utf8.DecodeRune", "unicode/utf8.DecodeLastRuneInString":
				default:
					return false
				}
			}
			return len(origins(x)) > 0
		}
		if decoded(v) {
			return true
		}
		w := lexLoadPath(v)
		if w == "" || w == ro.pos || w == ro.start {
			return false
		}
		n := 0
		for _, a := range c.lexAssigns(w) {
			if a.st.Parent() == newF {
				continue
			}
			if a.val != nil {
				if _, isConst := constInt(a.val); isConst {
					continue // "nothing was read" at the end of the input
				}
			}
			n++
			if a.val == nil || !decoded(a.val) {
				return false
			}
		}
		return n > 0
	}
	isSpelling := func(v ssa.Value) bool {
		call, ok := v.(*ssa.Call)
		if !ok {
			return false
		}
		b, ok := call.Common().Value.(*ssa.Builtin)
		if !ok || b.Name() != "len" {
			return false
		}
		for _, o := range origins(call.Common().Args[0]) {
			sc, ok := o.(*ssa.Call)
			if !ok || !strings.HasSuffix(calleeName(sc.Common()), "token.Type).String") {
				return false
			}
		}
		return true
	}
	seen := map[string]bool{}
	n := 0
	for _, a := range c.lexAssigns(ro.pos) {
		st := a.st
		if st.Parent() == newF {
			// the constructor starts the scan at the beginning: a position computed there (a skipped first line, a stripped
			// prefix) leaves text for which no token is ever emitted
			if a.val != nil {
				if _, isC := constInt(a.val); !isC && !seen["new:"+c.ipos(st)] {
					seen["new:"+c.ipos(st)] = true
					r.bad(fmt.Sprintf("lexer pos (%s) constructor store @%s", ro.pos, c.ipos(st)), c.ipos(st), "the constructor moves the scan position to a computed value ("+condText(a.val)+"): the text before it is never scanned and the tokens no longer tile the input")
				}
			}
			continue
		}
		if seen[c.ipos(st)] {
			continue
		}
		seen[c.ipos(st)] = true
		n++
		key := fmt.Sprintf("lexer pos (%s) store#%d", ro.pos, n)
		var bin *ssa.BinOp
		if a.val != nil {
			bin, _ = a.val.(*ssa.BinOp)
		}
		if bin == nil || (bin.Op != token.ADD && bin.Op != token.SUB) || lexLoadPath(bin.X) != ro.pos {
			r.undecided(key, c.ipos(st), "the scan position is set to "+condText(st.Val)+": not a step from the current position")
			continue
		}
		_, isConst := constInt(bin.Y)
		switch {
		case isWidth(bin.Y):
			r.ok(key, c.ipos(st), "moves by the width of the decoded rune")
		case isSpelling(bin.Y):
			r.ok(key, c.ipos(st), "moves by the length of a token's fixed spelling")
		case isConst && bin.Op == token.SUB:
			// a step back by a fixed amount: fine over text that is known (by a suffix test on the scanned text) to hold no newline;
			// over a newline it leaves the line counter one too high, because next() counted that newline when it was read
			k, _ := constInt(bin.Y)
			verdict, suffix := "none", ""
			for _, g := range c.info(st.Parent()).necessaryGuards(st.Block()) {
				call, isCall := g.cond.(*ssa.Call)
				if !isCall || !g.pol || calleeName(call.Common()) != "strings.HasSuffix" || len(call.Common().Args) != 2 {
					continue
				}
				if sfx, isS := constString(call.Common().Args[1]); isS && int64(len(sfx)) >= k {
					suffix = sfx
					if strings.Contains(sfx[len(sfx)-int(k):], "\n") {
						verdict = "newline"
					} else if verdict != "newline" {
						verdict = "plain"
					}
				}
			}
			switch verdict {
			case "plain":
				r.ok(key, c.ipos(st), fmt.Sprintf("steps back by %d over text known to end in %q (no newline)", k, suffix))
			case "newline":
				r.bad(key, c.ipos(st), fmt.Sprintf("steps back by %d over text known to end in %q: the newline in it was counted when it was read and is not taken off the line counter here, so every later token reports a line one too high", k, suffix))
			default:
				r.undecided(key, c.ipos(st), fmt.Sprintf("the scan position steps back by %d without a test of what it steps over: whether that text holds a counted newline is a value-level question", k))
			}
		case isConst:
			r.ok(key, c.ipos(st), "moves by a constant")
		default:
			r.undecided(key, c.ipos(st), "the scan position moves by "+condText(bin.Y)+": whether the text passed over contains a newline (which would go uncounted) is a value-level question")
		}
	}
	return r
}

// unpairedStepBack: the increment at st is also taken for a substituted newline (a phi edge that is the constant '\n' instead of
// the decoded rune) whose width is set, on the same edge, to a constant k - while every decrement of the line counter is
// guarded by "width == c" with c != k. Consuming such a rune and stepping back over it (peek) then leaves the counter one too
// high. Returns the description of the mismatch, or "".
func (c *Ctx) unpairedStepBack(ro *lexRoles, f *ssa.Function, st *ssa.Store) string {
	var runePhi *ssa.Phi
	for _, g := range c.info(f).necessaryGuards(st.Block()) {
		if !isNewlineTest(g, false) {
			continue
		}
		bin := g.cond.(*ssa.BinOp)
		for _, side := range []ssa.Value{bin.X, bin.Y} {
			if phi, ok := side.(*ssa.Phi); ok {
				runePhi = phi
			}
		}
	}
	if runePhi == nil {
		return ""
	}
	// the width stored on the substituted edge
	wCell, wConst := "", int64(-1)
	for i, e := range runePhi.Edges {
		k, isC := constInt(e)
		if !isC || k != '\n' {
			continue
		}
		for _, b := range f.Blocks {
			for _, in := range b.Instrs {
				ws, ok := in.(*ssa.Store)
				if !ok || lexPath(ws.Addr) == "" {
					continue
				}
				wphi, isPhi := ws.Val.(*ssa.Phi)
				if !isPhi || wphi.Block() != runePhi.Block() || i >= len(wphi.Edges) {
					continue
				}
				if wk, isK := constInt(wphi.Edges[i]); isK {
					wCell, wConst = lexPath(ws.Addr), wk
				}
			}
		}
	}
	if wCell == "" {
		return ""
	}
	// every decrement requires another width
	decs, mismatched := 0, 0
	want := int64(0)
	for _, a := range c.lexAssigns(ro.line) {
		bin, ok := a.val.(*ssa.BinOp)
		if a.val == nil || !ok || bin.Op != token.SUB || lexLoadPath(bin.X) != ro.line {
			continue
		}
		decs++
		for _, g := range c.info(a.st.Parent()).necessaryGuards(a.st.Block()) {
			gb, isBin := g.cond.(*ssa.BinOp)
			if !isBin || !((gb.Op == token.EQL && g.pol) || (gb.Op == token.NEQ && !g.pol)) {
				continue
			}
			if lexLoadPath(gb.X) != wCell {
				continue
			}
			if k, isK := constInt(gb.Y); isK && k != wConst {
				mismatched++
				want = k
				break
			}
		}
	}
	if decs > 0 && decs == mismatched {
		return fmt.Sprintf("the line counter is also incremented for a substituted newline that is consumed with %s = %d, but it is only ever decremented when %s == %d: reading such a rune and stepping back over it (peek) leaves the line one too high", wCell, wConst, wCell, want)
	}
	return ""
}

// isNewlineTest: the guard says that a rune obtained from utf8.DecodeRuneInString equals '\n' (strict: on every origin of the rune;
// otherwise: on at least one, the others being substituted values).
func isNewlineTest(g guard, strict bool) bool {
	bin, ok := g.cond.(*ssa.BinOp)
	if !ok {
		return false
	}
	if !((bin.Op == token.EQL && g.pol) || (bin.Op == token.NEQ && !g.pol)) {
		return false
	}
	x, y := bin.X, bin.Y
	if _, isC := y.(*ssa.Const); !isC {
		x, y = y, x
	}
	k, isC := y.(*ssa.Const)
	if !isC || k.Value == nil || k.Value.Kind() != constant.Int {
		return false
	}
	if n, _ := constant.Int64Val(k.Value); n != '\n' {
		return false
	}
	decoded := 0
	for _, o := range origins(x) {
		ex, ok := o.(*ssa.Extract)
		if ok && ex.Index == 0 {
			if call, isCall := ex.Tuple.(*ssa.Call); isCall {
				switch calleeName(call.Common()) {
				case "unicode/utf8.DecodeRuneInString", "unicode/utf8.DecodeRune":
					decoded++
					continue
				}
			}
		}
		if strict {
			return false
		}
	}
	return decoded > 0
}

// endOfInputTest: cond compares Lexer.pos with len(Lexer.input); holds is the truth value of cond when pos is at (or past) the end.
func endOfInputTest(ro *lexRoles, cond ssa.Value) (holds bool, ok bool) {
	bin, isBin := cond.(*ssa.BinOp)
	if !isBin {
		return false, false
	}
	isLen := func(v ssa.Value) bool {
		call, ok := v.(*ssa.Call)
		if !ok {
			return false
		}
		b, ok := call.Common().Value.(*ssa.Builtin)
		return ok && b.Name() == "len" && lexLoadPath(call.Common().Args[0]) == ro.input
	}
	switch {
	case lexLoadPath(bin.X) == ro.pos && isLen(bin.Y):
		switch bin.Op {
		case token.GEQ, token.EQL:
			return true, true
		case token.LSS, token.NEQ:
			return false, true
		}
	case isLen(bin.X) && lexLoadPath(bin.Y) == ro.pos:
		switch bin.Op {
		case token.LEQ, token.EQL:
			return true, true
		case token.GTR, token.NEQ:
			return false, true
		}
	}
	return false, false
}

// endTestCandidate: a comparison that could be another way of saying "nothing is left": with the empty string, with a
// length, or of a rune with a negative sentinel. Such a guard makes LX3 undecided rather than violated.
func endTestCandidate(cond ssa.Value) bool {
	bin, ok := cond.(*ssa.BinOp)
	if !ok {
		return false
	}
	for _, side := range []ssa.Value{bin.X, bin.Y} {
		if s, isC := constString(side); isC && s == "" {
			return true
		}
		if k, isC := side.(*ssa.Const); isC && k.Value != nil && k.Value.Kind() == constant.Int {
			if n, _ := constant.Int64Val(k.Value); n < 0 {
				return true
			}
		}
		if call, isCall := side.(*ssa.Call); isCall {
			if b, isB := call.Common().Value.(*ssa.Builtin); isB && b.Name() == "len" {
				return true
			}
		}
	}
	return false
}

func ruleLX3(c *Ctx) *rule {
	r := &rule{ID: "LX3", Engine: "E2", Floor: 1,
		Statement: "every emit(token.EOF) has the necessary guard that the scan position has reached the end of the input (pos >= len(input))",
		Necessity: "the end-of-file token is positioned at the end of the input only if it is emitted there and nowhere else: an EOF emitted on another condition (a NUL byte, an unexpected character) ends the scan early without error"}
	states, emit, _ := c.lexStates()
	eof := tokenConst(c, "EOF")
	ro := c.lexRoles()
	if ro.why != "" {
		r.undecided("lexer cursor cells", "-", "the cursor cells cannot be identified from emit ("+ro.why+")")
		return r
	}
	var fns []*ssa.Function
	for f := range states {
		fns = append(fns, f)
	}
	sort.Slice(fns, func(i, j int) bool { return fns[i].Name() < fns[j].Name() })
	n := 0
	for _, f := range fns {
		for _, site := range callSites(f) {
			if site.Common().StaticCallee() != emit || len(site.Common().Args) < 2 {
				continue
			}
			if k, isC := constInt(site.Common().Args[1]); !isC || k != eof {
				continue
			}
			n++
			key := fmt.Sprintf("lexer.%s emit(EOF)#%d", f.Name(), n)
			found, other := false, ""
			for _, g := range c.info(f).necessaryGuards(site.Block()) {
				if holds, ok := endOfInputTest(ro, g.cond); ok {
					if holds == g.pol {
						found = true
					}
				} else if endTestCandidate(g.cond) {
					other = condText(g.cond)
				}
			}
			if !found && other == "" {
				// a state of its own for the end of the input: every transition into it is guarded, and it emits before it reads
				moved := false
				for _, a := range c.lexAssigns(ro.pos) {
					if a.st.Parent() == f && (a.st.Block() == site.Block() && before(a.st, site) || a.st.Block() != site.Block() && blockReaches(a.st.Block(), site.Block())) {
						moved = true
					}
				}
				into, guardedInto := 0, 0
				for _, g := range fns {
					if g == f {
						continue
					}
					for _, ret := range returnsOf(g) {
						leads := false
						for _, o := range origins(ret.Results[0]) {
							if funcConstOf(o) == f {
								leads = true
							}
						}
						if !leads {
							continue
						}
						into++
						for _, gd := range c.info(g).necessaryGuards(ret.Block()) {
							if holds, ok := endOfInputTest(ro, gd.cond); ok && holds == gd.pol {
								guardedInto++
								break
							}
						}
					}
				}
				if !moved && into > 0 && into == guardedInto {
					r.ok(key, c.ipos(site), fmt.Sprintf("the state emits before it reads, and each of the %d transitions into it has the necessary guard pos >= len(input)", into))
					continue
				}
			}
			switch {
			case found:
				r.ok(key, c.ipos(site), "under the necessary guard pos >= len(input)")
			case other != "":
				r.undecided(key, c.ipos(site), "emit(EOF) is guarded by "+other+", which the checker does not recognise as an end-of-input test")
			default:
				r.bad(key, c.ipos(site), "emit(token.EOF) is reachable while the scan position is not at the end of the input")
			}
		}
	}
	if n == 0 {
		r.bad("lexer emit(EOF)", "-", "no state emits token.EOF: a scan never ends with an end-of-file token")
	}
	return r
}

func lexerProperties() []*propertySpec {
	return []*propertySpec{
		{ID: "C16", Title: "Tokens tile the input with exact offsets and line numbers",
			Explanation: "Decides the structural clauses of the property only. TL1 pins the single place where a token describes itself: emit sends Token{Value: input[start:pos], Pos: start, Line: startLine} and then moves start/startLine up to pos/line on every path. TL2 proves that start only ever jumps to pos (and startLine to line, together), so offsets increase and tokens cannot overlap. TL3 proves the line counter moves by one, upward only under the necessary guard that the rune just decoded is a newline. TL4 proves the scan position moves only by the width of the decoded rune, the length of a fixed token spelling or a constant (anything else is undecided). PR4 (shared with C08) proves the lexer scans the caller's string unchanged, so offsets refer to it. LX1 (shared with C08) proves a scan ends only through an ERROR token or directly after emit(EOF); LX3 proves emit(EOF) has the necessary guard pos >= len(input). The arithmetic of pos/width/line under next/backup/absorb for all inputs - whether what lies between two tokens is whitespace, whether backup restores the line after a multi-byte rune, CRLF handling - is run-time behaviour and is not decided.",
			NotCovered:  []string{"that only whitespace lies between tokens", "the value of pos/line after next/backup/absorb sequences (cursor arithmetic over all inputs)", "finiteness of the stream (progress of every state)", "line numbers across \\r\\n and multi-byte runes"},
			Assumptions: []string{"utf8.DecodeRuneInString returns the first rune of its argument", "a Go string slice input[a:b] is the bytes from a to b"},
			Rules:       []func(*Ctx) *rule{ruleTL1, ruleTL2, ruleTL3, ruleTL4, ruleLX1, ruleLX3, rulePR4}},
	}
}

package main

import (
	"encoding/json"
	"fmt"
	"go/constant"
	"os"
	"path/filepath"
	"sort"
	"strings"

	"golang.org/x/tools/go/ssa"
)

func constantStringVal(c *ssa.Const) string { return constant.StringVal(c.Value) }
func constantBoolVal(c *ssa.Const) bool     { return constant.BoolVal(c.Value) }

const (
	vOK        = "discharged"
	vViolation = "violation"
	vUndecided = "undecided"
)

// instance is one obligation of a rule on one construct.
type instance struct {
	Key     string   `json:"key"` // rule + function + construct, never a line number
	Pos     string   `json:"pos"`
	Verdict string   `json:"verdict"`
	Detail  string   `json:"detail,omitempty"`
	Path    []string `json:"path,omitempty"` // offending CFG path / call chain, when there is one
}

// rule is the outcome of running one rule.
type rule struct {
	ID        string     `json:"id"`
	Engine    string     `json:"engine"`
	Statement string     `json:"rule"`
	Necessity string     `json:"necessity"`
	Analysed  []string   `json:"analysed,omitempty"` // what was enumerated (functions, call sites, objects)
	Instances []instance `json:"instances"`
	Floor     int        `json:"min_instances"` // vacuity guard
}

func (r *rule) add(key, pos, verdict, detail string, path ...string) {
	r.Instances = append(r.Instances, instance{Key: r.ID + " " + key, Pos: pos, Verdict: verdict, Detail: detail, Path: path})
}
func (r *rule) ok(key, pos, detail string) { r.add(key, pos, vOK, detail) }
func (r *rule) bad(key, pos, detail string, path ...string) {
	r.add(key, pos, vViolation, detail, path...)
}
func (r *rule) undecided(key, pos, detail string) { r.add(key, pos, vUndecided, detail) }
func (r *rule) violated() int {
	n := 0
	for _, in := range r.Instances {
		if in.Verdict == vViolation {
			n++
		}
	}
	return n
}
func (r *rule) note(format string, args ...any) {
	r.Analysed = append(r.Analysed, fmt.Sprintf(format, args...))
}

type knownFinding struct {
	Property string `json:"property"`
	Rule     string `json:"rule"`
	Key      string `json:"key"`
	What     string `json:"what"`
	Witness  string `json:"witness,omitempty"`
}

type knownFile struct {
	Findings []knownFinding `json:"findings"`
	Fixed    []string       `json:"fixed"`
}

func loadKnown(path string) (*knownFile, error) {
	kf := &knownFile{}
	data, err := os.ReadFile(path)
	if err != nil {
		if os.IsNotExist(err) {
			return kf, nil
		}
		return nil, err
	}
	if err := json.Unmarshal(data, kf); err != nil {
		return nil, err
	}
	return kf, nil
}

func (k *knownFile) match(prop string, in instance) *knownFinding {
	for i := range k.Findings {
		f := &k.Findings[i]
		if f.Property == prop && f.Rule+" "+f.Key == in.Key {
			return f
		}
	}
	return nil
}

// propertySpec ties a property to its rules and to the prose that goes into the evidence.
type propertySpec struct {
	ID          string
	Title       string
	Explanation string
	NotCovered  []string
	Assumptions []string
	Rules       []func(c *Ctx) *rule
}

type evidence struct {
	PropertyID  string         `json:"property_id"`
	Tier        string         `json:"tier"`
	Seed        int            `json:"seed"`
	Level       string         `json:"level"`
	Coverage    map[string]any `json:"coverage"`
	Assumptions []string       `json:"assumptions"`
	WallS       float64        `json:"wall_s"`
	Violations  int            `json:"violations"`
}

type runOutcome struct {
	rules      []*rule
	violations []instance // not listed as known
	known      []struct {
		in instance
		kf *knownFinding
	}
	undecided []instance
	vacuous   []string
	lost      []string // trigger anchors that no longer resolve (one per rule that gave up)
}

// safeRule runs one rule; a lost trigger anchor ends that rule only (the other rules of the property still run, so that
// a violation they find is reported; without one the property cannot be decided).
func safeRule(rf func(*Ctx) *rule, c *Ctx, out *runOutcome) (r *rule) {
	defer func() {
		if x := recover(); x != nil {
			al, ok := x.(anchorLost)
			if !ok {
				panic(x)
			}
			dup := false
			for _, l := range out.lost {
				if l == al.what {
					dup = true
				}
			}
			if !dup {
				out.lost = append(out.lost, al.what)
			}
			r = nil
		}
	}()
	return rf(c)
}

// usesEntryConditions: rules outside engine E1 that select their call sites by the option flags under which they are reached.
var usesEntryConditions = map[string]bool{"CL2": true, "CL3": true, "CL6": true, "FX3": true, "ST4": true, "ST5": true, "ST8": true}

func evaluate(prop *propertySpec, ctxs []*Ctx, known *knownFile) *runOutcome {
	out := &runOutcome{}
	seenKey := map[string]bool{}
	for _, c := range ctxs {
		for _, rf := range prop.Rules {
			c.xIndex = 0
			r := safeRule(rf, c, out)
			if r == nil {
				continue
			}
			// the commands are executed at more than one place: the rule holds if it holds around each of them
			if xs := c.runSitesQuiet(); len(xs) > 1 {
				have := map[string]string{}
				for _, in := range r.Instances {
					have[in.Key] = in.Verdict
				}
				for xi := 1; xi < len(xs); xi++ {
					c.xIndex = xi
					ri := safeRule(rf, c, out)
					if ri == nil {
						continue
					}
					for _, in := range ri.Instances {
						if v, dup := have[in.Key]; dup && v == in.Verdict {
							continue
						}
						in.Key += fmt.Sprintf(" [commands run at %s]", c.ipos(xs[xi]))
						have[in.Key] = in.Verdict
						r.Instances = append(r.Instances, in)
					}
				}
				c.xIndex = 0
			}
			// Rules that reason with entry conditions (engine E1: which option flags guard the way to a call site) cannot relate a
			// flag to an action when the action is picked from a table of function values: what they would report as a violation
			// is then only "cannot tell".
			if tc := c.tableCalls(); len(tc) > 0 && (strings.Contains(r.Engine, "E1") || usesEntryConditions[r.ID]) {
				for i := range r.Instances {
					if r.Instances[i].Verdict == vViolation {
						r.Instances[i].Verdict = vUndecided
						r.Instances[i].Detail = "entry conditions cannot be derived, " + tc[0] + " dispatches through a table of function values; without that: " + r.Instances[i].Detail
					}
				}
			}
			if len(ctxs) > 1 {
				r.Analysed = append([]string{"GOOS=" + c.GOOS}, r.Analysed...)
			}
			out.rules = append(out.rules, r)
			if len(r.Instances) < r.Floor {
				out.vacuous = append(out.vacuous, fmt.Sprintf("%s: %d instances, at least %d expected (GOOS=%s)", r.ID, len(r.Instances), r.Floor, c.GOOS))
			}
			for _, in := range r.Instances {
				switch in.Verdict {
				case vViolation:
					if seenKey[in.Key] {
						continue
					}
					seenKey[in.Key] = true
					if kf := known.match(prop.ID, in); kf != nil {
						out.known = append(out.known, struct {
							in instance
							kf *knownFinding
						}{in, kf})
					} else {
						out.violations = append(out.violations, in)
					}
				case vUndecided:
					if !seenKey["U"+in.Key] {
						seenKey["U"+in.Key] = true
						out.undecided = append(out.undecided, in)
					}
				}
			}
		}
	}
	return out
}

func writeJSON(path string, v any) error {
	data, err := json.MarshalIndent(v, "", " ")
	if err != nil {
		return err
	}
	if err := os.MkdirAll(filepath.Dir(path), 0o755); err != nil {
		return err
	}
	return os.WriteFile(path, append(data, '\n'), 0o644)
}

func ruleIDOf(key string) string {
	if i := strings.IndexByte(key, ' '); i > 0 {
		return key[:i]
	}
	return key
}

func writeEvidence(dir string, prop *propertySpec, tier string, seed int, ctxs []*Ctx, out *runOutcome, wall float64, extra map[string]any) error {
	obl, dis := 0, 0
	distinct := map[string]bool{}
	var samples []any
	for _, r := range out.rules {
		for _, in := range r.Instances {
			obl++
			if in.Verdict == vOK {
				dis++
			}
			distinct[in.Key] = true
		}
	}
	for _, r := range out.rules {
		if len(r.Instances) > 0 && len(samples) < 6 {
			samples = append(samples, map[string]any{"rule": r.ID, "obligation": r.Instances[0]})
		}
	}
	nfun := 0
	pk := []string{}
	if len(ctxs) > 0 {
		nfun = len(ctxs[0].ModFuncs)
		for p := range ctxs[0].SSAPkgs {
			pk = append(pk, p)
		}
		sort.Strings(pk)
	}
	goos := []string{}
	for _, c := range ctxs {
		goos = append(goos, c.GOOS)
	}
	cov := map[string]any{
		"explanation":         prop.Explanation,
		"rule":                "one obligation per (rule, function, construct) enumerated from the type-checked SSA form of /repo; distinct = distinct obligation keys; every obligation is non-trivial in that it is a construct the rule's trigger matched in the current source",
		"evaluations":         obl,
		"distinct_nontrivial": len(distinct),
		"obligations":         obl,
		"discharged":          dis,
		"samples":             samples,
		"packages":            pk,
		"functions_analysed":  nfun,
		"goos":                goos,
		"rules":               out.rules,
		"not_covered":         prop.NotCovered,
		"exhaustive":          true,
		"checker_cmd":         fmt.Sprintf("/verif/bin/spokcheck -property %s -tier %s", prop.ID, tier),
		"trusted_base":        []string{"go/types, go/ssa, callgraph/vta of golang.org/x/tools v0.29.0", "the effect tables and library contracts listed under assumptions"},
	}
	if len(ctxs) > 0 {
		cov["call_graph_nodes"] = len(ctxs[0].CG.Nodes)
	}
	for k, v := range extra {
		cov[k] = v
	}
	ev := evidence{PropertyID: prop.ID, Tier: tier, Seed: seed, Level: "other", Coverage: cov,
		Assumptions: prop.Assumptions, WallS: wall, Violations: len(out.violations)}
	if ev.Assumptions == nil {
		ev.Assumptions = []string{}
	}
	return writeJSON(filepath.Join(dir, prop.ID+".json"), ev)
}

#!/usr/bin/env python3
"""Summarises what the committed catalogue (seeded/*/meta.json, refreshed by seeddetect.py --update) says about every seeded change:
reported with a VIOLATION by the check of the property it breaks / only by a sibling property's check / answered with
'cannot decide' (exit 2) only / not reported. Usage: seedstats.py [--list]"""
import json, os, sys
rows = []
for n in sorted(os.listdir("/verif/seeded")):
    p = f"/verif/seeded/{n}/meta.json"
    if not os.path.exists(p): continue
    m = json.load(open(p))
    rep = m.get("verified", {}).get("spokcheck_reports", {})
    want = m.get("property")
    viol = {k: [r for r in v if not r.startswith("exit2:")] for k, v in rep.items()}
    viol = {k: v for k, v in viol.items() if v}
    if want in viol: cls = "own"
    elif viol: cls = "sibling-only"
    elif rep: cls = "cannot-decide"
    else: cls = "not-reported"
    rows.append((n, want, cls, viol or rep))
count = {}
for _, _, c, _ in rows: count[c] = count.get(c, 0) + 1
print(f"{len(rows)} seeded changes:", ", ".join(f"{k} {v}" for k, v in sorted(count.items())))
per = {}
for n, w, c, _ in rows:
    per.setdefault(w, {}).setdefault(c, 0); per[w][c] += 1
for w in sorted(per): print(f"  {w}: " + ", ".join(f"{k} {v}" for k, v in sorted(per[w].items())))
if "--list" in sys.argv:
    for n, w, c, r in rows:
        if c != "own": print(f"  {n:22s} {c:14s} {json.dumps(r)[:160]}")

#!/usr/bin/env python3
"""Applies every behaviour-preserving variant (neutral/<id>/patch.diff, or diffs given on the command line) to a scratch worktree of
/repo and reports what spokcheck says; anything but silence is a false alarm of the checker.
Usage: neutralcheck.py [--tests] [dir-or-diff ...]"""
import os, re, shutil, subprocess, sys, tempfile
from concurrent.futures import ThreadPoolExecutor
def add_worktree(wt):
    """git worktree add takes a lock on the repository: retry when another tool holds it"""
    import time
    for attempt in range(30):
        if subprocess.call(["git","-C","/repo","worktree","add","--detach",wt,"HEAD"],stdout=subprocess.DEVNULL,stderr=subprocess.DEVNULL) == 0: return
        time.sleep(0.5 + attempt * 0.2)
    raise RuntimeError("git worktree add failed for " + wt)

ENV = dict(os.environ, GOFLAGS="-mod=mod", GOPROXY="off", GOSUMDB="off", GOTOOLCHAIN="local", GOWORK="off")
tests = "--tests" in sys.argv
args = [a for a in sys.argv[1:] if not a.startswith("--")]
items = []
if not args:
    for n in sorted(os.listdir("/verif/neutral")):
        p = f"/verif/neutral/{n}/patch.diff"
        if os.path.exists(p): items.append((n, p))
else:
    for a in args:
        if os.path.isdir(a):
            for f in sorted(os.listdir(a)):
                if f.endswith(".diff"): items.append((os.path.basename(a.rstrip('/')) + "/" + f, os.path.join(a, f)))
        else:
            items.append((os.path.basename(a), a))
def one(item):
    name, patch = item
    wt = tempfile.mkdtemp(prefix="neutral-", dir="/tmp"); os.rmdir(wt)
    try:
        add_worktree(wt)
        if subprocess.run(["git","apply",patch],cwd=wt,capture_output=True).returncode != 0:
            return name, "PATCH DOES NOT APPLY", []
        if subprocess.run("go build ./...",cwd=wt,shell=True,env=ENV,capture_output=True).returncode != 0:
            return name, "BUILD FAILS", []
        t = ""
        if tests:
            p = subprocess.run("go test -count=1 ./...",cwd=wt,shell=True,env=ENV,capture_output=True,text=True)
            t = "tests=" + ("pass" if p.returncode == 0 else "FAIL")
        p = subprocess.run([os.environ.get("SPOKCHECK_BIN",os.environ.get("SPOKCHECK_BIN","/verif/bin/spokcheck")),"-property","all","-repo",wt,"-no-evidence"],capture_output=True,text=True)
        lines = [l.strip()[:260] for l in p.stdout.splitlines() if re.match(r"\s+violated:|UNDECIDED|VACUOUS|ANCHOR-LOST|CHECKER-PANIC", l)]
        return name, ("silent" if not lines else "ALARM") + " " + t, lines
    finally:
        subprocess.call(["git","-C","/repo","worktree","remove","--force",wt],stdout=subprocess.DEVNULL,stderr=subprocess.DEVNULL)
        shutil.rmtree(wt, ignore_errors=True)
with ThreadPoolExecutor(int(os.environ.get("JOBS","6"))) as ex:
    res = list(ex.map(one, items))
subprocess.call(["git","-C","/repo","worktree","prune"])
bad = 0
for name, verdict, lines in res:
    print(f"{name:34s} {verdict}")
    for l in lines: print("      " + l)
    if not verdict.startswith("silent"): bad += 1
print(f"{len(res)} variants, {bad} not silent")

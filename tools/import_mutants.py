#!/usr/bin/env python3
"""Imports the deliverables of a mutant sub-agent (<src>/mK.diff, mK_demo_test.go, mK.md) as /verif/seeded/<pid>-<round>mK/ and
validates each with seedcheck.py. Usage: import_mutants.py <src-dir> <property-id> <round-tag e.g. r3>"""
import os, re, json, shutil, subprocess, sys
src, pid, rnd = sys.argv[1], sys.argv[2], sys.argv[3]
made = []
for k in (1, 2, 3, 4):
    if not os.path.exists(f"{src}/m{k}.diff"): continue
    d = f"/verif/seeded/{pid}-{rnd}m{k}"; os.makedirs(d, exist_ok=True)
    shutil.copy(f"{src}/m{k}.diff", f"{d}/patch.diff")
    demo = f"{src}/m{k}_demo_test.go"
    if not os.path.exists(demo) and os.path.exists(demo + ".txt"): demo += ".txt"
    shutil.copy(demo, f"{d}/demo_test.go")
    shutil.copy(f"{src}/m{k}.md", f"{d}/notes.md")
    md = open(f"{src}/m{k}.md").read()
    title = re.sub(r"^#\s*", "", md.splitlines()[0]).strip()
    m = re.search(r"^#+ [^\n]*(needed|manifest)[^\n]*\n(.*?)(?=^#+ |\Z)", md, re.S | re.M | re.I)
    needs = " ".join(m.group(2).split())[:900] if m else ""
    meta = {"id": f"{pid}-{rnd}m{k}", "property": pid, "breaks": title, "needs_to_manifest": needs,
            "source": f"independent sub-agent (round {rnd}) given only the property text and a scratch worktree of /repo (nothing from /verif)",
            "ran": "tools/seedcheck.py (scratch worktree under /tmp: demo on unchanged tree, patch applied, go build, go vet, full go test, demo with change, every spokcheck property)"}
    json.dump(meta, open(f"{d}/meta.json", "w"), indent=1)
    made.append(d)
subprocess.call(["python3", "/verif/tools/rebase_patches.py"] + made)
procs = [subprocess.Popen(["python3", "/verif/tools/seedcheck.py", d]) for d in made]
for p in procs: p.wait()
for d in made:
    m = json.load(open(d + "/meta.json"))
    print(m["id"], {k: (v["rules"] or v.get("notes")) for k, v in m["verified"].get("spokcheck_reports", {}).items()})

#!/usr/bin/env python3
"""Validates one seeded change (seeded/<id>/): on a scratch git worktree of /repo (outside /repo and /verif, removed
afterwards) it confirms that
  - the demonstration passes on the unchanged tree,
  - with patch.diff applied the tree builds and the existing test suite passes,
  - the demonstration fails with the change,
and records which spokcheck properties / rules report a violation on the changed tree.
Usage: seedcheck.py <seeded-dir> [--no-tests]   (results are merged into <seeded-dir>/meta.json under "verified")"""
import json, os, re, shutil, subprocess, sys, tempfile

ENV = dict(os.environ, GOFLAGS="-mod=mod", GOPROXY="off", GOSUMDB="off", GOTOOLCHAIN="local", GOWORK="off")
PROPS = "C01 C02 C03 C04 C05 C06 C07 C08 C09 C10 C12 C13 C14 C15 C16 C17 C18 C19 C20".split()

def sh(cmd, cwd, timeout=600):
    p = subprocess.run(cmd, cwd=cwd, env=ENV, shell=True, capture_output=True, text=True, timeout=timeout)
    return p.returncode, (p.stdout + p.stderr)

def main():
    d = os.path.abspath(sys.argv[1])
    notests = "--no-tests" in sys.argv
    demo = [f for f in os.listdir(d) if f.endswith("_test.go")]
    meta_path = os.path.join(d, "meta.json")
    meta = json.load(open(meta_path)) if os.path.exists(meta_path) else {}
    wt = tempfile.mkdtemp(prefix="seedcheck-", dir="/tmp")
    os.rmdir(wt)
    out = {"repo_head": subprocess.check_output(["git", "-C", "/repo", "rev-parse", "--short", "HEAD"], text=True).strip()}
    try:
        subprocess.check_call(["git", "-C", "/repo", "worktree", "add", "--detach", wt, "HEAD"], stdout=subprocess.DEVNULL, stderr=subprocess.DEVNULL)
        placed = []
        def place():
            for f in demo:
                first = open(os.path.join(d, f)).readline()
                m = re.match(r"//\s*place in:\s*(\S+)", first)
                dest = os.path.join(wt, m.group(1) if m else ".", "zz_" + f)
                shutil.copy(os.path.join(d, f), dest)
                placed.append(dest)
        def unplace():
            for p in placed:
                if os.path.exists(p): os.remove(p)
            placed.clear()
        def run_demo():
            pk = sorted({"./" + os.path.relpath(os.path.dirname(p), wt) for p in placed})
            names = []
            for p in placed:
                names += re.findall(r"^func (Test\w+)\(", open(p).read(), re.M)
            pat = "^(" + "|".join(names) + ")$" if names else "."
            return sh(f"go test -count=1 -run '{pat}' " + " ".join(pk), wt, timeout=900)
        if demo:
            place()
            rc, o = run_demo()
            out["demo_on_unchanged_tree"] = "pass" if rc == 0 else "FAIL"
            if rc != 0: out["demo_on_unchanged_output"] = o[-1500:]
            unplace()
        rc, o = sh("git apply " + os.path.join(d, "patch.diff"), wt)
        out["patch_applies"] = rc == 0
        if rc != 0:
            out["apply_output"] = o[-800:]
        else:
            rc, o = sh("go build ./... && go vet ./... ", wt)
            out["builds_with_change"] = rc == 0
            if not notests:
                rc, o = sh("go test -count=1 ./... 2>&1", wt)
                out["existing_tests_with_change"] = "pass" if rc == 0 else "FAIL"
                if rc != 0: out["existing_tests_output"] = o[-1500:]
            if demo:
                place()
                rc, o = run_demo()
                out["demo_with_change"] = "fails (as intended)" if rc != 0 else "PASSES (change not demonstrated)"
                out["demo_with_change_tail"] = "\n".join([l for l in o.splitlines() if "---" in l or "demo" in l.lower() or "FAIL" in l][:6])
                unplace()
            fired = {}
            rc, o = sh(f"/verif/bin/spokcheck -property all -repo {wt} -no-evidence", wt, timeout=1800)
            cur = None
            for l in o.splitlines():
                m = re.match(r"== (C\d+)", l)
                if m: cur = m.group(1)
                m = re.match(r"\s+violated: (\S+)", l)
                if m: fired.setdefault(cur, {"exit": 1, "rules": []})["rules"].append(m.group(1))
                m = re.match(r"(UNDECIDED|VACUOUS|CHECKER-ERROR|CHECKER-PANIC) property=(C\d+)", l)
                if m: fired.setdefault(m.group(2), {"exit": 2, "rules": []}).setdefault("notes", []).append(l[:200])
            for v in fired.values(): v["rules"] = sorted(set(v["rules"]))
            out["spokcheck_reports"] = fired
    finally:
        subprocess.call(["git", "-C", "/repo", "worktree", "remove", "--force", wt], stdout=subprocess.DEVNULL, stderr=subprocess.DEVNULL)
        shutil.rmtree(wt, ignore_errors=True)
        subprocess.call(["git", "-C", "/repo", "worktree", "prune"])
    meta["verified"] = out
    json.dump(meta, open(meta_path, "w"), indent=1)
    want = meta.get("property")
    det = sorted(out.get("spokcheck_reports", {}).keys())
    print(f"{os.path.basename(d)}: demo clean={out.get('demo_on_unchanged_tree')} tests={out.get('existing_tests_with_change')} demo changed={out.get('demo_with_change')} detected_by={det} (breaks {want})")

main()

#!/usr/bin/env python3
"""Regenerates MANIFEST.json from the table below (kept in one place so it is always schema-valid)."""
import json, sys, subprocess

CLAIMED = {
 "C01": ("CP1 CP3 CP6 CP9 CP10 CP12 TK2; supporting HS2 HS3 HS5 HS6 HS7 HS8 HE1 GL1-GL4", "edge-dominance + exhaustive CFG path search + backward slicing over go/ssa (run loop cache events)",
         "structural necessary conditions on every path of the run loop: skip only under digest equality with the loaded cache entry of the same task; no path from a successful run leaves a stale digest on disk; every declared file input reaches the hasher (and every string dependency of the syntax tree reaches one of the two input fields); the old digest is never re-instated after a success; the cache persists exactly its own map; glob expansion precedes the loop; (supporting, shared with C04/C05/C18) the digest covers every listed file's whole content and path, a hashing error stops the run, glob expansion records every non-hidden match under the spokfile directory",
         "not covered: change-sensitivity of the digest (C04), correctness of glob expansion (C05), races between hashing and running. Trusted: go/ssa + VTA of x/tools v0.29.0, encoding/json and os.WriteFile contracts, the effect-based recognition of the cache API"),
 "C02": ("CP2 CP3L CP5 CP11 CP13 TK6 AB1 AB2; supporting HS1 HS2 HS5 HS7 HS8 GL3 TK5", "control-dependence + backward slice non-interference analysis and must-pass-through path search over go/ssa",
         "no decision of one loop iteration (run, skip, record, persist) reads loop-carried state of other tasks; every successful run is recorded and persisted on all paths; an empty input list can never be skipped; a recorded digest is only forgotten for a task whose commands are then run (or it is written back); a task's file inputs are its declared dependencies and are written nowhere but in task.New; the project root is absolute and derives from the discovered spokfile; (supporting, shared with C04/C05) the digest is independent of arrival order and of anything but path and content, the expansion root/pattern are the same on every run, a string is a glob exactly when it contains '*'",
         "not covered: that equal inputs give equal digests (C04) and the value-level outcome of the comparison. Same trusted base as C01"),
 "C03": ("GR1-GR8 ST7 TK1", "call-graph cycle / work-list detection, argument slicing, edge-dominance and per-iteration path enumeration over go/ssa",
         "dependency discovery has feedback (recursion or work list); AddEdge goes dependency -> dependent; every use of the Sort result is dominated by len(order)==graph.Order() with an erroring mismatch; undefined and duplicate names end in errors; every identifier dependency of the syntax tree reaches Task.TaskDependencies unconditionally; the whole request list is handed to one Run call; the run loop visits the unmodified order (no re-ordering through any alias) front to back with exactly one run/skip event and one result per iteration",
         "not covered: correctness of Kahn's algorithm inside collections/dag (its contract, incl. the silent truncation on cycles, is read from the module cache and trusted)"),
 "C04": ("HS1-HS5 HS8; supporting AB1 AB2", "goroutine-topology recovery (alias propagation through closures/parameters), dominance of the sort over every consumer, origin tracing, path enumeration and interval evaluation over go/ssa",
         "the only arrival-ordered slice reaching the digest is sorted with a whole-element comparator before use; each item is sha256 of the whole file opened on the job path plus that unchanged path; items are never folded arithmetically; one item per non-directory job; every element of the list becomes a job; at least one worker for a non-empty list",
         "not covered: injectivity of hash||path framing, SHA-256 collisions, duplicate paths (value-level)"),
 "C05": ("GL1-GL4 TK2 TK5 AB2; supporting HS7", "edge-dominance and path enumeration in the GlobWalk callback + interprocedural slicing of fsys/pattern/keys over go/ssa",
         "the GlobWalk callback never returns SkipDir/SkipAll; exactly one append per non-hidden nil return; walked FS is os.DirFS(SpokFile.Dir), pattern unchanged, Globs keyed by the expanded pattern; nothing but loop/err/already-expanded(miss, non-empty hit) guards the expansion",
         "not covered: the doublestar matcher, the exact hidden-name predicate, symlinks"),
 "C06": ("KW1 PS1 PS2 TL1 TL2 PR4 FM6 FM3 FM5 TK4", "lexer state-graph hand-over guards (edge dominance) + origin tracing of token text into node text over go/ssa",
         "the structural clauses of parse fidelity only: the task keyword is recognised as a whole word (names that start with it stay names); a string literal's text is its token's text minus the quotes and Literal() returns the field; a token's text is the input between the cursor cells; lexer and parser work on the file as read; one tree node per statement, no parsed comment dropped, one command per command token",
         "not covered (value-level, declined): equality of the parse result with the written structure for every layout - the lexer's cursor arithmetic under whitespace, CRLF (commands keep a trailing \\r on CRLF input today), trailing commas, one-line bodies, non-ASCII letters; that each element lands in the right list"),
 "C07": ("KW1 WR1 FM1 FM7 FX2 PS1 PS2 FM6 ST9", "field-completeness and full-range loop analysis of every node printer + edge dominance in the lexer state graph + effect/provenance analysis of the --fmt write over go/ssa",
         "the structural necessary conditions of the format round trip only: the keyword is a whole word; every printer of a compound node writes every field and, for every list field, every element on every way round a front-to-back loop (no filter, no re-ordering); no top-level node prints as nothing and Tree.Write prints each node once in order; nothing outside parser/ast overwrites the tree between Parse and String; --fmt writes exactly Tree.String() of the parse result and only after parsing and loading succeeded; string text is token text minus quotes; no spokfile text is used as a format string",
         "not covered (value-level, declined): that the printed text re-lexes to an equal tree for every input (quotes inside strings, trailing blanks of commands, CRLF); equality of the re-parsed tree"),
 "C08": ("PR1-PR6 LX1 LX2 FM6; supporting TL3 TL4", "typed-syntax-tree object identity checks + lexer state-function graph reachability + loop progress path search",
         "every ERROR arm reports the tested token's own Value; every illegalToken quotes the line of the token it cites; the scan ends only via an ERROR token or emit(EOF); a task body cannot reach EOF without RBRACE or error; every parser token loop advances and leaves on ERROR; no line scanner with an unconsulted Err() in lexer/parser/ast; no loop over a map in those packages is left from inside its body or sends from it (results do not depend on map iteration order). Decides these clauses only, not totality/no-panic over all byte strings",
         "not covered: absence of panics and cursor arithmetic over all inputs (declined, value-level); line numbers within range"),
 "C09": ("SH1 SH2 SH3 RT1-RT5 GR6 CP8; supporting CP1 CP10 HS6", "error-flow discipline check (non-nil edge must end in non-nil error returns) along the whole call chain + loop/guard shape analysis over go/ssa",
         "the interpreter runs with errexit and its exit status reaches Result.Status or the returned error; no exec handler of the module answers a command with a nil error of its own; Ok() methods are Status==0 / conjunctions; every caller of SpokFile.Run examines every result unconditionally and fails on the first not-Ok; errors propagate on every call edge to Runner.Run; main reports on real stderr and exits non-zero; digests recorded only under Ok(); (supporting, shared with C01) a skip requires digest equality and the old digest is only re-instated after a failure",
         "not covered: exit-status computation inside mvdan.cc/sh; flag validation inside the CLI library"),
 "C10": ("CP4 CP7 CP8 CP12; supporting HS6 CP1", "ordering (must-precede) analysis on the intra-iteration CFG + error-edge discipline check over go/ssa",
         "crash points are covered by ordering constraints that hold on every CFG path: the recorded digest is invalidated and persisted before the commands start, a new digest is recorded only under Ok() of those commands, and a cache file that cannot be read/decoded always ends in an error",
         "not covered: atomicity of os.WriteFile beyond 'a torn JSON document does not decode' (encoding/json contract), kill during first-time cache.Init"),
 "C12": ("CL1-CL4 CL6 CL7 TK3 GL2; supporting GL1 GL3 TK5 AB2 FD4", "effect inventory with interprocedural entry conditions (greatest fixpoint) + provenance slicing of every removal argument + containment-guard search over go/ssa",
         "every os.Remove/RemoveAll is under Clean==true and HasTask(clean)==false; removed paths derive only from output fields / their Vars and Globs indirections / SpokFile.Dir+cache constant; every output kind reaches the removal; every output of the syntax tree reaches one of the three output fields; glob expansion records every non-hidden match (directories included); a separator-safe test relating each path to SpokFile.Dir with an erroring side precedes any removal; (supporting, shared with C05/C17) output globs are expanded over the spokfile directory with the declared pattern and no directory-dropping option, a string is a glob exactly when it contains '*', the spokfile is the one discovery settled",
         "not covered: correctness of the containment predicate for every path string; directories matched by output globs"),
 "C13": ("EN1-EN6 TK4 PS1 PS2", "data-flow chain verification by backward slicing with object flow (templates, buffers) over go/ssa",
         "os.Environ() precedes the spokfile variables in the list given to expand.ListEnviron (last duplicate wins); the Vars -> KEY=VALUE -> Task.Run -> Runner.Run -> interp.Env chain is unbroken; Task.Commands is text/template output over the AST command text with the variables map; variables are filed under their identifier and builtin errors propagate; one Task.Commands element per command, never re-cut from expanded text; a string literal is its token text minus the quotes; the environment list is not re-ordered",
         "not covered: value semantics of join/exec and of text/template; shell quoting"),
 "C14": ("CP1f CP3f CP10; supporting CP1 CP3L CP6 GL4 CP12 HS6", "edge-dominance of force==false over every skip + force-restricted CFG path search over go/ssa",
         "no 'skipped' store is reachable with force set; on the force==true paths a successful run never leaves a stale digest on disk; the force parameter is fed from Options.Force; (supporting, shared with C01/C05) the digest a forced run records is the digest of this iteration's inputs, computed over all inputs with globs expanded",
         "not covered: flag parsing inside the CLI library"),
 "C15": ("FM1-FM7; supporting FX2 ST9 TL2", "may-be-empty string analysis of every String() return + edge-dominance of the docstring guard + per-iteration path enumeration over go/ssa",
         "no appended node type can print as the empty string; Tree.Write prints every node once in order; a comment becomes a docstring only when the very next token is the task keyword and never across iterations; Task.String prints it before the keyword; one Append per parse-loop iteration; a parsed comment is never dropped on a non-failing path; the parser is handed the file as read",
         "not covered: preservation of comment text and order (value-level)"),
 "C16": ("TL1-TL4 LX1 LX3 PR4", "shape analysis of the single emission site and of every store into the lexer's cursor fields (origin tracing, necessary-guard dominance, state-graph exits) over go/ssa",
         "the structural clauses only: emit sends Token{Value: input[start:pos], Pos: start, Line: startLine} and then moves start/startLine to pos/line on every path; start only ever jumps to pos and startLine to line, together; the line counter moves by one and upward only under the necessary guard 'the decoded rune is a newline'; the scan position moves only by a decoded rune's width, a fixed spelling's length or a constant; the lexer scans the caller's string unchanged; a scan ends only through an ERROR token or directly after emit(EOF); emit(EOF) has the necessary guard pos >= len(input)",
         "not covered (run-time arithmetic, declined): that only whitespace lies between tokens, the value of pos/line after next/backup/absorb sequences for all inputs, CRLF and multi-byte runes, finiteness of the stream"),
 "C17": ("FD1 FD3 FD4 FD5 FD6 FD7 AB2", "loop exit-test classification by backward slicing (directory-dependent, content-independent, dominates the back edge) over go/ssa",
         "the upward walk has a content-independent exit test on every iteration and one that fires at the root; no negative answer from inside the entries loop; the hit is guarded by Name()==NAME and !IsDir() of the same entry; the stop comparison is on the listed directory after its entries were read; the walk starts in, and compares with, canonically spelled (filepath.Abs/Clean) directories; the CLI passes cwd/home",
         "not covered: symlinks, permission errors other than being reported; filepath.Dir fixed point at the root is a library fact"),
 "C18": ("CC1-CC10 HE1; supporting HS3", "concurrency-shape analysis: channel/WaitGroup alias propagation, nil-dereference-after-error check, send-on-all-paths search, close/Wait ordering, drain-loop exits, shared-memory ownership, interval bound",
         "shape conditions that are sufficient (argument in the evidence) for crash-, deadlock-, leak- and race-freedom of the producer/jobs/workers/results/collector topology under every schedule; any other topology makes the check undecided; every caller of Hash stops on its error",
         "trusted: Go memory model for channels/WaitGroup; os.Open/Stat nil-with-error contract. Not covered: panics inside the standard library, a read that blocks forever"),
 "C19": ("FX1 FX2 FX3 FX4 FX6 CL1 CL3 CL4; supporting AB1 AB2 FD4 GR5 EN4 EN3", "effect analysis: frozen effect tables + call-site inventory + interprocedural entry conditions + path-root provenance slicing over go/ssa/VTA",
         "every file-mutating primitive call of the module is either under an explicit action flag or rooted in <SpokFile.Dir>/<cache>; the --fmt write targets Options.Spokfile with Tree.String() after Parse and file.New succeeded; --init is guarded by an existence test of the same path and appends to .gitignore; listing branches reach no mutation; the logger has no file sink; (supporting, shared with C02/C17/C03/C13) the cache directory's root is the discovered spokfile's directory, and file.New fails on duplicate tasks and failing builtins so that --fmt never rewrites a spokfile that does not load",
         "trusted: the effect tables of DESIGN.md appendix B (an unlisted external callee makes the check undecided). Not covered: effects of user commands / exec builtins (excluded by the property)"),
 "C20": ("ST1-ST10 GR6 RT4; supporting GR8 EN3 TK4 EN4 EN5", "effect inventory of stdout writers with entry conditions + dominance of the stream silencing + buffer/stream pairing by origin tracing + sorted-before-write dominance over go/ssa",
         "the only direct stdout write prints Results.JSON() under Options.JSON; JSON() marshals the untouched SpokFile.Run result (no element store, re-ordering or append to a re-slice through any alias) with the expected tags; --quiet/--json install the Null stream before any reader; capture buffers pair with the right stream and result fields; listings collect, sort, then write; no printf-style call of the module has a run-time format; default dispatch runs 'default' or lists; the logger is not given standard output as a sink; (supporting, shared with C03/C13) SpokFile.Run is called once with the whole request, commands are expanded with text/template, one entry per command",
         "not covered: encoding/json rendering, tabwriter layout, docstring text"),
}

NA_FINAL = {
 "C11": "idempotence is an equality of two run-time strings (format(format(x)) == format(x)); the structural facts behind it - the printer is a function of the tree, every node is printed - are what C07's WR1/FM1 already decide, and every change written against C11 by an independent sub-agent broke it through the value of a string (a blank trimmed once per pass, a list printed in the single form from a de-duplicated count, a line ending doubled); claiming it on those rules would show green on a tree the property author names as violating it (DESIGN.md section 6)",
}

def main():
    props = [json.loads(l) for l in open("/verif/properties.jsonl")]
    ids = [p["id"] for p in props]
    checks = []
    for pid in ids:
        if pid not in CLAIMED: continue
        rules, technique, text, note = CLAIMED[pid]
        checks.append({
            "property_id": pid,
            "quick_cmd": f"/verif/bin/spokcheck -property {pid} -tier quick",
            "thorough_cmd": f"/verif/bin/spokcheck -property {pid} -tier thorough",
            "evidence_file": f"/verif/evidence/{pid}.json",
            "replay_cmd_template": f"/verif/bin/spokcheck -property {pid} -explain  # obligation in {{path}}",
            "engine": "spokcheck",
            "level_claimed": {"category": "other",
                              "text": f"static analysis (rules {rules}): decides, for every path of the current source, {text}. A pass means no path of the code breaks these necessary conditions; it does not observe behaviour.",
                              "design_ref": f"DESIGN.md section 4 ({pid})"},
            "level_note": note,
            "technique": technique,
        })
    na = []
    for pid in ids:
        if pid in CLAIMED: continue
        reason = NA_FINAL.get(pid, "static check for this property is designed (DESIGN.md section 4) but not built yet in this snapshot; not claimed until it is")
        na.append({"property_id": pid, "reason": reason})
    man = {
        "version": 1,
        "setup_cmd": "cd /verif/checker && GOFLAGS=-mod=mod GOPROXY=off GOSUMDB=off GOTOOLCHAIN=local GOWORK=off go build -o /verif/bin/spokcheck .",
        "hooks": {"guard": "verif", "enable": "none needed: the checker reads the source of /repo (go/packages + go/ssa), nothing in /repo is instrumented",
                  "baseline_off_cmd": "cd /repo && GOFLAGS=-mod=mod GOPROXY=off GOSUMDB=off go test -count=1 ./...",
                  "source_commits": [], "add_only": True},
        "engines": [{"name": "spokcheck", "path": "/verif/checker", "serves_properties": [c["property_id"] for c in checks],
                     "kind_free_text": "custom static analyses (edge dominance, control dependence, light path-sensitive CFG path search, backward slicing, effect/entry-condition analysis) on go/packages + go/ssa + VTA call graph of golang.org/x/tools v0.29.0, run on a canonical form of the module (static helper calls, called closures and deferred calls inlined; freed cells promoted to registers)"}],
        "checks": checks,
        "notes": "Family: static analysis. Every check re-loads and type-checks /repo's working tree on each run; exit 0 = all obligations discharged, exit 1 + VIOLATION line = an obligation violated at a named construct, exit 2 = the checker cannot decide (anchor lost / undecided). Known findings: /verif/known_findings.json (14 fixed, none open). The thorough tier adds GOOS linux/darwin/windows and a self-test of the checker against /verif/seeded (must be reported) and /verif/neutral (must stay silent) on scratch copies.",
        "not_applicable": na,
    }
    json.dump(man, open("/verif/MANIFEST.json", "w"), indent=1)
    print("claimed", [c["property_id"] for c in checks], "n/a", [n["property_id"] for n in na])

main()

#!/usr/bin/env python3
"""Cross-check: every seeded (property-breaking) change is combined with behaviour-preserving variants from /verif/neutral that
still apply on top of it and build; the combination must still be reported (VIOLATION for some property), as the seeded change alone is.
Usage: crosscheck.py [--per N] [--seed S] [name-filter ...]   (scratch worktrees under /tmp, removed afterwards)"""
import json, os, random, re, shutil, subprocess, sys, tempfile
from concurrent.futures import ThreadPoolExecutor
def add_worktree(wt):
    """git worktree add takes a lock on the repository: retry when another tool holds it"""
    import time
    for attempt in range(30):
        if subprocess.call(["git","-C","/repo","worktree","add","--detach",wt,"HEAD"],stdout=subprocess.DEVNULL,stderr=subprocess.DEVNULL) == 0: return
        time.sleep(0.5 + attempt * 0.2)
    raise RuntimeError("git worktree add failed for " + wt)

ENV = dict(os.environ, GOFLAGS="-mod=mod", GOPROXY="off", GOSUMDB="off", GOTOOLCHAIN="local", GOWORK="off")
BIN = os.environ.get("SPOKCHECK_BIN", "/verif/bin/spokcheck")
args = sys.argv[1:]
per = 2; seed = 1; flt = []
while args:
    a = args.pop(0)
    if a == "--per": per = int(args.pop(0))
    elif a == "--seed": seed = int(args.pop(0))
    else: flt.append(a)
neutral = sorted(n for n in os.listdir("/verif/neutral") if os.path.exists(f"/verif/neutral/{n}/patch.diff"))
seeded = sorted(n for n in os.listdir("/verif/seeded") if os.path.isdir(f"/verif/seeded/{n}") and (not flt or any(f in n for f in flt)))
def run(name):
    meta = json.load(open(f"/verif/seeded/{name}/meta.json"))
    base = meta.get("verified", {}).get("spokcheck_reports", {})
    base_viol = any(any(not str(r).startswith("exit2") for r in (v if isinstance(v, list) else v.get("rules", []))) for v in base.values())
    rnd = random.Random(f"{seed}:{name}")
    order = neutral[:]; rnd.shuffle(order)
    out = []
    for nv in order:
        if len(out) >= per: break
        wt = tempfile.mkdtemp(prefix="cross-", dir="/tmp"); os.rmdir(wt)
        try:
            add_worktree(wt)
            if subprocess.run(["git","apply",f"/verif/seeded/{name}/patch.diff"],cwd=wt,capture_output=True).returncode != 0: break
            if subprocess.run(["git","apply",f"/verif/neutral/{nv}/patch.diff"],cwd=wt,capture_output=True).returncode != 0: continue
            if subprocess.run("go build ./...",cwd=wt,shell=True,env=ENV,capture_output=True).returncode != 0: continue
            p = subprocess.run([BIN,"-property","all","-repo",wt,"-no-evidence"],capture_output=True,text=True)
            viol = sorted(set(re.findall(r"^\s+violated: (\S+)", p.stdout, re.M)))
            ex2 = sorted(set(re.findall(r"^CHECKER-ERROR property=(C\d+)", p.stdout, re.M)))
            out.append((nv, viol, ex2))
        finally:
            subprocess.call(["git","-C","/repo","worktree","remove","--force",wt],stdout=subprocess.DEVNULL,stderr=subprocess.DEVNULL)
            shutil.rmtree(wt, ignore_errors=True)
    return name, base_viol, out
with ThreadPoolExecutor(int(os.environ.get("JOBS","6"))) as ex:
    res = list(ex.map(run, seeded))
subprocess.call(["git","-C","/repo","worktree","prune"])
lost = 0; n = 0
for name, base_viol, out in res:
    for nv, viol, ex2 in out:
        n += 1
        status = "reported" if viol else ("cannot-decide" if ex2 else "SILENT")
        flag = ""
        if base_viol and not viol:
            lost += 1; flag = "  <-- reported alone, not in combination"
        print(f"{name:28s} + {nv:18s} {status:14s} {','.join(viol) or ','.join(ex2)}{flag}")
print(f"{n} combinations, {lost} lost a report that the seeded change alone gets")

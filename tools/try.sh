#!/bin/bash
# try.sh <seeded-or-neutral-dir> <property|all> : apply the patch to a scratch worktree of /repo, run spokcheck, clean up
d=$(realpath $1); p=${2:-all}
wt=$(mktemp -d -u /tmp/try-XXXXXX)
git -C /repo worktree add --detach $wt HEAD -q 2>/dev/null
(cd $wt && git apply $d/patch.diff) || echo "PATCH DOES NOT APPLY"
/verif/bin/spokcheck -property $p -repo $wt -no-evidence 2>&1 | grep -v "^  rule\|^canonicalised\|^loaded\|^OK "
git -C /repo worktree remove --force $wt; rm -rf $wt

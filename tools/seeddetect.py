#!/usr/bin/env python3
"""Re-runs spokcheck on every seeded change (scratch worktree per change, removed afterwards) and prints which
properties report a violation. Does not re-run demos or the test suite (seedcheck.py does that).
Usage: seeddetect.py [--update] [name-filter]"""
import json, os, re, shutil, subprocess, sys, tempfile
from concurrent.futures import ThreadPoolExecutor
def add_worktree(wt):
    """git worktree add takes a lock on the repository: retry when another tool holds it"""
    import time
    for attempt in range(30):
        if subprocess.call(["git","-C","/repo","worktree","add","--detach",wt,"HEAD"],stdout=subprocess.DEVNULL,stderr=subprocess.DEVNULL) == 0: return
        time.sleep(0.5 + attempt * 0.2)
    raise RuntimeError("git worktree add failed for " + wt)

PROPS = "C01 C02 C03 C04 C05 C06 C07 C08 C09 C10 C12 C13 C14 C15 C16 C17 C18 C19 C20".split()
update = "--update" in sys.argv
flt = [a for a in sys.argv[1:] if not a.startswith("--")]
def one(name):
    d = f"/verif/seeded/{name}"
    wt = tempfile.mkdtemp(prefix="seeddet-", dir="/tmp"); os.rmdir(wt)
    try:
        add_worktree(wt)
        p = subprocess.run(["git","apply",f"{d}/patch.diff"],cwd=wt,capture_output=True,text=True)
        if p.returncode != 0:
            return name, None, "PATCH DOES NOT APPLY"
        p = subprocess.run([os.environ.get("SPOKCHECK_BIN","/verif/bin/spokcheck"),"-property","all","-repo",wt,"-no-evidence"],capture_output=True,text=True)
        fired = {}
        cur = None
        for l in p.stdout.splitlines():
            m = re.match(r"== (C\d+)", l)
            if m: cur = m.group(1)
            m = re.match(r"\s+violated: (\S+)", l)
            if m: fired.setdefault(cur, []).append(m.group(1))
            m = re.match(r"(UNDECIDED|VACUOUS|CHECKER-ERROR|CHECKER-PANIC) property=(C\d+)", l)
            if m: fired.setdefault(m.group(2), []).append("exit2:" + m.group(1))
        return name, fired, ""
    finally:
        subprocess.call(["git","-C","/repo","worktree","remove","--force",wt],stdout=subprocess.DEVNULL,stderr=subprocess.DEVNULL)
        shutil.rmtree(wt, ignore_errors=True)
names = sorted(n for n in os.listdir("/verif/seeded") if os.path.isdir(f"/verif/seeded/{n}") and (not flt or any(f in n for f in flt)))
with ThreadPoolExecutor(int(os.environ.get("JOBS","6"))) as ex:
    res = list(ex.map(one, names))
subprocess.call(["git","-C","/repo","worktree","prune"])
miss = 0
for name, fired, err in res:
    meta = json.load(open(f"/verif/seeded/{name}/meta.json"))
    want = meta.get("property")
    if fired is None:
        print(f"{name:40s} {err}"); miss += 1; continue
    rules = {k: sorted(set(v)) for k, v in fired.items()}
    hit = "own" if want in rules else ("other" if rules else "MISSED")
    if not rules: miss += 1
    print(f"{name:40s} breaks {want}: {hit:6s} {json.dumps(rules)}")
    if update:
        meta.setdefault("verified", {})["spokcheck_reports"] = rules
        meta["verified"]["detected"] = bool(rules)
        json.dump(meta, open(f"/verif/seeded/{name}/meta.json","w"), indent=1)
print(f"{len(res)} seeded changes, {miss} not detected")

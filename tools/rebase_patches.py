#!/usr/bin/env python3
"""Re-bases every patch.diff under seeded/ and neutral/ (or the directories given) that no longer applies to /repo's HEAD:
a scratch worktree of HEAD (under /tmp, removed afterwards), `git apply --3way` (the pre-image blobs named in the diff are in /repo's object
store), the result written back with `git diff HEAD`. Patches that still apply are left alone; conflicts are listed.
Usage: rebase_patches.py [dir ...]"""
import os, shutil, subprocess, sys, tempfile
dirs = sys.argv[1:] or [f"/verif/{k}/{n}" for k in ("seeded", "neutral") for n in sorted(os.listdir(f"/verif/{k}"))]
wt = tempfile.mkdtemp(prefix="rebase-", dir="/tmp"); os.rmdir(wt)
subprocess.check_call(["git","-C","/repo","worktree","add","--detach",wt,"HEAD"],stdout=subprocess.DEVNULL,stderr=subprocess.DEVNULL)
ok = rebased = 0; bad = []
try:
    for d in dirs:
        p = os.path.join(d, "patch.diff")
        if not os.path.exists(p): continue
        if subprocess.run(["git","apply","--check",p],cwd=wt,capture_output=True).returncode == 0:
            ok += 1; continue
        r = subprocess.run(["git","apply","--3way",p],cwd=wt,capture_output=True,text=True)
        st = subprocess.run(["git","diff","--name-only","--diff-filter=U"],cwd=wt,capture_output=True,text=True).stdout.strip()
        if r.returncode == 0 and not st:
            diff = subprocess.run(["git","diff","HEAD"],cwd=wt,capture_output=True,text=True).stdout
            open(p,"w").write(diff); rebased += 1; print("rebased", d)
        else:
            bad.append(d); print("CONFLICT", d, r.stderr.strip().splitlines()[-1:] )
        subprocess.call(["git","reset","-q","--hard","HEAD"],cwd=wt); subprocess.call(["git","clean","-fdq"],cwd=wt)
finally:
    subprocess.call(["git","-C","/repo","worktree","remove","--force",wt],stdout=subprocess.DEVNULL,stderr=subprocess.DEVNULL)
    shutil.rmtree(wt, ignore_errors=True)
print(f"{ok} apply as they are, {rebased} rebased, {len(bad)} conflicts")

#!/usr/bin/env python3
"""Regenerates MANIFEST.json from the table below (kept in one place so it is always schema-valid)."""
import json, sys, subprocess

CLAIMED = {
 "C01": ("CP1 CP3 CP6 CP9", "edge-dominance + exhaustive CFG path search + backward slicing over go/ssa (run loop cache events)",
         "structural necessary conditions on every path of the run loop: skip only under digest equality with the loaded cache entry of the same task; no path from a successful run leaves a stale digest on disk; every declared file input reaches the hasher; glob expansion precedes the loop",
         "not covered: change-sensitivity of the digest (C04), correctness of glob expansion (C05), races between hashing and running. Trusted: go/ssa + VTA of x/tools v0.29.0, encoding/json and os.WriteFile contracts, the effect-based recognition of the cache API"),
 "C02": ("CP2 CP3L CP5", "control-dependence + backward slice non-interference analysis and must-pass-through path search over go/ssa",
         "no decision of one loop iteration (run, skip, record, persist) reads loop-carried state of other tasks; every successful run is recorded and persisted on all paths; an empty input list can never be skipped",
         "not covered: that equal inputs give equal digests (C04) and the value-level outcome of the comparison. Same trusted base as C01"),
 "C10": ("CP4 CP7 CP8", "ordering (must-precede) analysis on the intra-iteration CFG + error-edge discipline check over go/ssa",
         "crash points are covered by ordering constraints that hold on every CFG path: the recorded digest is invalidated and persisted before the commands start, a new digest is recorded only under Ok() of those commands, and a cache file that cannot be read/decoded always ends in an error",
         "not covered: atomicity of os.WriteFile beyond 'a torn JSON document does not decode' (encoding/json contract), kill during first-time cache.Init"),
 "C14": ("CP1f CP3f", "edge-dominance of force==false over every skip + force-restricted CFG path search over go/ssa",
         "no 'skipped' store is reachable with force set; on the force==true paths a successful run never leaves a stale digest on disk; the force parameter is fed from Options.Force",
         "not covered: flag parsing inside the CLI library"),
}

NA_FINAL = {
 "C06": "parse fidelity is an equality between a generated structure and the parser's output over all layouts; it is decided by the lexer's run-time cursor arithmetic, no clause is visible in the shape of the code (DESIGN.md section 6)",
 "C07": "format-then-parse equivalence is a round-trip equality over all inputs; the only structural clauses are pinned by existing ast tests and say nothing about re-lexing (DESIGN.md section 6)",
 "C11": "idempotence is an equality of two run-time strings; no structural necessary condition beyond the printer being a pure function (DESIGN.md section 6)",
 "C16": "token tiling/offset/line invariants are run-time arithmetic over pos/start/line/width for all inputs; a typestate rule for the cursor discipline fires on code where no property is affected (DESIGN.md section 6)",
}

def main():
    props = [json.loads(l) for l in open("/verif/properties.jsonl")]
    ids = [p["id"] for p in props]
    checks = []
    for pid in ids:
        if pid not in CLAIMED: continue
        rules, technique, text, note = CLAIMED[pid]
        checks.append({
            "property_id": pid,
            "quick_cmd": f"/verif/bin/spokcheck -property {pid} -tier quick",
            "thorough_cmd": f"/verif/bin/spokcheck -property {pid} -tier thorough",
            "evidence_file": f"/verif/evidence/{pid}.json",
            "replay_cmd_template": f"/verif/bin/spokcheck -property {pid} -explain  # obligation in {{path}}",
            "engine": "spokcheck",
            "level_claimed": {"category": "other",
                              "text": f"static analysis (rules {rules}): decides, for every path of the current source, {text}. A pass means no path of the code breaks these necessary conditions; it does not observe behaviour.",
                              "design_ref": f"DESIGN.md section 4 ({pid})"},
            "level_note": note,
            "technique": technique,
        })
    na = []
    for pid in ids:
        if pid in CLAIMED: continue
        reason = NA_FINAL.get(pid, "static check for this property is designed (DESIGN.md section 4) but not built yet in this snapshot; not claimed until it is")
        na.append({"property_id": pid, "reason": reason})
    man = {
        "version": 1,
        "setup_cmd": "cd /verif/checker && GOFLAGS=-mod=mod GOPROXY=off GOSUMDB=off GOTOOLCHAIN=local GOWORK=off go build -o /verif/bin/spokcheck .",
        "hooks": {"guard": "verif", "enable": "none needed: the checker reads the source of /repo (go/packages + go/ssa), nothing in /repo is instrumented",
                  "baseline_off_cmd": "cd /repo && GOFLAGS=-mod=mod GOPROXY=off GOSUMDB=off go test -count=1 ./...",
                  "source_commits": [], "add_only": True},
        "engines": [{"name": "spokcheck", "path": "/verif/checker", "serves_properties": [c["property_id"] for c in checks],
                     "kind_free_text": "custom static analyses (edge dominance, control dependence, CFG path search, backward slicing, effect/entry-condition analysis) on go/packages + go/ssa + VTA call graph of golang.org/x/tools v0.29.0"}],
        "checks": checks,
        "notes": "Family: static analysis. Every check re-loads and type-checks /repo's working tree on each run; exit 0 = all obligations discharged, exit 1 + VIOLATION line = an obligation violated at a named construct, exit 2 = the checker cannot decide (anchor lost / undecided). Known findings: /verif/known_findings.json.",
        "not_applicable": na,
    }
    json.dump(man, open("/verif/MANIFEST.json", "w"), indent=1)
    print("claimed", [c["property_id"] for c in checks], "n/a", [n["property_id"] for n in na])

main()
